package main

// C02: value-directed cases. One primitive value is logged through every entry
// point that can carry it; the monitor (independent of the Coq model) decodes
// the emitted line with the oracle parser and compares with the argument, and
// requires the value's bytes to be identical across entry points.

import (
	"bytes"
	"encoding/base64"
	"encoding/hex"
	"encoding/json"
	"fmt"
	"math"
	"net"
	"reflect"
	"strconv"
	"time"

	"github.com/rs/zerolog"
	. "verifharness/hlib"
	"verifharness/oracle"
	"verifharness/progs"
)

func goRunes(s string) string { return string([]rune(s)) } // each ill-formed byte becomes U+FFFD

func checkNum(v oracle.Value, want string) error {
	if v.Kind != '#' || v.Num != want {
		return fmt.Errorf("number %q, want %q", v.Num, want)
	}
	return nil
}

func checkStr(v oracle.Value, want string) error {
	if v.Kind != 's' || v.Str != want {
		return fmt.Errorf("string %q, want %q", v.Str, want)
	}
	return nil
}

func checkFloat(v oracle.Value, f float64, bits int, s progs.Settings) error {
	switch {
	case math.IsNaN(f):
		return checkStr(v, "NaN")
	case math.IsInf(f, 1):
		return checkStr(v, "+Inf")
	case math.IsInf(f, -1):
		return checkStr(v, "-Inf")
	}
	if v.Kind != '#' {
		return fmt.Errorf("not a number")
	}
	if s.Prec == -1 {
		back, err := strconv.ParseFloat(v.Num, bits)
		if err != nil {
			return err
		}
		if bits == 32 {
			if math.Float32bits(float32(back)) != math.Float32bits(float32(f)) && !(back == 0 && f == 0) {
				return fmt.Errorf("float32 %s reads back as %v, logged %v", v.Num, back, f)
			}
		} else if math.Float64bits(back) != math.Float64bits(f) && !(back == 0 && f == 0) {
			return fmt.Errorf("float64 %s reads back as %v, logged %v", v.Num, back, f)
		}
		// rendered the way encoding/json renders it
		var ej []byte
		if bits == 32 {
			ej, _ = json.Marshal(float32(f))
		} else {
			ej, _ = json.Marshal(f)
		}
		if string(ej) != v.Num {
			return fmt.Errorf("float text %s, encoding/json renders %s", v.Num, ej)
		}
	} else if want := strconv.FormatFloat(f, 'f', s.Prec, bits); v.Num != want {
		return fmt.Errorf("float text %s, want %s at precision %d", v.Num, want, s.Prec)
	}
	return nil
}

func checkTime(v oracle.Value, t time.Time, s progs.Settings) error {
	switch s.TimeFormat {
	case zerolog.TimeFormatUnix:
		return checkNum(v, strconv.FormatInt(t.Unix(), 10))
	case zerolog.TimeFormatUnixMs:
		return checkNum(v, strconv.FormatInt(t.UnixNano()/1000000, 10))
	case zerolog.TimeFormatUnixMicro:
		return checkNum(v, strconv.FormatInt(t.UnixNano()/1000, 10))
	case zerolog.TimeFormatUnixNano:
		return checkNum(v, strconv.FormatInt(t.UnixNano(), 10))
	}
	if err := checkStr(v, goRunes(t.Format(s.TimeFormat))); err != nil {
		return err
	}
	// the text read back is the instant that was logged (to the precision the layout carries); only for the two
	// layouts that are self-describing, and for zone offsets of whole minutes (RFC 3339 has no seconds in offsets)
	// (and within a day: what the directed sweeps generated when this was written; offsets of 24 hours and more are
	// printed by the time package but not read back by it)
	if _, off := t.Zone(); (s.TimeFormat == time.RFC3339 || s.TimeFormat == time.RFC3339Nano) && off%60 == 0 && off > -86400 && off < 86400 && t.Year() >= 0 && t.Year() <= 9999 {
		back, err := time.Parse(time.RFC3339Nano, v.Str)
		if err != nil {
			return fmt.Errorf("time text %q does not parse: %v", v.Str, err)
		}
		if back.Unix() != t.Unix() || (s.TimeFormat == time.RFC3339Nano && !back.Equal(t)) {
			return fmt.Errorf("time text %q is the instant %s, logged %s (off by %s)", v.Str, back.UTC().Format(time.RFC3339Nano), t.UTC().Format(time.RFC3339Nano), back.Sub(t))
		}
		if _, boff := back.Zone(); boff != off {
			return fmt.Errorf("time text %q carries zone offset %d s, logged %d s", v.Str, boff, off)
		}
	}
	return nil
}

// checkOps: the decoded object has exactly the members the calls added, in call order, each equal to its argument.
// Covers the calls the history sweep uses: regular methods, Dict, Array of regular elements, Errs of plain errors.
func checkOps(v oracle.Value, ops []progs.Op, s progs.Settings) error {
	if v.Kind != 'o' {
		return fmt.Errorf("not an object")
	}
	if len(v.Members) != len(ops) {
		var ks []string
		for _, m := range v.Members {
			ks = append(ks, m.Key)
		}
		return fmt.Errorf("%d members %q, %d fields were added", len(v.Members), ks, len(ops))
	}
	for i, o := range ops {
		m := v.Members[i]
		if m.Key != goRunes(string(o.Key)) {
			return fmt.Errorf("member %d has key %q, added %q", i, m.Key, o.Key)
		}
		var err error
		switch o.K {
		case "key":
			err = checkValue(m.Val, *o.P, s)
		case "dict":
			err = checkOps(m.Val, o.Sub, s)
		case "array":
			err = checkArr(m.Val, len(o.Sub), func(j int, e oracle.Value) error { return checkValue(e, *o.Sub[j].P, s) })
		case "errs":
			err = checkArr(m.Val, len(o.Es), func(j int, e oracle.Value) error { return checkStr(e, goRunes(string(o.Es[j].S))) })
		default:
			err = fmt.Errorf("checkOps: unsupported op %s", o.K)
		}
		if err != nil {
			return fmt.Errorf("%q: %v", o.Key, err)
		}
	}
	return nil
}

func checkDur(v oracle.Value, d time.Duration, s progs.Settings) error {
	if s.DurInt {
		return checkNum(v, strconv.FormatInt(int64(d/s.DurUnit), 10))
	}
	return checkFloat(v, float64(d)/float64(s.DurUnit), 64, s)
}

func checkArr(v oracle.Value, n int, f func(i int, e oracle.Value) error) error {
	if v.Kind != 'a' || len(v.Arr) != n {
		return fmt.Errorf("array of %d elements expected, got kind %c len %d", n, v.Kind, len(v.Arr))
	}
	for i := range v.Arr {
		if err := f(i, v.Arr[i]); err != nil {
			return fmt.Errorf("element %d: %v", i, err)
		}
	}
	return nil
}

// checkValue: does the decoded value equal the logged argument, as C02 states it?
func checkValue(v oracle.Value, p progs.Prim, s progs.Settings) error {
	switch p.M {
	case "Hex":
		return checkStr(v, hex.EncodeToString(p.V.([]byte)))
	case "RawCBOR":
		return checkStr(v, "data:application/cbor;base64,"+base64.StdEncoding.EncodeToString(p.V.([]byte)))
	case "RawJSON":
		var raw []byte
		if rm, ok := p.V.(json.RawMessage); ok {
			raw = rm
		} else {
			raw = p.V.([]byte)
		}
		want, err := oracle.ParseJSON(raw)
		if err != nil {
			return nil
		}
		if !reflect.DeepEqual(want, v) {
			return fmt.Errorf("embedded JSON changed")
		}
		return nil
	case "Type":
		if p.V == nil {
			return checkStr(v, "<nil>")
		}
		return checkStr(v, reflect.TypeOf(p.V).String())
	case "Stringer":
		if p.V == nil {
			if v.Kind != 'n' {
				return fmt.Errorf("nil Stringer must be null")
			}
			return nil
		}
		return checkStr(v, goRunes(p.V.(fmt.Stringer).String()))
	case "Interface", "Any":
		b, err := json.Marshal(p.V)
		if err != nil {
			if v.Kind != 's' || len(v.Str) < 16 || v.Str[:16] != "marshaling error" {
				return fmt.Errorf("unmarshalable value must be logged as a marshaling error string, got kind %c", v.Kind)
			}
			return nil
		}
		want, err := oracle.ParseJSON(b)
		if err != nil {
			return nil
		}
		// encoding/json escapes HTML by default, zerolog's marshal func does not: compare decoded values
		if !reflect.DeepEqual(want, v) {
			return fmt.Errorf("interface value decodes differently from encoding/json's rendering")
		}
		return nil
	}
	switch x := p.V.(type) {
	case string:
		return checkStr(v, goRunes(x))
	case []byte:
		return checkStr(v, goRunes(string(x)))
	case []string:
		return checkArr(v, len(x), func(i int, e oracle.Value) error { return checkStr(e, goRunes(x[i])) })
	case []fmt.Stringer:
		return checkArr(v, len(x), func(i int, e oracle.Value) error {
			if x[i] == nil {
				if e.Kind != 'n' {
					return fmt.Errorf("nil Stringer must be null")
				}
				return nil
			}
			return checkStr(e, goRunes(x[i].String()))
		})
	case bool:
		if (x && v.Kind != 't') || (!x && v.Kind != 'f') {
			return fmt.Errorf("bool %v decoded as %c", x, v.Kind)
		}
		return nil
	case []bool:
		return checkArr(v, len(x), func(i int, e oracle.Value) error {
			if (x[i] && e.Kind != 't') || (!x[i] && e.Kind != 'f') {
				return fmt.Errorf("bool")
			}
			return nil
		})
	case time.Time:
		return checkTime(v, x, s)
	case []time.Time:
		return checkArr(v, len(x), func(i int, e oracle.Value) error { return checkTime(e, x[i], s) })
	case time.Duration:
		return checkDur(v, x, s)
	case []time.Duration:
		return checkArr(v, len(x), func(i int, e oracle.Value) error { return checkDur(e, x[i], s) })
	case float32:
		return checkFloat(v, float64(x), 32, s)
	case float64:
		return checkFloat(v, x, 64, s)
	case []float32:
		return checkArr(v, len(x), func(i int, e oracle.Value) error { return checkFloat(e, float64(x[i]), 32, s) })
	case []float64:
		return checkArr(v, len(x), func(i int, e oracle.Value) error { return checkFloat(e, x[i], 64, s) })
	case net.IP:
		return checkStr(v, x.String())
	case net.IPNet:
		return checkStr(v, x.String())
	case net.HardwareAddr:
		return checkStr(v, x.String())
	case nil:
		if v.Kind != 'n' {
			return fmt.Errorf("nil must be null")
		}
		return nil
	}
	rv := reflect.ValueOf(p.V)
	switch rv.Kind() {
	case reflect.Int, reflect.Int8, reflect.Int16, reflect.Int32, reflect.Int64:
		return checkNum(v, strconv.FormatInt(rv.Int(), 10))
	case reflect.Uint, reflect.Uint8, reflect.Uint16, reflect.Uint32, reflect.Uint64:
		return checkNum(v, strconv.FormatUint(rv.Uint(), 10))
	case reflect.Slice:
		return checkArr(v, rv.Len(), func(i int, e oracle.Value) error {
			el := rv.Index(i)
			switch el.Kind() {
			case reflect.Int, reflect.Int8, reflect.Int16, reflect.Int32, reflect.Int64:
				return checkNum(e, strconv.FormatInt(el.Int(), 10))
			default:
				return checkNum(e, strconv.FormatUint(el.Uint(), 10))
			}
		})
	}
	return fmt.Errorf("checkValue: unsupported %T", p.V)
}

// valueBytes extracts the raw bytes of member `key` (first occurrence at top level or one level down)
func memberRaw(line []byte, prefix string) ([]byte, bool) {
	i := bytes.Index(line, []byte(prefix))
	if i < 0 {
		return nil, false
	}
	rest := line[i+len(prefix):]
	// the value ends where a complete JSON value ends: scan with the oracle parser on growing prefixes is costly; use a bracket/quote scanner
	depth := 0
	inStr := false
	for j := 0; j < len(rest); j++ {
		c := rest[j]
		if inStr {
			if c == '\\' {
				j++
			} else if c == '"' {
				inStr = false
				if depth == 0 {
					return rest[:j+1], true
				}
			}
			continue
		}
		switch c {
		case '"':
			inStr = true
		case '{', '[':
			depth++
		case '}', ']':
			if depth == 0 {
				return rest[:j], true
			}
			depth--
			if depth == 0 {
				return rest[:j+1], true
			}
		case ',':
			if depth == 0 {
				return rest[:j], true
			}
		}
	}
	return rest, true
}

func runC02(c *Ctx, emit func(cs *progs.Case) progs.Obs) {
	reps := 6
	if c.Thorough() {
		reps = 60
	}
	key := []byte("val")
	var probeSel func(m string, p progs.Prim, s progs.Settings, sel func(entry string) bool)
	probe := func(m string, p progs.Prim, s progs.Settings) { probeSel(m, p, s, nil) }
	probeSel = func(m string, p progs.Prim, s progs.Settings, sel func(entry string) bool) {
		mk := func(ops []progs.Op, steps []progs.Step) *progs.Case {
			return &progs.Case{S: s, Level: 6, Ops: ops, Steps: steps}
		}
		type entry struct {
			name string
			cs   *progs.Case
			path []string // member path to the value
			elem int      // array element index, -1 if none
		}
		kop := progs.Op{K: "key", Key: key, P: &p}
		var entries []entry
		entries = append(entries, entry{"event", mk([]progs.Op{kop}, nil), []string{"val"}, -1})
		entries = append(entries, entry{"dict", mk([]progs.Op{{K: "dict", Key: []byte("d"), Sub: []progs.Op{kop}}}, nil), []string{"d", "val"}, -1})
		entries = append(entries, entry{"object", mk([]progs.Op{{K: "object", Key: []byte("o"), Sub: []progs.Op{kop}}}, nil), []string{"o", "val"}, -1})
		if progs.ContextHas(m) {
			entries = append(entries, entry{"context", mk(nil, []progs.Step{{Cops: []progs.Cop{{K: "op", O: &kop}}}}), []string{"val"}, -1})
		}
		if progs.ArrayMethods[m] {
			entries = append(entries, entry{"array", mk([]progs.Op{{K: "array", Key: []byte("a"), Sub: []progs.Op{{K: "aelem", P: &p}}}}, nil), []string{"a"}, 0})
		}
		switch m {
		case "Hex", "RawCBOR", "Type", "Stringer", "Stringers", "Any", "Uints8", "Interface":
		default:
			fp := p
			if m == "RawJSON" {
				fp.V = json.RawMessage(p.V.([]byte))
			}
			for _, asMap := range []bool{false, true} {
				name := "fields-slice"
				if asMap {
					name = "fields-map"
				}
				entries = append(entries, entry{name, mk([]progs.Op{{K: "fields", Via: asMap, KVs: []progs.FieldKV{{Key: key, K: "prim", P: &fp}}}}, nil), []string{"val"}, -1})
			}
		}
		var first []byte
		var firstName string
		for _, en := range entries {
			if sel != nil && !sel(en.name) {
				continue
			}
			o := emit(en.cs)
			if !o.Written {
				continue
			}
			v, err := oracle.CheckEventLine(o.Line)
			if err != nil {
				continue // reported by the C01 monitor
			}
			// walk the path
			cur := v
			ok := true
			for _, k := range en.path {
				found := false
				for _, mem := range cur.Members {
					if mem.Key == k {
						cur = mem.Val
						found = true
						break
					}
				}
				if !found {
					ok = false
					break
				}
			}
			if ok && en.elem >= 0 {
				if cur.Kind == 'a' && len(cur.Arr) > en.elem {
					cur = cur.Arr[en.elem]
				} else {
					ok = false
				}
			}
			desc := map[string]interface{}{"method": m, "entry": en.name, "value": p.Describe(), "settings": fmt.Sprintf("%+v", s), "line": fmt.Sprintf("%q", o.Line)}
			if probeHistory != nil {
				desc["the_event_logged_just_before"] = probeHistory
			}
			if !ok {
				c.Violate(Violation{Key: "field-missing", Monitor: "decode-back", Desc: fmt.Sprintf("%s through %s: the field is not in the decoded event", m, en.name), Case: desc})
				continue
			}
			if err := checkValue(cur, p, s); err != nil {
				c.Violate(Violation{Key: "value-not-roundtrip", Monitor: "decode-back", Desc: fmt.Sprintf("%s through %s: %v", m, en.name, err), Case: desc})
			}
			// identical bytes across entry points
			prefix := `"val":`
			if en.elem >= 0 {
				prefix = `"a":[`
			}
			raw, found := memberRaw(o.Line, prefix)
			if found {
				if first == nil {
					first, firstName = raw, en.name
				} else if !bytes.Equal(first, raw) {
					c.Violate(Violation{Key: "entry-points-differ", Monitor: "entry-points-agree", Desc: fmt.Sprintf("%s: %s encodes %q but %s encodes %q", m, firstName, first, en.name, raw), Case: desc})
				}
			}
			c.Hist("c02_entry", en.name)
		}
		c.Hist("c02_method", m)
	}
	for rep := 0; rep < reps; rep++ {
		for _, m := range progs.EventMethods {
			r := c.R.Fork()
			g := &progs.Gen{R: r}
			s := g.GenSettings()
			s.LevelName = ""
			probe(m, progs.GenPrim(r, m), s)
		}
	}
	// directed: every byte class of the generator (ASCII specials, control bytes, well-formed 2/3/4-byte
	// runes incl. a literal U+FFFD and U+FFFE, every kind of ill-formed sequence) alone, embedded and
	// doubled, through every text-carrying method and every entry point
	for _, cl := range progs.ByteClasses() {
		for _, txt := range [][]byte{cl, append(append([]byte("a"), cl...), 'z'), append(append([]byte{}, cl...), cl...)} {
			s := progs.DefaultSettings()
			s.LevelName = ""
			probe("Str", progs.Prim{M: "Str", V: string(txt)}, s)
			probe("Bytes", progs.Prim{M: "Bytes", V: append([]byte{}, txt...)}, s)
			probe("Strs", progs.Prim{M: "Strs", V: []string{string(txt), "x", string(txt)}}, s)
			probe("Stringer", progs.MkStringer(string(txt)), s)
		}
	}
	// directed: instants on both sides of the epoch with sub-unit fractions, under every integer time format,
	// scalar and slice; durations around zero under every unit
	instants := []time.Time{time.Unix(0, 0), time.Unix(-1, 999500000), time.Unix(-1, 500), time.Unix(0, -1), time.Unix(0, -999999), time.Unix(-1500, 123456789),
		time.Unix(0, 1), time.Unix(0, 999999), time.Unix(1, 500000), time.Unix(1700000000, 999999999), time.Unix(-2000000000, 1)}
	for _, tf := range []string{zerolog.TimeFormatUnix, zerolog.TimeFormatUnixMs, zerolog.TimeFormatUnixMicro, zerolog.TimeFormatUnixNano, time.RFC3339Nano} {
		for _, t := range instants {
			s := progs.DefaultSettings()
			s.LevelName = ""
			s.TimeFormat = tf
			probe("Time", progs.Prim{M: "Time", V: t.UTC()}, s)
			probe("Times", progs.Prim{M: "Times", V: []time.Time{t.UTC(), t.Add(time.Nanosecond).UTC()}}, s)
		}
	}
	for _, unit := range []time.Duration{time.Nanosecond, time.Microsecond, time.Millisecond, time.Second, 7, -1, -1000} { // -1: MinInt64 / -1 wraps in Go
		for _, useInt := range []bool{false, true} {
			for _, d := range []time.Duration{0, 1, -1, 999, -999, 1500 * time.Microsecond, -1500 * time.Microsecond, time.Duration(math.MaxInt64), time.Duration(math.MinInt64)} {
				s := progs.DefaultSettings()
				s.LevelName = ""
				s.DurUnit, s.DurInt = unit, useInt
				probe("Dur", progs.Prim{M: "Dur", V: d}, s)
				probe("Durs", progs.Prim{M: "Durs", V: []time.Duration{d, -d}}, s)
			}
		}
	}
	// directed: escape look-alikes (a backslash in the DATA followed by u003c, n, a quote ...) as text and inside
	// reflected values; decoded they are the same characters again
	for i, b := range progs.EscapeLookalikes() {
		s := progs.DefaultSettings()
		s.LevelName = ""
		txt := "a" + string(b) + "z"
		probe("Str", progs.Prim{M: "Str", V: txt}, s)
		for k := 0; k < 2; k++ {
			sh := progs.IfaceShapes[(i+k*3)%len(progs.IfaceShapes)]
			probe("Interface", progs.Prim{M: "Interface", V: sh.Mk(txt)}, s)
		}
	}
	// directed: zone offsets. Every sign / sub-hour / sub-minute combination of a fixed zone, under the default layout
	// through every entry point, and as one slice under further layouts that print the zone
	offsets := []int{0, 1, -1, 59, -59, 60, -60, 900, -900, 1800, -1800, 2700, -2700, 3599, -3599, 3600, -3600, 5400, -5400, -2670, /* Monrovia before 1972 */
		12600, -12600, 20700, 50400, -43200, 86399, -86399}
	zinstants := []time.Time{time.Unix(1614834367, 0), time.Unix(0, 0), time.Unix(1609458299, 999999999), time.Unix(-1, 500000000)}
	for i, off := range offsets {
		s := progs.DefaultSettings()
		s.LevelName = ""
		probe("Time", progs.Prim{M: "Time", V: zinstants[i%len(zinstants)].In(time.FixedZone("", off))}, s)
		c.Hist("c02_zone_offset", fmt.Sprint(off))
	}
	for _, layout := range []string{time.RFC3339, time.RFC3339Nano, "2006-01-02T15:04:05.000Z0700", time.RFC1123Z, "Jan _2 15:04:05 Z07:00:00"} {
		for _, t := range zinstants {
			var ts []time.Time
			for _, off := range offsets {
				ts = append(ts, t.In(time.FixedZone("", off)))
			}
			s := progs.DefaultSettings()
			s.LevelName = ""
			s.TimeFormat = layout
			probe("Times", progs.Prim{M: "Times", V: ts}, s)
		}
	}
	runC02Directed(c, probe, probeSel)
	runC02Floats(c, probe, probeSel)
	runC02History(c, emit)
}

// floatThresholds: the decimal magnitudes at which the text of a float changes shape: the two at which the notation
// changes ('f' below 1e21 and from 1e-6 on, 'e' outside: the first two entries), and those at which the exponent text
// changes length or the exponent clean-up (e-07 -> e-7) applies or stops applying, the ends of the normal and
// subnormal ranges of both widths.
var floatThresholds = []float64{1e-6, 1e21, 1e-5, 1e-7, 1e-9, 1e-10, 1e-11, 1e20, 1e22, 1e9, 1e10, 1e-37, 1e-38, 1e-45, 1e38, 1e-99, 1e-100, 1e99, 1e100, 1e-307, 1e-308, 1e-323, 1e308}

// around64: the float64 bit patterns at and next to a threshold: the float64 nearest to it and its neighbours up to two
// ulps away; the float32 nearest to it and that one's float32 neighbours, each widened (what a float32 looks like to
// code that compares in float64), with their float64 neighbours; the midpoints between those float32 values (what
// rounds to the threshold, or just not, for code that compares a float64 in float32)
func around64(t float64) (out []float64) {
	add := func(f float64) {
		if !math.IsInf(f, 0) && !math.IsNaN(f) {
			out = append(out, f)
		}
	}
	b := math.Float64bits(t)
	for d := -2; d <= 2; d++ {
		add(math.Float64frombits(uint64(int64(b) + int64(d))))
	}
	if t32 := float32(t); t32 != 0 && !math.IsInf(float64(t32), 0) {
		b32 := math.Float32bits(t32)
		var prev float64
		for d := -1; d <= 1; d++ {
			w := float64(math.Float32frombits(uint32(int32(b32) + int32(d))))
			wb := math.Float64bits(w)
			add(math.Float64frombits(wb - 1))
			add(w)
			add(math.Float64frombits(wb + 1))
			if d > -1 {
				mid := prev + (w-prev)/2
				mb := math.Float64bits(mid)
				add(math.Float64frombits(mb - 1))
				add(mid)
				add(math.Float64frombits(mb + 1))
			}
			prev = w
		}
	}
	return
}

// around32: the float32 bit patterns at and next to a threshold (up to two ulps away)
func around32(t float64) (out []float32) {
	t32 := float32(t)
	if math.IsInf(float64(t32), 0) {
		t32 = math.MaxFloat32
	}
	b := math.Float32bits(t32)
	for d := -2; d <= 2; d++ {
		if int64(b)+int64(d) < 0 {
			continue
		}
		f := math.Float32frombits(uint32(int64(b) + int64(d)))
		if !math.IsInf(float64(f), 0) && !math.IsNaN(float64(f)) {
			out = append(out, f)
		}
	}
	return
}

// runC02Floats: "finite floats as the identical float32/float64 rendered the way encoding/json renders them (at
// FloatingPointPrecision -1)": a directed sweep of the bit patterns at and next to every threshold the text depends on,
// in both widths and both signs.  The patterns around the two notation thresholds go, one value per event, through
// every entry point of Float32 / Float64; all patterns go, as slices, through every entry point of Floats32 / Floats64
// and, one value per event, through the entry points in rotation.  The monitor is checkFloat: the number read back is
// the identical float and its text is encoding/json's.  Also at precisions 0 and 3 (the text strconv's 'f' format gives).
func runC02Floats(c *Ctx, probe func(string, progs.Prim, progs.Settings), probeSel func(string, progs.Prim, progs.Settings, func(string) bool)) {
	def := progs.DefaultSettings()
	def.LevelName = ""
	entries := []string{"event", "context", "array", "fields-slice", "dict", "fields-map", "object"}
	step := 0
	for ti, t := range floatThresholds {
		var v64 []float64
		for _, f := range around64(t) {
			v64 = append(v64, f, -f)
		}
		var v32 []float32
		for _, f := range around32(t) {
			v32 = append(v32, f, -f)
		}
		probe("Floats64", progs.Prim{M: "Floats64", V: v64}, def)
		probe("Floats32", progs.Prim{M: "Floats32", V: v32}, def)
		for _, prec := range []int{0, 3} {
			s := def
			s.Prec = prec
			want := entries[(ti+prec)%len(entries)]
			sel := func(e string) bool { return e == want || (want == "array" && e == "event") } // (slices are no array elements)
			probeSel("Floats64", progs.Prim{M: "Floats64", V: v64}, s, sel)
			probeSel("Floats32", progs.Prim{M: "Floats32", V: v32}, s, sel)
		}
		notation := ti < 2
		for i, f := range v64 {
			switch {
			case notation || c.Thorough():
				probe("Float64", progs.Prim{M: "Float64", V: f}, def)
			case i%6 == ti%6: // quick tier: every third pattern in one sign (all patterns, both signs, are in the slices)
				want := entries[step%len(entries)]
				step++
				probeSel("Float64", progs.Prim{M: "Float64", V: f}, def, func(e string) bool { return e == want })
			}
		}
		for i, f := range v32 {
			switch {
			case notation || c.Thorough():
				probe("Float32", progs.Prim{M: "Float32", V: f}, def)
			case i%6 == ti%6:
				want := entries[step%len(entries)]
				step++
				probeSel("Float32", progs.Prim{M: "Float32", V: f}, def, func(e string) bool { return e == want })
			}
		}
		c.Hist("c02_float_threshold", strconv.FormatFloat(t, 'g', -1, 64))
	}
}

// probeHistory: set by sweeps whose cases are meant to follow one another (what was logged by the previous case)
var probeHistory interface{}

// eulerWalk: a sequence over 0..n-1 in which every ordered pair (a, b), a != b, occurs as two consecutive items
func eulerWalk(n int) []int {
	used := map[[2]int]bool{}
	walk := []int{0}
	for len(used) < n*(n-1) {
		cur := walk[len(walk)-1]
		next := -1
		for k := 1; k < n && next < 0; k++ {
			if b := (cur + k) % n; !used[[2]int{cur, b}] {
				next = b
			}
		}
		if next < 0 { // every edge out of cur is used: continue from a vertex that still has one
			for a := 0; a < n && next < 0; a++ {
				for b := 0; b < n && next < 0; b++ {
					if a != b && a != cur && !used[[2]int{a, b}] {
						next = a
					}
				}
			}
		}
		used[[2]int{cur, next}] = true // (a jump is a consecutive pair too)
		walk = append(walk, next)
	}
	return walk
}

// runC02Directed: (1) Type() of values whose type NAME has quote / backslash / non-ASCII characters (the documented
// text form is reflect's name of the type); (2) time values at the ends of what time.Time carries under the layouts
// (the UNIXMS/MICRO/NANO formats are restricted to the UnixNano range by the property, the layouts are not);
// (3) neighbouring time values logged one after the other: every ordered pair of instants that share the second (and
// differ in the fraction), the minute, or the instant but not the zone, as consecutive elements of one Times() call
// and as consecutive events through rotating entry points, under layouts of every resolution - whole minutes, whole
// seconds, fractions written with a dot and with a comma (both are fraction separators of the time package),
// fixed-width (000) and trimmed (999) - and with the layout changing between two events.  What is decoded is each
// value's own text, whatever was logged just before.
func runC02Directed(c *Ctx, probe func(string, progs.Prim, progs.Settings), probeSel func(string, progs.Prim, progs.Settings, func(string) bool)) {
	def := progs.DefaultSettings()
	def.LevelName = ""
	for _, v := range progs.AwkwardTypeValues() {
		probe("Type", progs.Prim{M: "Type", V: v}, def)
	}
	ext := extremeInstants()
	for _, layout := range []string{time.RFC3339, time.RFC3339Nano, time.RFC1123Z} {
		s := def
		s.TimeFormat = layout
		for i := 0; i < len(ext); i += 16 {
			j := i + 16
			if j > len(ext) {
				j = len(ext)
			}
			probe("Times", progs.Prim{M: "Times", V: ext[i:j]}, s)
		}
		for i := 0; i < len(ext); i += 5 {
			probeSel("Time", progs.Prim{M: "Time", V: ext[i]}, s, func(e string) bool { return e == "event" || e == "fields-map" })
		}
	}
	// (3)
	base := time.Unix(1715941815, 0).UTC()
	zoneA, zoneB := time.FixedZone("", 3600), time.FixedZone("", 3600) // equal offsets, two Location values
	instants := []time.Time{base, base.Add(7 * time.Millisecond), base.Add(123456 * time.Microsecond), base.Add(999999999), base.Add(time.Second + 7*time.Millisecond),
		base.Add(7 * time.Millisecond).In(zoneA), base.Add(500 * time.Millisecond).In(zoneB), base.Add(31 * time.Second)}
	walk := eulerWalk(len(instants))
	layouts := []string{time.RFC3339, "2006-01-02 15:04:05,000 -0700", time.RFC3339Nano, "2006-01-02T15:04:05,999999Z07:00", "15:04:05.00", time.StampMicro + " Z07:00",
		"Jan _2 15:04:05,999999999 -07", time.Kitchen, "2006-01-02T15:04:05.000000000Z07:00", "15:04:05,9"}
	entries := []string{"event", "context", "array", "fields-slice", "dict", "fields-map", "object"}
	step := 0
	for _, layout := range layouts {
		s := def
		s.TimeFormat = layout
		var seq []time.Time
		for _, i := range walk {
			seq = append(seq, instants[i])
		}
		probe("Times", progs.Prim{M: "Times", V: seq}, s)
		w := walk
		if !c.Thorough() {
			w = walk[:len(walk)/2+1] // quick: the slice above holds every pair; as separate events, half of the walk per layout
			if step%2 == 1 {
				w = walk[len(walk)/2:]
			}
		}
		for _, i := range w {
			want := entries[step%len(entries)]
			step++
			p := progs.Prim{M: "Time", V: instants[i]}
			probeSel("Time", p, s, func(e string) bool { return e == want })
			probeHistory = map[string]interface{}{"value": p.Describe(), "entry": want, "TimeFieldFormat": layout}
		}
		c.Hist("c02_time_neighbours", layout)
	}
	probeHistory = nil
}

// runC02History: the event under test is preceded, on the same logger and goroutine, by events that are filtered out
// (by the logger's level, the global level, a sampler, WithLevel(Disabled), a Disabled logger) and were given
// non-empty pooled values (zerolog.Arr(), zerolog.Dict()).  What is decoded from the following enabled event /
// context is still exactly what was logged there, through every call that takes an array or dict from a pool.
func runC02History(c *Ctx, emit func(cs *progs.Case) progs.Obs) {
	s := progs.DefaultSettings()
	s.LevelName = ""
	elem := func(m string, v interface{}) progs.Op { return progs.Op{K: "aelem", P: &progs.Prim{M: m, V: v}} }
	kp := func(k, m string, v interface{}) progs.Op {
		return progs.Op{K: "key", Key: []byte(k), P: &progs.Prim{M: m, V: v}}
	}
	var big []progs.Op
	for i := 0; i < 40; i++ {
		big = append(big, elem("Int", 1000+i))
	}
	stale := [][]progs.Op{
		{{K: "array", Key: []byte("x"), Sub: []progs.Op{elem("Str", "debug-only"), elem("Int", -1), elem("Bool", true)}}},
		{{K: "dict", Key: []byte("x"), Sub: []progs.Op{kp("stale", "Str", "s"), {K: "array", Key: []byte("y"), Sub: []progs.Op{elem("Float64", 2.5), elem("Str", "t")}}}},
			{K: "array", Key: []byte("z"), Sub: []progs.Op{elem("Str", "u")}}},
		{{K: "array", Key: []byte("x"), Sub: nil}, {K: "array", Key: []byte("w"), Sub: big}, kp("k", "Str", "v")},
	}
	fresh := []progs.Op{elem("Int", 1), elem("Int", 2)}
	errs := []*progs.ErrV{{K: "text", S: []byte("e1")}, {K: "text", S: []byte("e2")}}
	type consumer struct {
		name string
		ev   []progs.Op
		ctx  []progs.Op
	}
	consumers := []consumer{
		{"Event.Array(Arr())", []progs.Op{{K: "array", Key: []byte("val"), Sub: fresh}}, nil},
		{"Event.Array(LogArrayMarshaler)", []progs.Op{{K: "array", Key: []byte("val"), Sub: fresh, Via: true}}, nil},
		{"Event.Array(empty)", []progs.Op{{K: "array", Key: []byte("val"), Sub: nil}, kp("after", "Int", 3)}, nil},
		{"Event.Errs", []progs.Op{{K: "errs", Key: []byte("val"), Es: errs}}, nil},
		{"Event.Dict(Dict().Array)", []progs.Op{{K: "dict", Key: []byte("d"), Sub: []progs.Op{kp("a", "Str", "b"), {K: "array", Key: []byte("val"), Sub: fresh}}}}, nil},
		{"two arrays", []progs.Op{{K: "array", Key: []byte("val"), Sub: fresh}, {K: "array", Key: []byte("val2"), Sub: []progs.Op{elem("Str", "only")}}}, nil},
		{"Context.Array", []progs.Op{kp("e", "Int", 0)}, []progs.Op{{K: "array", Key: []byte("val"), Sub: fresh}}},
		{"Context.Errs", nil, []progs.Op{{K: "errs", Key: []byte("val"), Es: errs}}},
		{"Context.Dict", nil, []progs.Op{{K: "dict", Key: []byte("d"), Sub: []progs.Op{kp("a", "Str", "b")}}}},
	}
	for mode := range progs.PreludeModes {
		for si, st := range stale {
			for ci, cn := range consumers {
				cs := &progs.Case{S: s, Level: 1, Ops: cn.ev, Fin: (mode + si + ci) % 4}
				cs.Pre = &progs.Prelude{Mode: mode, Ops: st, Reps: 1 + (si+ci)%2, Fin: (mode + ci) % 4}
				if cn.ctx != nil {
					// the filtered events come first, on the root logger; the context is derived after them
					cs.Pre.Early = true
					var cops []progs.Cop
					for i := range cn.ctx {
						o := cn.ctx[i]
						if o.K == "errs" {
							cops = append(cops, progs.Cop{K: "errs", Key: o.Key, Es: o.Es})
						} else {
							cops = append(cops, progs.Cop{K: "op", O: &o})
						}
					}
					cs.Steps = []progs.Step{{Cops: cops}}
				}
				o := emit(cs)
				desc := map[string]interface{}{"history": "filtered event(s) given non-empty pooled values, then " + cn.name, "case": cs.Describe(), "line": fmt.Sprintf("%q", o.Line)}
				if !o.Written {
					c.Violate(Violation{Key: "field-missing", Monitor: "decode-back", Desc: "the enabled event after a filtered one was not written", Case: desc})
					continue
				}
				v, err := oracle.CheckEventLine(o.Line)
				if err != nil {
					continue // C01's monitor
				}
				want := append(append([]progs.Op{}, cn.ctx...), cn.ev...)
				if err := checkOps(v, want, s); err != nil {
					c.Violate(Violation{Key: "value-not-roundtrip", Monitor: "decode-back", Desc: fmt.Sprintf("%s after a filtered event (%s) that was given non-empty Arr()/Dict() values: %v", cn.name, progs.PreludeModes[mode], err), Case: desc})
				}
				c.Hist("c02_history", cn.name)
			}
		}
	}
}
