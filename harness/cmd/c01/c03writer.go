package main

// C03: loggers without a writer.  New(nil) - and so Output(nil) - gives a logger that writes to io.Discard: its events
// pass the level gate like any others, are built, and every hook of the derivation runs for them exactly once with the
// event's level and final message (a metrics counter, a test spy, an audit tap are the usual reason to build such a
// logger); only their bytes go nowhere.  Output(w) further down the chain gives the usual line again.  Hooks
// registered inside the writer-less stretch belong to the derivation like all others.

import (
	"fmt"
	"strings"
	"time"

	. "verifharness/hlib"
	"verifharness/progs"
)

// runC03Writerless: every word of length <= 2 over the five kinds of hook registration (Caller, CallerWithSkipFrameCount,
// Timestamp, Hook, LevelHook) and a few with a discarding hook, with an Output(nil) ... Output(w) stretch starting and
// ending at every position (O ... W inserted), from New(w) and from New(nil).  Two kinds of case:
//   - the event is logged through the end of the chain as it is: where the chain ends inside the stretch the logger has
//     no writer - every hook once, in order, handed level and final message; the caller hooks consulted
//     CallerMarshalFunc; events of every level through every entry point and finalizer;
//   - the writer is attached again (by W, or by the runner after the last step): the usual layout, with the hooks
//     registered before, inside and after the stretch.
func runC03Writerless(c *Ctx, emit func(cs *progs.Case) progs.Obs) {
	s := progs.DefaultSettings()
	now := time.Unix(1700000000, 0).UTC()
	ep := progs.Prim{M: "Str", V: "v"}
	letters := "CKTHL"
	var bases []string
	for _, a := range letters {
		bases = append(bases, string(a))
		for _, b := range letters {
			bases = append(bases, string(a)+string(b))
		}
	}
	bases = append(bases, "XH", "HX", "HXH", "HLTH", "KHCH")
	msgs := []string{"m", "100%", "two\nlines", "", "caf\xc3\xa9 \xff"}
	k := 0
	for _, w := range bases {
		n := len(w)
		for i := 0; i <= n; i++ {
			for j := i; j <= n; j++ {
				roots := []int{0}
				if i == 0 {
					roots = []int{0, 2}
				}
				for _, root := range roots {
					k++
					var word string
					if root == 2 {
						word = "Z" + w[:j] + "W" + w[j:]
						if j == n {
							word = "Z" + w // no writer to the end
						}
					} else {
						word = w[:i] + "O" + w[i:j] + "W" + w[j:]
						if j == n {
							word = w[:i] + "O" + w[i:]
						}
					}
					what := "registrations " + word + " (O = Output(nil), W = Output(w), Z = from New(nil))"
					level := []int{1, 6, 0, 3, 5, -1, 2, 8, 4}[k%9]
					mkCase := func(noWriter bool, variant int) *progs.Case {
						steps, _, _ := hookChainAt(word, k%2, s, now, level, 0xff)
						cs := &progs.Case{S: s, Now: now, Steps: steps, Level: level, Root: root, NoWriter: noWriter, Msg: []byte(msgs[(k+variant)%len(msgs)]), Fin: (k + variant) % 4, Entry: k % 2}
						if variant == 1 {
							// the entry points that build the message themselves
							cs.Fin, cs.Entry = 0, 2+k%4
							cs.Level = map[int]int{2: 6, 3: 0, 4: 0, 5: 0}[cs.Entry]
							if cs.Entry == 5 {
								cs.Msg = append(cs.Msg, '\n')
							}
							cs.Steps, _, _ = hookChainAt(word, k%2, s, now, cs.Level, 0xff)
						} else {
							cs.Ops = []progs.Op{{K: "key", Key: []byte("e"), P: &ep}}
						}
						return cs
					}
					// (1) through the writer-less end of the chain
					if j == n {
						for variant := 0; variant < 2; variant++ {
							cs := mkCase(true, variant)
							callers := strings.Count(w, "C") + strings.Count(w, "K")
							before, beforeChecks := progs.CallerRuns, hookArgChecks
							o := emit(cs) // monitorLayout: each hook once and in order; monitorHookArgs: level and message
							if o.Panic != nil {
								continue
							}
							// (Context.Caller() registers a hook; its one observable effect on a logger without a writer is that
							// CallerMarshalFunc is consulted.  Only "not at all" is flagged: how often one run of the hook consults it
							// is not the property's subject.)
							if got := progs.CallerRuns - before; got == 0 && callers > 0 {
								c.Violate(Violation{Key: "hooks-not-once-in-order", Monitor: "hooks-once", Desc: fmt.Sprintf("%s, event through the writer-less logger: CallerMarshalFunc was never consulted; the derivation has %d caller hooks", what, callers), Case: cs.Describe(), Observed: got, Expected: callers})
							}
							if len(cs.HookMarks()) > 0 && hookArgChecks == beforeChecks {
								c.Violate(Violation{Key: "hooks-not-once-in-order", Monitor: "hook-arguments", Desc: what + ", event through the writer-less logger: no recording hook ran for an enabled event of a derivation that registers at least one", Case: cs.Describe()})
							}
							c.Hist("c03_writerless_event_entry", progs.EntryNames[cs.EntryUsed()])
						}
					}
					// (2) with the writer attached again
					if strings.Contains(w, "X") || (!c.Thorough() && k%3 != 0) {
						continue
					}
					steps, keys, ids := hookChainAt(word, k%2, s, now, level, 0xff)
					cs := &progs.Case{S: s, Now: now, Steps: steps, Level: level, Root: root, Ops: []progs.Op{{K: "key", Key: []byte("e"), P: &ep}}, Msg: []byte("m"), Fin: k % 4, Entry: k % 2}
					o := emit(cs)
					var want []string
					if level != 6 {
						want = append(want, s.LevelName)
					}
					want = append(append(append(want, "e"), keys...), s.MessageName)
					checkHookLayout(c, cs, o, what, want, ids)
					c.Hist("c03_writerless_stretch", fmt.Sprintf("%d of %d", j-i, n))
				}
			}
		}
	}
}
