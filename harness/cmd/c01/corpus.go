package main

import (
	"verifharness/progs"
)

// minimized inputs of defects that were fixed in /repo (KNOWN_FINDINGS.txt "fixed:" lines); run first, every time
func corpus() []*progs.Case {
	s := progs.DefaultSettings()
	base := func() *progs.Case { return &progs.Case{S: s, Level: 1, Msg: []byte("m")} }
	var out []*progs.Case
	// F1: Fields([]interface{}{"e", []error{a, b}})
	{
		c := base()
		c.Ops = []progs.Op{{K: "fields", KVs: []progs.FieldKV{{Key: []byte("e"), K: "errs", Es: []*progs.ErrV{{K: "text", S: []byte("a")}, {K: "text", S: []byte("b")}, {K: "nil"}}}}}}
		out = append(out, c)
	}
	// F2: Stack().Fields({"e", err}) with ErrorStackMarshaler returning nil / a typed nil error
	for _, k := range []string{"nil", "typednil"} {
		c := base()
		c.S.StackMarshaler = true
		c.Ops = []progs.Op{{K: "stack"}, {K: "fields", KVs: []progs.FieldKV{{Key: []byte("e"), K: "err", E: &progs.ErrV{K: "text", S: []byte("boom"), Stk: &progs.ErrV{K: k}}}}}, {K: "key", Key: []byte("after"), P: &progs.Prim{M: "Int", V: 1}}}
		out = append(out, c)
	}
	// F3: With().Str("a","b").EmbedObject(nil / field-less marshaler)
	for _, nilObj := range []bool{true, false} {
		c := base()
		o := progs.Op{K: "key", Key: []byte("a"), P: &progs.Prim{M: "Str", V: "b"}}
		c.Steps = []progs.Step{{Cops: []progs.Cop{{K: "op", O: &o}, {K: "embed", Nil: nilObj}}}}
		c.Ops = []progs.Op{{K: "key", Key: []byte("c"), P: &progs.Prim{M: "Str", V: "d"}}}
		out = append(out, c)
	}
	return out
}
