package main

// C07 - zero heap allocation on the documented fast paths.
// Generated chains over the allocation-free method set are compiled to
// closures (no reflection), then measured on the real code:
//   * testing.AllocsPerRun must be 0 (enabled, with/without context and
//     timestamp hook, and level-filtered) - escape analysis / boxing / allocator
//     are observed here, not modelled;
//   * on freshly emptied pools the first run must allocate exactly the peak
//     demand the Coq pool-trace model predicts (Heap/Pool.v), later runs nothing.

import (
	"errors"
	"fmt"
	"io"
	"net"
	"runtime"
	"runtime/debug"
	"testing"
	"time"

	"github.com/rs/zerolog"
	"verifharness/hlib"
	. "verifharness/hlib"
	"verifharness/progs"
)

func main() { hlib.Main(map[string]func(*hlib.Ctx){"C07": run}) }

type objF struct{ fs []func(*zerolog.Event) }

func (o *objF) MarshalZerologObject(e *zerolog.Event) {
	for _, f := range o.fs {
		f(e)
	}
}

var fastMethods = []string{"Str", "Strs", "Bytes", "Hex", "Bool", "Bools", "Int", "Int8", "Int16", "Int32", "Int64", "Ints", "Ints8", "Ints16", "Ints32", "Ints64",
	"Uint", "Uint8", "Uint16", "Uint32", "Uint64", "Uints", "Uints8", "Uints16", "Uints32", "Uints64", "Float32", "Float64", "Floats32", "Floats64",
	"Time", "Times", "Dur", "Durs", "RawJSON", "Type"}

// compile a regular field call into a closure that allocates nothing by itself
func compileKey(key string, p progs.Prim) func(*zerolog.Event) {
	switch v := p.V.(type) {
	case string:
		return func(e *zerolog.Event) { e.Str(key, v) }
	case []string:
		return func(e *zerolog.Event) { e.Strs(key, v) }
	case []byte:
		switch p.M {
		case "Hex":
			return func(e *zerolog.Event) { e.Hex(key, v) }
		case "RawJSON":
			return func(e *zerolog.Event) { e.RawJSON(key, v) }
		}
		return func(e *zerolog.Event) { e.Bytes(key, v) }
	case bool:
		return func(e *zerolog.Event) { e.Bool(key, v) }
	case []bool:
		return func(e *zerolog.Event) { e.Bools(key, v) }
	case int:
		return func(e *zerolog.Event) { e.Int(key, v) }
	case int8:
		return func(e *zerolog.Event) { e.Int8(key, v) }
	case int16:
		return func(e *zerolog.Event) { e.Int16(key, v) }
	case int32:
		return func(e *zerolog.Event) { e.Int32(key, v) }
	case int64:
		return func(e *zerolog.Event) { e.Int64(key, v) }
	case []int:
		return func(e *zerolog.Event) { e.Ints(key, v) }
	case []int8:
		return func(e *zerolog.Event) { e.Ints8(key, v) }
	case []int16:
		return func(e *zerolog.Event) { e.Ints16(key, v) }
	case []int32:
		return func(e *zerolog.Event) { e.Ints32(key, v) }
	case []int64:
		return func(e *zerolog.Event) { e.Ints64(key, v) }
	case uint:
		return func(e *zerolog.Event) { e.Uint(key, v) }
	case uint8:
		return func(e *zerolog.Event) { e.Uint8(key, v) }
	case uint16:
		return func(e *zerolog.Event) { e.Uint16(key, v) }
	case uint32:
		return func(e *zerolog.Event) { e.Uint32(key, v) }
	case uint64:
		return func(e *zerolog.Event) { e.Uint64(key, v) }
	case []uint:
		return func(e *zerolog.Event) { e.Uints(key, v) }
	case []uint16:
		return func(e *zerolog.Event) { e.Uints16(key, v) }
	case []uint32:
		return func(e *zerolog.Event) { e.Uints32(key, v) }
	case []uint64:
		return func(e *zerolog.Event) { e.Uints64(key, v) }
	case float32:
		return func(e *zerolog.Event) { e.Float32(key, v) }
	case float64:
		return func(e *zerolog.Event) { e.Float64(key, v) }
	case []float32:
		return func(e *zerolog.Event) { e.Floats32(key, v) }
	case []float64:
		return func(e *zerolog.Event) { e.Floats64(key, v) }
	case time.Time:
		return func(e *zerolog.Event) { e.Time(key, v) }
	case []time.Time:
		return func(e *zerolog.Event) { e.Times(key, v) }
	case time.Duration:
		return func(e *zerolog.Event) { e.Dur(key, v) }
	case []time.Duration:
		return func(e *zerolog.Event) { e.Durs(key, v) }
	case net.IP:
		return func(e *zerolog.Event) { e.IPAddr(key, v) }
	case net.HardwareAddr:
		return func(e *zerolog.Event) { e.MACAddr(key, v) }
	}
	if p.M == "Uints8" {
		u := p.FieldsValue().([]byte)
		return func(e *zerolog.Event) { e.Uints8(key, u) }
	}
	if p.M == "Type" {
		val := p.V
		return func(e *zerolog.Event) { e.Type(key, val) }
	}
	panic(fmt.Sprintf("compileKey %s %T", p.M, p.V))
}

func compileArrayElem(p progs.Prim) func(*zerolog.Array) {
	switch v := p.V.(type) {
	case string:
		return func(a *zerolog.Array) { a.Str(v) }
	case bool:
		return func(a *zerolog.Array) { a.Bool(v) }
	case int:
		return func(a *zerolog.Array) { a.Int(v) }
	case int64:
		return func(a *zerolog.Array) { a.Int64(v) }
	case uint8:
		return func(a *zerolog.Array) { a.Uint8(v) }
	case uint64:
		return func(a *zerolog.Array) { a.Uint64(v) }
	case float64:
		return func(a *zerolog.Array) { a.Float64(v) }
	case float32:
		return func(a *zerolog.Array) { a.Float32(v) }
	case time.Time:
		return func(a *zerolog.Array) { a.Time(v) }
	case time.Duration:
		return func(a *zerolog.Array) { a.Dur(v) }
	case []byte:
		if p.M == "Hex" {
			return func(a *zerolog.Array) { a.Hex(v) }
		}
		return func(a *zerolog.Array) { a.Bytes(v) }
	}
	return nil
}

var plainErr = errors.New("boom \"quoted\"")

type gen struct {
	r   *Rng
	now time.Time
}

// genOps returns the ops (for the model) and their compiled form
func (g *gen) genOps(depth, n int) ([]progs.Op, []func(*zerolog.Event)) {
	var ops []progs.Op
	var fs []func(*zerolog.Event)
	k := 1 + g.r.Intn(n)
	if depth < 3 && g.r.Chance(15) {
		k = 0 // an empty Dict / object / Func body
	}
	for i := 0; i < k; i++ {
		c := g.r.Intn(20)
		if depth <= 0 && c >= 12 && c < 18 {
			c = 0
		}
		key := string(progs.GenKey(g.r))
		switch {
		case c < 12:
			m := fastMethods[g.r.Intn(len(fastMethods))]
			p := progs.GenPrim(g.r, m)
			ops = append(ops, progs.Op{K: "key", Key: []byte(key), P: &p})
			fs = append(fs, compileKey(key, p))
		case c < 14: // Dict
			sub, sfs := g.genOps(depth-1, 3)
			ops = append(ops, progs.Op{K: "dict", Key: []byte(key), Sub: sub})
			fs = append(fs, func(e *zerolog.Event) {
				d := zerolog.Dict()
				for _, f := range sfs {
					f(d)
				}
				e.Dict(key, d)
			})
		case c < 16: // Array
			var aops []progs.Op
			var afs []func(*zerolog.Array)
			for j := g.r.Intn(5) - 1; j >= 0; j-- { // may be empty: an Arr() with no element
				switch g.r.Intn(5) {
				case 0:
					sub, sfs := g.genOps(depth-1, 2)
					aops = append(aops, progs.Op{K: "adict", Sub: sub})
					afs = append(afs, func(a *zerolog.Array) {
						d := zerolog.Dict()
						for _, f := range sfs {
							f(d)
						}
						a.Dict(d)
					})
				case 1:
					sub, sfs := g.genOps(depth-1, 2)
					o := &objF{sfs}
					aops = append(aops, progs.Op{K: "aobj", Sub: sub})
					afs = append(afs, func(a *zerolog.Array) { a.Object(o) })
				default:
					ms := []string{"Str", "Bool", "Int", "Int64", "Uint8", "Uint64", "Float64", "Float32", "Time", "Dur", "Bytes", "Hex"}
					p := progs.GenPrim(g.r, ms[g.r.Intn(len(ms))])
					aops = append(aops, progs.Op{K: "aelem", P: &p})
					afs = append(afs, compileArrayElem(p))
				}
			}
			ops = append(ops, progs.Op{K: "array", Key: []byte(key), Sub: aops})
			fs = append(fs, func(e *zerolog.Event) {
				a := zerolog.Arr()
				for _, f := range afs {
					f(a)
				}
				e.Array(key, a)
			})
		case c < 17: // Object of a pointer marshaler
			sub, sfs := g.genOps(depth-1, 3)
			o := &objF{sfs}
			ops = append(ops, progs.Op{K: "object", Key: []byte(key), Sub: sub})
			fs = append(fs, func(e *zerolog.Event) { e.Object(key, o) })
		case c < 18: // Func
			sub, sfs := g.genOps(depth-1, 2)
			fn := func(e *zerolog.Event) {
				for _, f := range sfs {
					f(e)
				}
			}
			ops = append(ops, progs.Op{K: "func", Sub: sub})
			fs = append(fs, func(e *zerolog.Event) { e.Func(fn) })
		case c == 18: // Err / AnErr of a plain error
			if g.r.Bool() {
				ops = append(ops, progs.Op{K: "err", E: &progs.ErrV{K: "text", S: []byte(plainErr.Error())}})
				fs = append(fs, func(e *zerolog.Event) { e.Err(plainErr) })
			} else {
				ops = append(ops, progs.Op{K: "anerr", Key: []byte(key), E: &progs.ErrV{K: "text", S: []byte(plainErr.Error())}})
				fs = append(fs, func(e *zerolog.Event) { e.AnErr(key, plainErr) })
			}
		default: // Timestamp / TimeDiff
			if g.r.Bool() {
				ops = append(ops, progs.Op{K: "timestamp", When: g.now})
				fs = append(fs, func(e *zerolog.Event) { e.Timestamp() })
			} else {
				t1, t0 := g.now, g.now.Add(-time.Duration(g.r.Intn(100000)))
				d := time.Duration(0)
				if t1.After(t0) {
					d = t1.Sub(t0)
				}
				p := progs.Prim{M: "Dur", V: d}
				ops = append(ops, progs.Op{K: "key", Key: []byte(key), P: &p})
				fs = append(fs, func(e *zerolog.Event) { e.TimeDiff(key, t1, t0) })
			}
		}
	}
	return ops, fs
}

func run(c *Ctx) {
	variant := "json"
	if isBinary() {
		variant = "binary_log"
	}
	c.Res.Rule = "a case is a call chain over the allocation-free method set (regular typed fields and slices, Dict, Array incl. Array.Dict/Object, Object of a pointer marshaler, Func, Err/AnErr of a plain error, Timestamp, TimeDiff; nesting depth <= 3), compiled to closures; each is run on a logger without context, with context + timestamp hook, and level-filtered; measured with AllocsPerRun(100) and with pool-miss counters on freshly emptied pools; build: " + variant + "; non-trivial = touches a pool beyond its own event (Dict/Array/Object nesting); distinct by Gallina term; directed: 12 encoding settings x 8 slice lengths x 3 loggers; failing destinations; 18 chains whose arguments are built inside the measured function (slice literals for every slice method, slices of local arrays for Hex/Bytes/RawJSON, struct / int / array values boxed for Type, a closure for Func, the same inside Dict and Arr) x 4 loggers (plain, context+timestamp, Disabled, Info below WarnLevel) under AllocsPerRun(100); 9 histories (event / Arr / Dict / filtered Dict+Arr that outgrew 64 KiB, once or twice, grown to 5 KB / 60 KB, none) x re-warming with 3 or 60 short lines x 2 loggers, then a ladder of 10 larger lines that fit the pooled 500-byte buffer, each measured on its first occurrence (mallocs of one call); inputs that change from event to event: 13 TimestampFunc clocks (frozen, steps of 1 ms .. 25 h, backwards, two / four zones in turn, a cycle of 64 instants) x 7 TimeFieldFormats x 5 ways of reading the clock (With().Timestamp() hook, on a child, Event.Timestamp(), twice and inside a Dict, filtered), and 12 chains over the value-taking methods that take another value / key / message of a prebuilt table of 64 on every repetition x 3 loggers x 3 time formats, under AllocsPerRun(100); large arguments: every slice method x (100 .. 16000 one-digit values, 100 .. 1500 maximal-width values), Str / Bytes / Hex / RawJSON / Arr / Dict of 1 .. 30 KB, long contexts, x 3 loggers in steady state under AllocsPerRun(8): 0 demanded for lines of at most 32 KiB (half the pool's 64 KiB limit), larger ones recorded only; mixed-size histories: cycles of lines (a big line alone / followed by 1, 2, 5, 17, 64 short lines / by every short line; big = Str, Bytes, Hex, RawJSON, Ints, Strs, Msg, Func, a big field before / after / between small Dict()s, next to a small Arr(), a big Dict / Arr; ladders of all sizes in one cycle; two loggers with a long and a short context in turn) with big payloads of 1, 2, 4, 8, 16, 30 KB against short lines of 30 .. 450 bytes x 3 loggers, measured per cycle in steady state (the cycle ran 6 times before; mallocs of 10 further cycles, minimum of 3 measurements): 0 demanded when the largest line is at most 32 KiB; error values of 25 shapes built before the measurement (errors.New, pointer / value / int types, %w chains of depth 1, 2, 3, 12, two %w, %v, user types with Unwrap() error / Unwrap() []error, errors.Join, an Error() that formats on demand, a pointer LogObjectMarshaler error, chains that end in / pass through a marshaler, nil, typed nil) x 13 entry points (Err, AnErr, both, Logger.Err, inside Dict / Func / a marshaler, Array.Err, a context built with With().Err; Errs and Fields recorded only) x 4 loggers under AllocsPerRun(100): 0 demanded for values whose own Error() is measured at 0 allocations (plain), for marshaler errors, nil, and on every filtered logger; pasts (run first, on the library's own pools, explicit runtime.GC() only): 18 cumulative histories (k = 1 .. 100 rounds of 'log n events, GC, GC', a single GC after every event, bursts of G = 2 .. 200 goroutines each holding an event then GC GC, Dict()s nested 2 .. 40 deep, rounds of all shapes, oversize / abandoned events, filtered rounds), each followed by 6 warm-up cycles and AllocsPerRun(100) of 8 line shapes (plain, typed fields, context, Dict, Dict in Dict, Arr with Dict, Arr.Object, filtered): 0 demanded as on a fresh process"
	c.OpenShards("From Verif Require Import Base.Prelude Base.Decimal Enc.JsonEnc Misc.Level Api.Exec Heap.Pool Harness.C07H.", "c07_case * (Z * Z)", "mismatches c07_run c07_eqb", 400)
	debug.SetGCPercent(-1) // sync.Pool is cleared by GC: keep the pools' contents while counting
	defer debug.SetGCPercent(100)
	runtime.GOMAXPROCS(1)
	s := progs.DefaultSettings()
	restore := s.Apply()
	defer restore()
	n := 250
	if c.Thorough() {
		n = 3000
	}
	now := time.Unix(1700000000, 123456789).UTC()
	zerolog.TimestampFunc = func() time.Time { return now }
	zerolog.SetGlobalLevel(zerolog.Level(-128))
	defer zerolog.SetGlobalLevel(zerolog.DebugLevel)
	// directed, FIRST (on the library's own pools, before any VerifResetPools): pasts with collections and bursts (gchistory.go)
	gcHistories(c, variant)
	for i := 0; i < n; i++ {
		g := &gen{r: c.R.Fork(), now: now}
		ops, fs := g.genOps(3, 5)
		hasMsg := g.r.Bool()
		loggers := map[string]zerolog.Logger{
			"plain":    zerolog.New(io.Discard),
			"context":  zerolog.New(io.Discard).With().Str("svc", "x").Int("n", 1).Timestamp().Logger(),
			"filtered": zerolog.New(io.Discard).Level(zerolog.Disabled),
		}
		for _, name := range []string{"plain", "context", "filtered"} {
			l := loggers[name]
			chain := func() {
				e := l.Info()
				for _, f := range fs {
					f(e)
				}
				if hasMsg {
					e.Msg("message")
				} else {
					e.Send()
				}
			}
			desc := map[string]interface{}{"logger": name, "ops": progs.DescribeOps(ops), "build": variant}
			// (1) pool misses on fresh pools: first run = peak demand, later runs = 0
			zerolog.VerifResetPools()
			chain()
			e1, a1 := zerolog.VerifPoolNews()
			for k := 0; k < 5; k++ {
				chain()
			}
			e2, a2 := zerolog.VerifPoolNews()
			if e2 != e1 || a2 != a1 {
				c.Violate(Violation{Key: "pool-leak", Monitor: "pool-steady-state", Desc: fmt.Sprintf("%s logger: after warm-up each run still allocates pooled objects: events +%d arrays +%d over 5 runs", name, e2-e1, a2-a1), Case: desc, Observed: []int64{e2 - e1, a2 - a1}, Expected: []int64{0, 0}})
			}
			// (2) allocations per run, warm
			allocs := testing.AllocsPerRun(100, chain)
			if allocs != 0 {
				c.Violate(Violation{Key: "fast-path-allocates", Monitor: "allocs-per-run", Desc: fmt.Sprintf("%s logger (%s build): %.1f allocs/op on a chain over the allocation-free method set", name, variant, allocs), Case: desc, Observed: allocs, Expected: 0})
			}
			// model: the demand of the chain's pool trace
			var hooks string
			switch name {
			case "context":
				hooks = "[[" + (&progs.Op{K: "timestamp", When: now}).Coq(s) + "]]"
			default:
				hooks = "[]"
			}
			term := fmt.Sprintf("((%s, %s, %s), (%s, %s))", CoqBool(name != "filtered"), progs.OpsCoq(ops, s), hooks, ZS(e1), ZS(a1))
			c.AddCase(term, desc)
			c.Count(term, e1+a1 > 1)
			c.Hist("logger", name)
			c.Hist("first_run_event_allocs", fmt.Sprint(e1))
			c.Sample(map[string]interface{}{"logger": name, "ops": progs.DescribeOps(ops), "first_run_pool_allocs": []int64{e1, a1}, "allocs_per_run": allocs})
		}
	}
	// directed: the global encoding settings x slice lengths ("all argument values": a slice method must not
	// start allocating at some length or under some time / duration / float format)
	{
		lens := []int{0, 1, 3, 4, 5, 8, 9, 17}
		type cfg struct {
			tf   string
			dInt bool
			unit time.Duration
			prec int
		}
		var cfgs []cfg
		for _, tf := range []string{time.RFC3339, time.RFC3339Nano, zerolog.TimeFormatUnix, zerolog.TimeFormatUnixMs, zerolog.TimeFormatUnixMicro, zerolog.TimeFormatUnixNano} {
			cfgs = append(cfgs, cfg{tf, false, time.Millisecond, -1}, cfg{tf, true, time.Second, 3})
		}
		runs := 0
		for _, cf := range cfgs {
			zerolog.TimeFieldFormat, zerolog.DurationFieldInteger, zerolog.DurationFieldUnit, zerolog.FloatingPointPrecision = cf.tf, cf.dInt, cf.unit, cf.prec
			for _, n := range lens {
				ts := make([]time.Time, n)
				ds := make([]time.Duration, n)
				fl := make([]float64, n)
				is := make([]int64, n)
				ss := make([]string, n)
				for i := 0; i < n; i++ {
					ts[i] = now.Add(time.Duration(i) * 1234567891)
					ds[i] = time.Duration(i+1) * 1234567
					fl[i] = float64(i) * 1.25e-7
					is[i] = int64(i) << 40
					ss[i] = "s"
				}
				for _, name := range []string{"plain", "context", "filtered"} {
					var l zerolog.Logger
					switch name {
					case "plain":
						l = zerolog.New(io.Discard)
					case "context":
						l = zerolog.New(io.Discard).With().Times("ct", ts).Durs("cd", ds).Timestamp().Logger()
					default:
						l = zerolog.New(io.Discard).Level(zerolog.Disabled)
					}
					chain := func() {
						l.Info().Time("t", now).Times("ts", ts).Dur("d", 1500*time.Microsecond).Durs("ds", ds).TimeDiff("td", now, now.Add(-time.Second)).
							Floats64("fl", fl).Ints64("is", is).Strs("ss", ss).Timestamp().Msg("m")
					}
					chain()
					runs++
					if a := testing.AllocsPerRun(50, chain); a != 0 {
						c.Violate(Violation{Key: "fast-path-allocates", Monitor: "allocs-per-run-settings", Desc: fmt.Sprintf("%s logger (%s build): %.1f allocs/op for Time/Times/Dur/Durs/TimeDiff/Floats64/Ints64/Strs/Timestamp with slices of %d elements under TimeFieldFormat=%q DurationFieldInteger=%v DurationFieldUnit=%v FloatingPointPrecision=%d", name, variant, a, n, cf.tf, cf.dInt, cf.unit, cf.prec),
							Case: map[string]interface{}{"logger": name, "slice_len": n, "TimeFieldFormat": cf.tf, "DurationFieldInteger": cf.dInt, "DurationFieldUnit": cf.unit.String(), "FloatingPointPrecision": cf.prec, "build": variant}, Observed: a, Expected: 0})
					}
				}
			}
		}
		restore()
		restore = s.Apply()
		zerolog.TimestampFunc = func() time.Time { return now }
		c.Res.ExtraCoverage["settings_x_lengths_chains"] = runs
	}
	// directed: a destination that fails: the event is returned to its pool all the same (no allocation on the
	// following events; the error goes to a handler that does nothing)
	{
		oldH := zerolog.ErrorHandler
		zerolog.ErrorHandler = func(error) {}
		for _, every := range []int{1, 2, 3} {
			fw := &failEvery{every: every}
			l := zerolog.New(fw)
			chain := func() { l.Info().Str("k", "v").Int("n", 1).Msg("m") }
			for i := 0; i < 10; i++ {
				chain()
			}
			zerolog.VerifResetPools()
			chain()
			e1, a1 := zerolog.VerifPoolNews()
			for k := 0; k < 12; k++ {
				chain()
			}
			e2, a2 := zerolog.VerifPoolNews()
			if e2 != e1 || a2 != a1 {
				c.Violate(Violation{Key: "pool-leak", Monitor: "pool-steady-state-failing-writer", Desc: fmt.Sprintf("destination failing every %d. write: each run still allocates pooled objects: events +%d arrays +%d over 12 runs (the event is not returned to the pool when the write fails)", every, e2-e1, a2-a1),
					Case: map[string]interface{}{"writer_fails_every": every, "build": variant}, Observed: []int64{e2 - e1, a2 - a1}, Expected: []int64{0, 0}})
			}
			if a := testing.AllocsPerRun(60, chain); a != 0 {
				c.Violate(Violation{Key: "fast-path-allocates", Monitor: "allocs-per-run-failing-writer", Desc: fmt.Sprintf("destination failing every %d. write (ErrorHandler set to a no-op): %.1f allocs/op", every, a),
					Case: map[string]interface{}{"writer_fails_every": every, "build": variant}, Observed: a, Expected: 0})
			}
		}
		zerolog.ErrorHandler = oldH
	}
	// directed: arguments built at the call site; histories that change the pooled buffers (directed.go)
	stackResidentArguments(c, variant)
	warmAfterHistory(c, variant)
	changingInputs(c, variant)
	errorShapes(c, variant)
	largeArguments(c, variant)
	mixedSizeHistories(c, variant)
	// corpus: the two fixed leaks (F10, F12)
	dis := zerolog.New(io.Discard).Level(zerolog.Disabled)
	en := zerolog.New(io.Discard)
	corpus := map[string]func(){
		"filtered Dict (F10)":  func() { dis.Info().Dict("d", zerolog.Dict().Str("k", "v")).Msg("m") },
		"filtered Array (F10)": func() { dis.Info().Array("a", zerolog.Arr().Str("x")).Msg("m") },
		"Array.Dict (F12)":     func() { en.Info().Array("a", zerolog.Arr().Dict(zerolog.Dict().Str("k", "v"))).Msg("m") },
	}
	for name, f := range corpus {
		if a := testing.AllocsPerRun(100, f); a != 0 {
			c.Violate(Violation{Key: "fast-path-allocates", Monitor: "allocs-per-run-corpus", Desc: fmt.Sprintf("%s: %.1f allocs/op", name, a), Case: name, Observed: a, Expected: 0})
		}
		c.Count("corpus "+name, true)
	}
}

type failEvery struct{ every, n int }

var errFailEvery = fmt.Errorf("verif: destination failed")

func (w *failEvery) Write(p []byte) (int, error) {
	w.n++
	if w.n%w.every == 0 {
		return 0, errFailEvery
	}
	return len(p), nil
}
