package main

// Directed inputs for C07: histories of lines of DIFFERENT sizes.
//
// "Once warm ... any length whose encoded size stays within the pooled buffer": every other stream of this driver
// repeats ONE line shape under AllocsPerRun, so the pooled buffers only ever see one size, and warmAfterHistory
// only looks at lines of at most 500 bytes after a history.  A workload is not uniform: a service writes short
// lines and now and then a long one (a request body, an SQL statement), and one statement may hold a long field
// next to a small Dict()/Arr() - the Dict event and the top-level event come from the same pool and swap roles
// from one statement to the next.  A pool policy that makes a buffer lose capacity between two uses (shrinking a
// grown buffer when the line just produced was short, when it was idle, on every n-th Put, on Get ...) costs
// nothing on uniform workloads and allocates on every round of a mixed one, for ever: there is no warm state.
//
// Here a CYCLE of lines (big, small), (big, small x k), (big with a small Dict / Arr), (big Dict, small Dict),
// (big Arr, small Arr), a descending ladder, alternating loggers with a long and a short context ... is measured
// in steady state: the same cycle has run warmCycles times before, then the mallocs of measuredCycles further
// cycles are counted (runtime.MemStats, GC off, GOMAXPROCS(1)); the minimum over 3 such measurements must be 0.
// Big lines take every size of a ladder from 1 KiB to ~30 KiB against small lines of 40..450 bytes.
//
// What is demanded: as in large.go, only cycles whose largest line is at most largeLineBound = 32 KiB encoded
// (half the pool's 64 KiB limit; a buffer grown by append to hold it is one the pool keeps); larger ones are
// recorded only.  A level-filtered logger must not allocate whatever the cycle.

import (
	"fmt"
	"io"
	"strings"

	"github.com/rs/zerolog"
	. "verifharness/hlib"
)

type mixLine struct {
	src string
	f   func(l *zerolog.Logger)
}

type mixCycle struct {
	name  string
	lines []mixLine
}

const (
	mixWarmCycles     = 6
	mixMeasuredCycles = 10
)

type mixObj struct {
	id   int
	name string
}

func (o *mixObj) MarshalZerologObject(e *zerolog.Event) { e.Int("id", o.id).Str("name", o.name) }

func mixSmallLines() []mixLine {
	s400 := strings.Repeat("q", 400)
	obj := &mixObj{7, "obj"}
	return []mixLine{
		{`l.Info().Str("path", "/healthz").Int("n", 2).Msg("short")`, func(l *zerolog.Logger) { l.Info().Str("path", "/healthz").Int("n", 2).Msg("short") }},
		{`l.Info().Msg("")`, func(l *zerolog.Logger) { l.Info().Msg("") }},
		{`l.Warn().Str("k", "v").Bool("b", true).Float64("f", 1.25).Dur("d", 1500us).Time("t", T).Ints("p", []int{80, 443}).Msg("a line of about 150 bytes")`, func(l *zerolog.Logger) {
			l.Warn().Str("k", "v").Bool("b", vBool).Float64("f", vFloat).Dur("d", vDur).Time("t", vTime).Ints("p", mixPorts).Msg("a line of about 150 bytes")
		}},
		{`l.Info().Dict("peer", Dict().Str("ip", "10.0.0.1").Int("port", 443)).Msg("small dict")`, func(l *zerolog.Logger) {
			l.Info().Dict("peer", zerolog.Dict().Str("ip", "10.0.0.1").Int("port", 443)).Msg("small dict")
		}},
		{`l.Info().Array("a", Arr().Int(1).Str("x")).Msg("small arr")`, func(l *zerolog.Logger) { l.Info().Array("a", zerolog.Arr().Int(1).Str("x")).Msg("small arr") }},
		{`l.Info().Str("p", 400 bytes).Msg("fills the 500-byte buffer")`, func(l *zerolog.Logger) { l.Info().Str("p", s400).Msg("fills the 500-byte buffer") }},
		{`l.Error().Err(plainErr).Object("o", &obj).Send()`, func(l *zerolog.Logger) { l.Error().Err(plainErr).Object("o", obj).Send() }},
	}
}

var mixPorts = []int{80, 443}

// the big lines of one size: n payload bytes (or the number of elements that renders to about n bytes)
type mixBig struct {
	name string
	line mixLine
}

func mixBigLines(n int) []mixBig {
	payload := strings.Repeat("0123456789abcdef", (n+15)/16)[:n]
	pbytes := []byte(payload)
	raw := []byte(`"` + payload + `"`)
	hexb := []byte(strings.Repeat("\xa7", n/2))
	ints := make([]int, n/2)
	for i := range ints {
		ints[i] = i % 10
	}
	strs := make([]string, n/8)
	for i := range strs {
		strs[i] = "abcde"
	}
	k4, k8 := n/4, n/12
	bodyFn := func(e *zerolog.Event) { e.Str("body", payload) }
	return []mixBig{
		{"big-Str", mixLine{fmt.Sprintf(`l.Info().Str("body", %d bytes).Int("n", 1).Msg("request")`, n), func(l *zerolog.Logger) { l.Info().Str("body", payload).Int("n", 1).Msg("request") }}},
		{"big-Bytes", mixLine{fmt.Sprintf(`l.Info().Bytes("body", %d bytes).Msg("request")`, n), func(l *zerolog.Logger) { l.Info().Bytes("body", pbytes).Msg("request") }}},
		{"big-Hex", mixLine{fmt.Sprintf(`l.Info().Hex("body", %d bytes).Msg("request")`, n/2), func(l *zerolog.Logger) { l.Info().Hex("body", hexb).Msg("request") }}},
		{"big-RawJSON", mixLine{fmt.Sprintf(`l.Info().RawJSON("body", a JSON string of %d bytes).Msg("request")`, n+2), func(l *zerolog.Logger) { l.Info().RawJSON("body", raw).Msg("request") }}},
		{"big-Ints", mixLine{fmt.Sprintf(`l.Info().Ints("v", %d one-digit values).Msg("request")`, n/2), func(l *zerolog.Logger) { l.Info().Ints("v", ints).Msg("request") }}},
		{"big-Strs", mixLine{fmt.Sprintf(`l.Info().Strs("v", %d x "abcde").Msg("request")`, n/8), func(l *zerolog.Logger) { l.Info().Strs("v", strs).Msg("request") }}},
		{"big-Msg", mixLine{fmt.Sprintf(`l.Info().Int("n", 1).Msg(%d bytes)`, n), func(l *zerolog.Logger) { l.Info().Int("n", 1).Msg(payload) }}},
		{"small-Dict-then-big-Str", mixLine{fmt.Sprintf(`l.Info().Dict("peer", Dict().Str("ip", "10.0.0.1").Int("port", 443)).Str("body", %d bytes).Msg("request")`, n), func(l *zerolog.Logger) {
			l.Info().Dict("peer", zerolog.Dict().Str("ip", "10.0.0.1").Int("port", 443)).Str("body", payload).Msg("request")
		}}},
		{"big-Str-then-small-Dict", mixLine{fmt.Sprintf(`l.Info().Str("body", %d bytes).Dict("peer", Dict().Str("ip", "10.0.0.1")).Msg("request")`, n), func(l *zerolog.Logger) {
			l.Info().Str("body", payload).Dict("peer", zerolog.Dict().Str("ip", "10.0.0.1")).Msg("request")
		}}},
		{"big-Str-two-small-Dicts", mixLine{fmt.Sprintf(`l.Info().Dict("a", Dict().Int("n", 1)).Str("body", %d bytes).Dict("b", Dict().Dict("c", Dict().Bool("x", true))).Msg("request")`, n), func(l *zerolog.Logger) {
			l.Info().Dict("a", zerolog.Dict().Int("n", 1)).Str("body", payload).Dict("b", zerolog.Dict().Dict("c", zerolog.Dict().Bool("x", true))).Msg("request")
		}}},
		{"small-Arr-then-big-Str", mixLine{fmt.Sprintf(`l.Info().Array("a", Arr().Int(1).Str("x")).Str("body", %d bytes).Msg("request")`, n), func(l *zerolog.Logger) {
			l.Info().Array("a", zerolog.Arr().Int(1).Str("x")).Str("body", payload).Msg("request")
		}}},
		{"big-Str-with-Arr-of-small-Dict", mixLine{fmt.Sprintf(`l.Info().Str("body", %d bytes).Array("a", Arr().Dict(Dict().Int("n", 1)).Int(2)).Msg("request")`, n), func(l *zerolog.Logger) {
			l.Info().Str("body", payload).Array("a", zerolog.Arr().Dict(zerolog.Dict().Int("n", 1)).Int(2)).Msg("request")
		}}},
		{"big-Dict", mixLine{fmt.Sprintf(`l.Info().Dict("d", Dict().Str("p", %d bytes)).Msg("request")`, n), func(l *zerolog.Logger) { l.Info().Dict("d", zerolog.Dict().Str("p", payload)).Msg("request") }}},
		{"big-Dict-of-many-fields", mixLine{fmt.Sprintf(`d := Dict(); %d x d.Int("key", i %% 10); l.Info().Dict("d", d).Msg("request")`, k8), func(l *zerolog.Logger) {
			d := zerolog.Dict()
			for i := 0; i < k8; i++ {
				d.Int("key", i%10)
			}
			l.Info().Dict("d", d).Msg("request")
		}}},
		{"big-Arr", mixLine{fmt.Sprintf(`a := Arr(); %d x a.Int(i %% 10); l.Info().Array("a", a).Msg("request")`, k4), func(l *zerolog.Logger) {
			a := zerolog.Arr()
			for i := 0; i < k4; i++ {
				a.Int(i % 10)
			}
			l.Info().Array("a", a).Msg("request")
		}}},
		{"big-Arr-of-Str", mixLine{fmt.Sprintf(`l.Info().Array("a", Arr().Str(%d bytes).Int(1)).Msg("request")`, n), func(l *zerolog.Logger) { l.Info().Array("a", zerolog.Arr().Str(payload).Int(1)).Msg("request") }}},
		{"big-Func", mixLine{fmt.Sprintf(`fn := func(e *Event) { e.Str("body", %d bytes) }; l.Info().Func(fn).Msg("request")`, n), func(l *zerolog.Logger) { l.Info().Func(bodyFn).Msg("request") }}},
	}
}

func mixedSizeHistories(c *Ctx, variant string) {
	if base := mallocsOf(func() {}); base != 0 {
		c.Note("mixedSizeHistories skipped: the malloc counter moves by %d around an empty function", base)
		return
	}
	w := &lenW{}
	sizer := zerolog.New(w)
	plain := zerolog.New(io.Discard)
	withCtx := zerolog.New(io.Discard).With().Str("svc", "x").Int("n", 1).Timestamp().Logger()
	filtered := zerolog.New(io.Discard).Level(zerolog.Disabled)
	loggers := []struct {
		name   string
		l, szr *zerolog.Logger
	}{{"plain", &plain, &sizer}, {"context", &withCtx, &sizer}, {"filtered (Disabled)", &filtered, &sizer}}
	smalls := mixSmallLines()
	runs, beyond, beyondFree, maxDemanded := 0, 0, 0, 0

	// one cycle on one logger (lines[i] is emitted on ls[i%len(ls)])
	measure := func(stream, cname, lname string, lines []mixLine, ls []*zerolog.Logger, szs []*zerolog.Logger, filteredLogger bool, extra map[string]interface{}) {
		largest, smallest := 0, 1<<30
		for i, ln := range lines {
			w.last = 0
			ln.f(szs[i%len(szs)])
			if w.last > largest {
				largest = w.last
			}
			if w.last < smallest {
				smallest = w.last
			}
		}
		cycle := func() {
			for i := range lines {
				lines[i].f(ls[i%len(ls)])
			}
		}
		zerolog.VerifResetPools()
		for k := 0; k < mixWarmCycles; k++ {
			cycle()
		}
		min := ^uint64(0)
		for rep := 0; rep < 3 && min != 0; rep++ {
			n := mallocsOf(func() {
				for k := 0; k < mixMeasuredCycles; k++ {
					cycle()
				}
			})
			if n < min {
				min = n
			}
		}
		runs++
		c.Hist("mixed_cycle_largest_line", sizeBucket(largest))
		if !filteredLogger && largest > largeLineBound {
			beyond++
			if min == 0 {
				beyondFree++
			}
			return
		}
		if !filteredLogger && largest > maxDemanded {
			maxDemanded = largest
		}
		if min != 0 {
			var srcs []string
			for _, ln := range lines {
				srcs = append(srcs, ln.src)
			}
			desc := map[string]interface{}{"logger": lname, "build": variant, "cycle": srcs, "cycle_name": cname, "stream": stream,
				"largest_line_of_the_cycle_encoded_bytes": largest, "smallest_line_of_the_cycle_encoded_bytes": smallest,
				"measured": fmt.Sprintf("pools emptied; the whole cycle run %d times (steady state: every line of it occurred before, in this order); then the mallocs of %d further cycles (runtime.MemStats, GC off, GOMAXPROCS(1)); minimum over 3 such measurements; all arguments built before", mixWarmCycles, mixMeasuredCycles)}
			for k, v := range extra {
				desc[k] = v
			}
			c.Violate(Violation{Key: "fast-path-allocates", Monitor: "allocs-per-cycle-mixed-sizes", Desc: fmt.Sprintf("%s logger (%s build): %.1f allocs per cycle in steady state for a cycle of %d lines of mixed sizes (%s: largest line %d encoded bytes - within the buffers the pool keeps -, smallest %d): a pooled buffer loses capacity between two uses", lname, variant, float64(min)/mixMeasuredCycles, len(lines), cname, largest, smallest),
				Case: desc, Observed: float64(min) / mixMeasuredCycles, Expected: 0})
		}
		c.Count(fmt.Sprintf("mixed %s %s %s", stream, cname, lname), true)
	}

	rep := func(ln mixLine, k int) []mixLine {
		out := make([]mixLine, k)
		for i := range out {
			out[i] = ln
		}
		return out
	}
	sizes := []int{1 << 10, 2 << 10, 4 << 10, 8 << 10, 16 << 10, 30000}
	for si, n := range sizes {
		bigs := mixBigLines(n)
		byName := map[string]mixLine{}
		for _, b := range bigs {
			byName[b.name] = b.line
		}
		var cycles []mixCycle
		for bi, b := range bigs {
			s1 := smalls[(bi+si)%len(smalls)]
			s2 := smalls[(bi+si+3)%len(smalls)]
			// one statement repeated (a Dict()/Arr() next to the long field swaps roles with the top-level event)
			cycles = append(cycles, mixCycle{b.name + " alone", []mixLine{b.line}})
			cycles = append(cycles, mixCycle{"(" + b.name + ", small)", []mixLine{b.line, s1}})
			cycles = append(cycles, mixCycle{"(" + b.name + ", small, small')", []mixLine{b.line, s1, s2}})
		}
		// many short lines between two long ones (an idle / use-count based policy)
		for _, k := range []int{5, 17, 64} {
			cycles = append(cycles, mixCycle{fmt.Sprintf("(big-Str, %d x small)", k), append([]mixLine{byName["big-Str"]}, rep(smalls[0], k)...)})
			cycles = append(cycles, mixCycle{fmt.Sprintf("(small-Dict-then-big-Str, %d x small dict)", k), append([]mixLine{byName["small-Dict-then-big-Str"]}, rep(smalls[3], k)...)})
			cycles = append(cycles, mixCycle{fmt.Sprintf("(big-Arr, %d x small arr)", k), append([]mixLine{byName["big-Arr"]}, rep(smalls[4], k)...)})
		}
		// every small line in turn after a long one; two long ones of different kinds
		cycles = append(cycles, mixCycle{"(big-Str, every small line)", append([]mixLine{byName["big-Str"]}, smalls...)})
		cycles = append(cycles, mixCycle{"(big-Dict, every small line, big-Arr, every small line)", append(append(append([]mixLine{byName["big-Dict"]}, smalls...), byName["big-Arr"]), smalls...)})
		cycles = append(cycles, mixCycle{"(big-Dict, small dict, big-Arr, small arr, big-Str, small)", []mixLine{byName["big-Dict"], smalls[3], byName["big-Arr"], smalls[4], byName["big-Str"], smalls[0]}})
		for _, cy := range cycles {
			for _, lg := range loggers {
				measure(fmt.Sprintf("size-%d", n), cy.name, lg.name, cy.lines, []*zerolog.Logger{lg.l}, []*zerolog.Logger{lg.szr}, lg.name != "plain" && lg.name != "context", map[string]interface{}{"big_payload_bytes": n})
			}
		}
	}
	// a descending / ascending ladder of sizes in one cycle (every buffer sees every size)
	{
		var down []mixLine
		for i := len(sizes) - 1; i >= 0; i-- {
			down = append(down, mixBigLines(sizes[i])[0].line)
		}
		down = append(down, smalls[0])
		var dictLadder []mixLine
		for i := len(sizes) - 1; i >= 0; i-- {
			for _, b := range mixBigLines(sizes[i]) {
				if b.name == "big-Dict" || b.name == "big-Arr" || b.name == "small-Dict-then-big-Str" {
					dictLadder = append(dictLadder, b.line)
				}
			}
		}
		dictLadder = append(dictLadder, smalls[3], smalls[4])
		for _, cy := range []mixCycle{{"Str ladder 30000 .. 1024, small", down}, {"Dict / Arr / Dict+Str ladder 30000 .. 1024, small dict, small arr", dictLadder}} {
			for _, lg := range loggers {
				measure("ladder", cy.name, lg.name, cy.lines, []*zerolog.Logger{lg.l}, []*zerolog.Logger{lg.szr}, lg.name != "plain" && lg.name != "context", nil)
			}
		}
	}
	// two loggers taking turns: one with a long context (copied into every event of it), one with a short one
	for _, n := range []int{2 << 10, 8 << 10, 24 << 10} {
		ctxPayload := strings.Repeat("c", n)
		bigCtx := zerolog.New(io.Discard).With().Str("tenant_blob", ctxPayload).Logger()
		bigCtxSz := zerolog.New(w).With().Str("tenant_blob", ctxPayload).Logger()
		for _, k := range []int{1, 2, 9} {
			lines := append([]mixLine{smalls[0]}, rep(smalls[3], k)...)
			ls := []*zerolog.Logger{&bigCtx}
			szs := []*zerolog.Logger{&bigCtxSz}
			for i := 0; i < k; i++ {
				ls = append(ls, &plain)
				szs = append(szs, &sizer)
			}
			measure("alternating-loggers", fmt.Sprintf("(short line on a logger with a %d-byte context, %d x small dict on a logger without context)", n, k), "long-context / plain in turn", lines, ls, szs, false,
				map[string]interface{}{"loggers": fmt.Sprintf(`line 1: New(w).With().Str("tenant_blob", %d bytes).Logger(); the other lines: New(w)`, n)})
		}
	}
	zerolog.VerifResetPools()
	c.Res.ExtraCoverage["mixed_size_cycles"] = runs
	c.Res.ExtraCoverage["mixed_size_largest_demanded_line"] = maxDemanded
	c.Res.ExtraCoverage["mixed_size_cycles_beyond_32KiB_recorded_only"] = fmt.Sprintf("%d measured, %d of them allocation-free", beyond, beyondFree)
}
