package main

// Directed inputs for C07: "once warm" in a process that has a PAST - pool disturbance histories.
//
// Every other stream of this driver runs with the garbage collector off (so that the pools keep their contents
// while allocations are counted) and most of them on pools that the shim has just replaced by empty ones.  A real
// process is collected all the time: each pair of collections empties a sync.Pool without telling anybody, bursts
// of goroutines (or deeply nested Dict()s) put many events in flight at once and leave them all idle in the pool,
// then the next collections take them away.  Book-keeping that the library keeps NEXT to its pools (a count of idle
// events with a cap, a free list, a generation, a high-water mark, "shrink after n idle rounds") sees the Get and
// Put calls but not the collections, so it drifts with the process's age: a fresh or freshly warmed process shows 0
// allocations, a process that has been up for a while allocates on every event, for ever.  "Once warm" is a state
// that must be REACHABLE AGAIN after any such past: here a history is run, then the shapes are warmed again
// (gcWarmCycles cycles of all shapes) and each shape is measured with AllocsPerRun(100): 0 demanded, exactly as on
// a fresh process (the first history is "none").
//
// This stream runs FIRST, on the library's own pools (before the first VerifResetPools of the other streams
// replaces them - and their New functions - by counting ones), with explicit runtime.GC() calls (the driver has
// switched the automatic collector off, so the measurement itself is never collected).  Histories accumulate in
// one process (that is the point: a past); each violation lists the histories that ran before.
//
// Histories: k rounds of "log n events, GC, GC" (k = 1 .. 100; n = 1, 3, all shapes), a single GC after every
// event (the victim cache alternates), k rounds of a burst of G goroutines that all hold an event at the same time
// (G = 2 .. 200) followed by GC GC, Dict()s nested d deep (d events in flight in one statement; d = 2 .. 40) with
// collections in between, rounds of Dict / Arr / Object events, rounds with an event that outgrew the pool's 64 KiB
// limit (dropped by putEvent) or was abandoned (an event that is never sent), and rounds on a level-filtered logger.

import (
	"fmt"
	"io"
	"runtime"
	"strings"
	"sync"
	"testing"
	"time"

	"github.com/rs/zerolog"
	. "verifharness/hlib"
)

const gcWarmCycles = 6

type gcShape struct {
	name, src string
	f         func()
}

type gcHistory struct {
	name, src string
	f         func()
}

func gcTwice() { runtime.GC(); runtime.GC() }

func gcHistories(c *Ctx, variant string) {
	plain := zerolog.New(io.Discard)
	withCtx := zerolog.New(io.Discard).With().Str("svc", "demo").Timestamp().Logger()
	filtered := zerolog.New(io.Discard).Level(zerolog.WarnLevel)
	ints := []int{1, 2, 3}
	blob := []byte("payload")
	when := time.Date(2024, 5, 17, 10, 11, 12, 0, time.UTC)
	obj := &mixObj{42, "root"}
	big70k := strings.Repeat("h", 70000)
	shapes := []gcShape{
		{"plain-line", `plain.Info().Msg("hello")`, func() { plain.Info().Msg("hello") }},
		{"typed-fields", `plain.Info().Str("s", "v").Int("i", 7).Bool("b", true).Float64("f", 1.5).Ints("is", ints).Bytes("raw", blob).Time("t", when).Dur("d", time.Second).Object("u", obj).Msg("fields")`, func() {
			plain.Info().Str("s", "v").Int("i", 7).Bool("b", true).Float64("f", 1.5).Ints("is", ints).Bytes("raw", blob).Time("t", when).Dur("d", time.Second).Object("u", obj).Msg("fields")
		}},
		{"context-line", `withCtx.Info().Str("k", "v").Msg("m")   (withCtx = New(w).With().Str("svc", "demo").Timestamp().Logger())`, func() { withCtx.Info().Str("k", "v").Msg("m") }},
		{"dict", `withCtx.Warn().Dict("d", Dict().Str("k", "v").Int("n", 1)).Send()`, func() { withCtx.Warn().Dict("d", zerolog.Dict().Str("k", "v").Int("n", 1)).Send() }},
		{"dict-in-dict", `plain.Info().Dict("a", Dict().Dict("b", Dict().Int("n", 1))).Msg("m")`, func() {
			plain.Info().Dict("a", zerolog.Dict().Dict("b", zerolog.Dict().Int("n", 1))).Msg("m")
		}},
		{"arr", `plain.Info().Array("a", Arr().Int(1).Str("x").Dict(Dict().Int("n", 1))).Msg("m")`, func() {
			plain.Info().Array("a", zerolog.Arr().Int(1).Str("x").Dict(zerolog.Dict().Int("n", 1))).Msg("m")
		}},
		{"arr-object", `plain.Info().Array("a", Arr().Object(obj)).Err(plainErr).Msg("m")`, func() { plain.Info().Array("a", zerolog.Arr().Object(obj)).Err(plainErr).Msg("m") }},
		{"filtered", `filtered.Info().Dict("d", Dict().Str("k", "v")).Array("a", Arr().Int(1)).Msg("m")   (filtered = Level(WarnLevel))`, func() {
			filtered.Info().Dict("d", zerolog.Dict().Str("k", "v")).Array("a", zerolog.Arr().Int(1)).Msg("m")
		}},
	}
	all := func() {
		for i := range shapes {
			shapes[i].f()
		}
	}
	rounds := func(k, n int) gcHistory {
		return gcHistory{fmt.Sprintf("rounds k=%d n=%d", k, n), fmt.Sprintf(`%d x { %d x plain.Info().Msg("hello"); runtime.GC(); runtime.GC() }`, k, n), func() {
			for i := 0; i < k; i++ {
				for j := 0; j < n; j++ {
					shapes[0].f()
				}
				gcTwice()
			}
		}}
	}
	roundsAll := func(k int) gcHistory {
		return gcHistory{fmt.Sprintf("rounds-all-shapes k=%d", k), fmt.Sprintf(`%d x { every measured shape once (plain, typed fields, context, Dict, Dict in Dict, Arr, Arr.Object, filtered); runtime.GC(); runtime.GC() }`, k), func() {
			for i := 0; i < k; i++ {
				all()
				gcTwice()
			}
		}}
	}
	burst := func(k, g int) gcHistory {
		return gcHistory{fmt.Sprintf("burst k=%d G=%d", k, g), fmt.Sprintf(`%d x { %d goroutines: e := plain.Info().Str("k", "v"); <all wait until every goroutine holds its event>; e.Msg("m") ; then runtime.GC(); runtime.GC() }`, k, g), func() {
			for i := 0; i < k; i++ {
				var have, done sync.WaitGroup
				release := make(chan struct{})
				have.Add(g)
				done.Add(g)
				for j := 0; j < g; j++ {
					go func() {
						defer done.Done()
						e := plain.Info().Str("k", "v")
						have.Done()
						<-release
						e.Msg("m")
					}()
				}
				have.Wait()
				close(release)
				done.Wait()
				gcTwice()
			}
		}}
	}
	nested := func(k, d int) gcHistory {
		return gcHistory{fmt.Sprintf("nested-dict k=%d depth=%d", k, d), fmt.Sprintf(`%d x { a line with Dict()s nested %d deep (the receiver Dict() of each level is taken before the inner one: %d events in flight); runtime.GC(); runtime.GC() }`, k, d, d+1), func() {
			var build func(e *zerolog.Event, d int) *zerolog.Event
			build = func(e *zerolog.Event, d int) *zerolog.Event {
				if d == 0 {
					return e.Int("n", 1)
				}
				return e.Dict("d", build(zerolog.Dict(), d-1))
			}
			for i := 0; i < k; i++ {
				build(plain.Info(), d).Msg("m")
				gcTwice()
			}
		}}
	}
	histories := []gcHistory{
		{"none", "(nothing: a fresh process)", func() {}},
		rounds(1, 1),
		rounds(5, 3),
		{"single-gc-after-every-event k=12", `12 x { plain.Info().Msg("hello"); runtime.GC() }   (one collection: the pool's victim cache alternates)`, func() {
			for i := 0; i < 12; i++ {
				shapes[0].f()
				runtime.GC()
			}
		}},
		burst(1, 2),
		burst(1, 8),
		nested(2, 2),
		roundsAll(4),
		{"oversize-and-abandoned k=6", `6 x { plain.Info().Str("p", 70000 bytes).Msg("big") (dropped by putEvent); _ = plain.Info().Str("never", "sent") (abandoned); plain.Info().Msg("hello"); runtime.GC(); runtime.GC() }`, func() {
			for i := 0; i < 6; i++ {
				plain.Info().Str("p", big70k).Msg("big")
				_ = plain.Info().Str("never", "sent")
				shapes[0].f()
				gcTwice()
			}
		}},
		{"filtered-rounds k=10", `10 x { filtered.Info().Dict(..).Array(..).Msg("m"); runtime.GC(); runtime.GC() }`, func() {
			for i := 0; i < 10; i++ {
				shapes[len(shapes)-1].f()
				gcTwice()
			}
		}},
		nested(3, 8),
		burst(3, 33),
		rounds(40, 1),
		nested(2, 40),
		burst(2, 200),
		roundsAll(30),
		rounds(100, 2),
		burst(40, 3),
	}
	runs := 0
	var before []string
	for _, h := range histories {
		h.f()
		for k := 0; k < gcWarmCycles; k++ {
			all()
		}
		bad := map[string]float64{}
		var firstBad *gcShape
		for i := range shapes {
			sh := &shapes[i]
			a := testing.AllocsPerRun(100, sh.f)
			runs++
			if a != 0 {
				bad[sh.name] = a
				if firstBad == nil {
					firstBad = sh
				}
			}
			c.Count("gc-history "+h.name+" "+sh.name, h.name != "none")
		}
		if firstBad != nil {
			zero := map[string]float64{}
			for k := range bad {
				zero[k] = 0
			}
			c.Violate(Violation{Key: "fast-path-allocates", Monitor: "warm-after-gc-history", Desc: fmt.Sprintf("%s build: after the history %q and warming up again (%d cycles of all shapes) %d of %d line shapes still allocate on every event (e.g. %s: %.1f allocs/op): the process cannot become warm again after its pools were disturbed by collections / bursts", variant, h.name, gcWarmCycles, len(bad), len(shapes), firstBad.name, bad[firstBad.name]),
				Case: map[string]interface{}{"history": h.src, "history_name": h.name, "earlier histories in this process (each followed by the same warm-up and measurement, all at 0 allocations)": append([]string{}, before...), "then": fmt.Sprintf("%d x every shape once (warm-up); testing.AllocsPerRun(100, shape) per shape", gcWarmCycles), "e.g. shape": firstBad.src, "build": variant,
					"pools": "the library's own eventPool / arrayPool (no shim replacement yet), automatic GC off, only the explicit runtime.GC() calls of the history"}, Observed: bad, Expected: zero})
			break // the past cannot be undone: later histories would only repeat the finding
		}
		before = append(before, h.name)
	}
	c.Res.ExtraCoverage["gc_history_measurements"] = runs
	c.Res.ExtraCoverage["gc_histories"] = len(histories)
}
