package main

// Directed inputs for C07.
//
//   stackResidentArguments: "for all ... argument values": the generated chains of c07.go pass arguments that were
//   allocated when the chain was compiled to closures (heap-resident, like a package-level fixture).  A field
//   method that lets its argument escape (dynamic dispatch of the encoder, an interface conversion, a goroutine,
//   a stored reference) allocates nothing for those - the allocation happens at the USER's call site, when the
//   argument is a slice literal, a slice of a local array, a value boxed for Type, or a closure for Func.  Here
//   every slice-taking / boxing method of the allocation-free set is called with arguments built inside the
//   measured function, on a plain, a context+timestamp and a level-filtered logger.
//
//   warmAfterHistory: "once warm ... any length whose encoded size stays within the pooled buffer": warm is a
//   state reached by a history.  AllocsPerRun repeats ONE shape (its unmeasured first call re-grows whatever the
//   history did to the pooled buffer), so here histories (an event / Arr() / Dict() that outgrew 64 KiB, or grew
//   past 500 bytes) are followed by re-warming with short lines and then by a ladder of larger lines that all
//   fit the pooled 500-byte buffer, each measured on its FIRST occurrence (mallocs of one call).

import (
	"fmt"
	"io"
	"runtime"
	"strings"
	"testing"
	"time"

	"github.com/rs/zerolog"
	. "verifharness/hlib"
)

// read at run time so that no argument below is a compile-time constant
var (
	vInt   = 7
	vFloat = 1.25
	vBool  = true
	vStr   = "s"
	vByte  = byte(0x41)
	vTime  = time.Unix(1700000000, 123456789).UTC()
	vDur   = 1500 * time.Microsecond
)

type pointT struct {
	X, Y int
	Name string
}

type argChain struct {
	name string
	src  string
	f    func(l *zerolog.Logger)
}

func argChains() []argChain {
	return []argChain{
		{"control-scalars", `l.Info().Str("k", s).Int("n", n).Bool("b", b).Float64("f", f).Msg("m")`, func(l *zerolog.Logger) {
			l.Info().Str("k", vStr).Int("n", vInt).Bool("b", vBool).Float64("f", vFloat).Msg("m")
		}},
		{"Strs-literal", `l.Info().Strs("k", []string{s, "b", s}).Msg("m")`, func(l *zerolog.Logger) {
			l.Info().Strs("k", []string{vStr, "b", vStr}).Msg("m")
		}},
		{"Bools-literal", `l.Info().Bools("k", []bool{b, !b}).Msg("m")`, func(l *zerolog.Logger) {
			l.Info().Bools("k", []bool{vBool, !vBool}).Msg("m")
		}},
		{"Ints-literal", `l.Info().Ints("ports", []int{n, 443}).Msg("m")`, func(l *zerolog.Logger) {
			l.Info().Ints("ports", []int{vInt, 443}).Msg("m")
		}},
		{"Ints8-16-32-64-literals", `l.Info().Ints8("a", []int8{..}).Ints16("b", []int16{..}).Ints32("c", []int32{..}).Ints64("d", []int64{..}).Send()`, func(l *zerolog.Logger) {
			n := vInt
			l.Info().Ints8("a", []int8{int8(n), -1}).Ints16("b", []int16{int16(n), -300}).Ints32("c", []int32{int32(n), 1 << 20}).Ints64("d", []int64{int64(n), 1 << 40}).Send()
		}},
		{"Uints-literals", `l.Info().Uints("a", []uint{..}).Uints8("b", []uint8{..}).Uints16("c", []uint16{..}).Uints32("d", []uint32{..}).Uints64("e", []uint64{..}).Send()`, func(l *zerolog.Logger) {
			n := vInt
			l.Info().Uints("a", []uint{uint(n), 2}).Uints8("b", []uint8{uint8(n), 255}).Uints16("c", []uint16{uint16(n), 65535}).Uints32("d", []uint32{uint32(n), 1 << 31}).Uints64("e", []uint64{uint64(n), 1 << 63}).Send()
		}},
		{"Floats-literals", `l.Info().Floats32("a", []float32{..}).Floats64("b", []float64{f, 2.5}).Msg("m")`, func(l *zerolog.Logger) {
			l.Info().Floats32("a", []float32{float32(vFloat), 0.5}).Floats64("b", []float64{vFloat, 2.5}).Msg("m")
		}},
		{"Times-Durs-literals", `l.Info().Times("ts", []time.Time{t, t.Add(d)}).Durs("ds", []time.Duration{d, 2 * d}).Msg("m")`, func(l *zerolog.Logger) {
			l.Info().Times("ts", []time.Time{vTime, vTime.Add(vDur)}).Durs("ds", []time.Duration{vDur, 2 * vDur}).Msg("m")
		}},
		{"Hex-of-local-array", `var id [16]byte; ...; l.Info().Hex("trace_id", id[:]).Msg("m")`, func(l *zerolog.Logger) {
			var id [16]byte
			for i := range id {
				id[i] = vByte + byte(i)
			}
			l.Info().Hex("trace_id", id[:]).Msg("m")
		}},
		{"Bytes-of-local-array", `var b [24]byte; ...; l.Info().Bytes("payload", b[:]).Msg("m")`, func(l *zerolog.Logger) {
			var b [24]byte
			for i := range b {
				b[i] = vByte
			}
			l.Info().Bytes("payload", b[:]).Msg("m")
		}},
		{"RawJSON-of-local-array", `b := [4]byte{'t','r','u','e'}; l.Info().RawJSON("raw", b[:]).Msg("m")`, func(l *zerolog.Logger) {
			b := [4]byte{'t', 'r', 'u', 'e'}
			if !vBool {
				b[0] = 'f'
			}
			l.Info().RawJSON("raw", b[:]).Msg("m")
		}},
		{"Bytes-literal", `l.Info().Bytes("b", []byte{c, 'x', 'y'}).Msg("m")`, func(l *zerolog.Logger) {
			l.Info().Bytes("b", []byte{vByte, 'x', 'y'}).Msg("m")
		}},
		{"Type-of-struct-value", `p := pointT{n, 2, s}; l.Info().Type("t", p).Msg("m")`, func(l *zerolog.Logger) {
			p := pointT{vInt, 2, vStr}
			l.Info().Type("t", p).Msg("m")
		}},
		{"Type-of-local-int-and-array", `n := ...; a := [4]int{n}; l.Info().Type("t", n+1000).Type("u", a).Msg("m")`, func(l *zerolog.Logger) {
			n := vInt
			a := [4]int{n, 1, 2, 3}
			l.Info().Type("t", n+1000).Type("u", a).Msg("m")
		}},
		{"Func-capturing-locals", `n := ...; l.Info().Func(func(e *Event) { e.Int("n", n).Ints("ns", []int{n, n}) }).Msg("m")`, func(l *zerolog.Logger) {
			n := vInt
			l.Info().Func(func(e *zerolog.Event) { e.Int("n", n).Ints("ns", []int{n, n}) }).Msg("m")
		}},
		{"Dict-with-literals", `l.Info().Dict("d", Dict().Ints("p", []int{n, 2}).Strs("s", []string{s}).Hex("h", id[:])).Msg("m")`, func(l *zerolog.Logger) {
			var id [8]byte
			id[0] = vByte
			l.Info().Dict("d", zerolog.Dict().Ints("p", []int{vInt, 2}).Strs("s", []string{vStr}).Hex("h", id[:])).Msg("m")
		}},
		{"Array-with-local-arrays", `l.Info().Array("a", Arr().Bytes(b[:]).Hex(id[:]).Int(n)).Msg("m")`, func(l *zerolog.Logger) {
			var id [8]byte
			var b [8]byte
			id[0], b[0] = vByte, vByte
			l.Info().Array("a", zerolog.Arr().Bytes(b[:]).Hex(id[:]).Int(vInt)).Msg("m")
		}},
		{"mixed-line", `l.Info().Str("k", s).Ints("ports", []int{80, n}).Hex("id", id[:]).Bools("bs", []bool{b}).Dur("d", d).Msg("m")`, func(l *zerolog.Logger) {
			var id [16]byte
			id[3] = vByte
			l.Info().Str("k", vStr).Ints("ports", []int{80, vInt}).Hex("id", id[:]).Bools("bs", []bool{vBool}).Dur("d", vDur).Msg("m")
		}},
	}
}

func stackResidentArguments(c *Ctx, variant string) {
	chains := argChains()
	plain := zerolog.New(io.Discard)
	withCtx := zerolog.New(io.Discard).With().Str("svc", "x").Int("n", 1).Timestamp().Logger()
	filtered := zerolog.New(io.Discard).Level(zerolog.Disabled)
	warnOnly := zerolog.New(io.Discard).Level(zerolog.WarnLevel)
	loggers := []struct {
		name string
		l    *zerolog.Logger
	}{{"plain", &plain}, {"context", &withCtx}, {"filtered (Disabled)", &filtered}, {"filtered (Info below WarnLevel)", &warnOnly}}
	runs := 0
	for i := range chains {
		ch := &chains[i]
		for _, lg := range loggers {
			l := lg.l
			f := func() { ch.f(l) }
			f()
			a := testing.AllocsPerRun(100, f)
			runs++
			if a != 0 {
				c.Violate(Violation{Key: "fast-path-allocates", Monitor: "allocs-per-run-stack-args", Desc: fmt.Sprintf("%s logger (%s build): %.1f allocs/op for a chain over the allocation-free method set whose arguments are built at the call site (slice literals, slices of local arrays, values boxed for Type, a closure for Func): the arguments escape to the heap", lg.name, variant, a),
					Case: map[string]interface{}{"logger": lg.name, "chain": ch.src, "name": ch.name, "build": variant, "arguments": "created inside the measured function (stack-resident unless the library lets them escape)"}, Observed: a, Expected: 0})
			}
			c.Count("stack-args "+ch.name+" "+lg.name, true)
		}
	}
	c.Res.ExtraCoverage["stack_resident_argument_chains"] = runs
}

// ---------------------------------------------------------------- warm after a history
type lenW struct{ last, max int }

func (w *lenW) Write(p []byte) (int, error) {
	w.last = len(p)
	if w.last > w.max {
		w.max = w.last
	}
	return len(p), nil
}

var (
	msA, msB runtime.MemStats
)

// mallocs of one call of f (GC is off, GOMAXPROCS(1): nothing else allocates)
func mallocsOf(f func()) uint64 {
	runtime.ReadMemStats(&msA)
	f()
	runtime.ReadMemStats(&msB)
	return msB.Mallocs - msA.Mallocs
}

func warmAfterHistory(c *Ctx, variant string) {
	w := &lenW{}
	plain := zerolog.New(w)
	withCtx := zerolog.New(w).With().Str("svc", "api").Int("shard", 3).Logger()
	big70k := strings.Repeat("h", 70000)
	big5k := strings.Repeat("g", 5000)
	big60k := strings.Repeat("f", 60000)
	type history struct {
		name string
		src  string
		f    func(l *zerolog.Logger)
	}
	arrOf := func(n int, s string) func(l *zerolog.Logger) {
		return func(l *zerolog.Logger) {
			a := zerolog.Arr()
			for i := 0; i < n; i++ {
				a.Str(s)
			}
			l.Info().Array("a", a).Msg("history")
		}
	}
	histories := []history{
		{"none", "(nothing)", func(l *zerolog.Logger) {}},
		{"event-70k", `l.Info().Str("p", 70000 bytes).Msg("history")`, func(l *zerolog.Logger) { l.Info().Str("p", big70k).Msg("history") }},
		{"event-70k-twice", `2 x l.Info().Str("p", 70000 bytes).Msg("history")`, func(l *zerolog.Logger) {
			l.Info().Str("p", big70k).Msg("history")
			l.Info().Str("p", big70k).Msg("history")
		}},
		{"arr-70k", `a := Arr(); 700 x a.Str(100 bytes); l.Info().Array("a", a).Msg("history")`, arrOf(700, strings.Repeat("e", 100))},
		{"dict-70k", `l.Info().Dict("d", Dict().Str("p", 70000 bytes)).Msg("history")`, func(l *zerolog.Logger) {
			l.Info().Dict("d", zerolog.Dict().Str("p", big70k)).Msg("history")
		}},
		{"event-and-arr-70k", `event-70k; arr-70k`, func(l *zerolog.Logger) {
			l.Info().Str("p", big70k).Msg("history")
			arrOf(700, strings.Repeat("e", 100))(l)
		}},
		{"filtered-dict-arr-70k", `off.Info().Dict("d", Dict().Str("p", 70000 bytes)).Array("a", 70 KiB Arr()).Msg("history")`, func(l *zerolog.Logger) {
			off := l.Level(zerolog.Disabled)
			a := zerolog.Arr()
			for i := 0; i < 700; i++ {
				a.Str("eeeeeeeeeeeeeeeeeeeeeeeeeeeeeeeeeeeeeeeeeeeeeeeeeeeeeeeeeeeeeeeeeeeeeeeeeeeeeeeeeeeeeeeeeeeeeeeeeeee")
			}
			off.Info().Dict("d", zerolog.Dict().Str("p", big70k)).Array("a", a).Msg("history")
		}},
		{"event-5k", `l.Info().Str("p", 5000 bytes).Msg("history")`, func(l *zerolog.Logger) { l.Info().Str("p", big5k).Msg("history") }},
		{"event-60k-arr-5k", `l.Info().Str("p", 60000 bytes).Msg("history"); 5 KB Arr()`, func(l *zerolog.Logger) {
			l.Info().Str("p", big60k).Msg("history")
			arrOf(50, strings.Repeat("e", 100))(l)
		}},
	}
	short := func(l *zerolog.Logger) {
		l.Info().Str("k", "v").Msg("short")
		l.Info().Array("a", zerolog.Arr().Int(1)).Msg("short")
		l.Info().Dict("d", zerolog.Dict().Int("n", 1)).Msg("short")
	}
	// the ladder: lines of growing size, all of which must fit the pooled buffers
	type probe struct {
		name string
		src  string
		f    func(l *zerolog.Logger)
	}
	var probes []probe
	for _, n := range []int{60, 150, 300, 380, 420} {
		p := strings.Repeat("m", n)
		probes = append(probes, probe{fmt.Sprintf("str-%d", n), fmt.Sprintf(`l.Info().Str("p", %d bytes).Msg("probe")`, n), func(l *zerolog.Logger) { l.Info().Str("p", p).Msg("probe") }})
	}
	for _, n := range []int{5, 20, 60} {
		n := n
		probes = append(probes, probe{fmt.Sprintf("arr-%d", n), fmt.Sprintf(`a := Arr(); %d x a.Int(12345); l.Info().Array("a", a).Msg("probe")`, n), func(l *zerolog.Logger) {
			a := zerolog.Arr()
			for i := 0; i < n; i++ {
				a.Int(12345)
			}
			l.Info().Array("a", a).Msg("probe")
		}})
	}
	for _, n := range []int{100, 350} {
		p := strings.Repeat("d", n)
		probes = append(probes, probe{fmt.Sprintf("dict-%d", n), fmt.Sprintf(`l.Info().Dict("d", Dict().Str("p", %d bytes)).Msg("probe")`, n), func(l *zerolog.Logger) { l.Info().Dict("d", zerolog.Dict().Str("p", p)).Msg("probe") }})
	}
	if base := mallocsOf(func() {}); base != 0 {
		c.Note("warmAfterHistory skipped: the malloc counter moves by %d around an empty function", base)
		return
	}
	const rounds = 3
	runs := 0
	for _, lg := range []struct {
		name string
		l    *zerolog.Logger
	}{{"plain", &plain}, {"context", &withCtx}} {
		for _, h := range histories {
			for _, rewarm := range []int{1, 20} {
				// min over the rounds of the mallocs of each probe's first occurrence
				minAlloc := make([]uint64, len(probes))
				sizes := make([]int, len(probes))
				for i := range minAlloc {
					minAlloc[i] = ^uint64(0)
				}
				shortAllocs := ^uint64(0)
				for r := 0; r < rounds; r++ {
					zerolog.VerifResetPools()
					short(lg.l) // a warm logger to begin with
					h.f(lg.l)
					for k := 0; k < rewarm; k++ {
						short(lg.l)
					}
					if n := mallocsOf(func() { short(lg.l) }); n < shortAllocs {
						shortAllocs = n
					}
					for i := range probes {
						w.last = 0
						n := mallocsOf(func() { probes[i].f(lg.l) })
						sizes[i] = w.last
						if n < minAlloc[i] {
							minAlloc[i] = n
						}
					}
					runs++
				}
				desc := func(extra map[string]interface{}) map[string]interface{} {
					m := map[string]interface{}{"logger": lg.name, "build": variant, "pools": "emptied, then 3 short lines (plain, one-element Arr, small Dict)", "history": h.src,
						"rewarm": fmt.Sprintf("%d x the 3 short lines", rewarm), "measured": "mallocs of ONE call (runtime.MemStats, GC off, GOMAXPROCS(1)), minimum over 3 repetitions of the whole history"}
					for k, v := range extra {
						m[k] = v
					}
					return m
				}
				if shortAllocs != 0 {
					c.Violate(Violation{Key: "fast-path-allocates", Monitor: "warm-after-history", Desc: fmt.Sprintf("%s logger (%s build): after history %q and re-warming, the short lines themselves still allocate %d times", lg.name, variant, h.name, shortAllocs), Case: desc(nil), Observed: shortAllocs, Expected: 0})
				}
				for i, p := range probes {
					if sizes[i] == 0 || sizes[i] > 500 {
						continue // only lines that fit the pooled 500-byte buffer are promised
					}
					if minAlloc[i] != 0 {
						var before []string
						for _, q := range probes[:i] {
							before = append(before, q.src)
						}
						c.Violate(Violation{Key: "fast-path-allocates", Monitor: "warm-after-history", Desc: fmt.Sprintf("%s logger (%s build): after history %q and re-warming with short lines, the first line of %d encoded bytes (within the pooled 500-byte buffer) allocates %d times: the pooled buffer lost its capacity", lg.name, variant, h.name, sizes[i], minAlloc[i]),
							Case: desc(map[string]interface{}{"then, each once, in this order": before, "the measured line": p.src, "its encoded size": sizes[i]}), Observed: minAlloc[i], Expected: 0})
						break // later probes are larger still
					}
					c.Count(fmt.Sprintf("warm-after %s %s %d %s", lg.name, h.name, rewarm, p.name), h.name != "none")
				}
			}
		}
	}
	zerolog.VerifResetPools()
	c.Res.ExtraCoverage["warm_after_history_runs"] = runs
}
