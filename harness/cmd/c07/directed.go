package main

// Directed inputs for C07.
//
//   stackResidentArguments: "for all ... argument values": the generated chains of c07.go pass arguments that were
//   allocated when the chain was compiled to closures (heap-resident, like a package-level fixture).  A field
//   method that lets its argument escape (dynamic dispatch of the encoder, an interface conversion, a goroutine,
//   a stored reference) allocates nothing for those - the allocation happens at the USER's call site, when the
//   argument is a slice literal, a slice of a local array, a value boxed for Type, or a closure for Func.  Here
//   every slice-taking / boxing method of the allocation-free set is called with arguments built inside the
//   measured function, on a plain, a context+timestamp and a level-filtered logger.
//
//   warmAfterHistory: "once warm ... any length whose encoded size stays within the pooled buffer": warm is a
//   state reached by a history.  AllocsPerRun repeats ONE shape (its unmeasured first call re-grows whatever the
//   history did to the pooled buffer), so here histories (an event / Arr() / Dict() that outgrew 64 KiB, or grew
//   past 500 bytes) are followed by re-warming with short lines and then by a ladder of larger lines that all
//   fit the pooled 500-byte buffer, each measured on its FIRST occurrence (mallocs of one call).
//
//   changingInputs: "for all ... argument values ... loggers with and without ... timestamp hook": AllocsPerRun
//   repeats one closure, and the chains above hand it the SAME values (and a frozen clock) on every repetition.  A
//   rendering that is remembered from one event to the next (a cache of the last timestamp text keyed by second
//   and zone, an interned key or string, a memoised number) costs nothing then and allocates on every miss.  Here
//   the inputs change from event to event: (a) TimestampFunc is a clock that moves between events (steps from 1 ms
//   to 25 h, backwards, sub-second jitter, two / several zones taking turns, a cycle of 64 instants in 4 zones)
//   under every TimeFieldFormat, read by the With().Timestamp() hook, by Event.Timestamp(), inside a Dict and on a
//   filtered logger; (b) every value-taking method of the allocation-free set is called with another value (and
//   another key) of a prebuilt table of 64 on every repetition.

import (
	"fmt"
	"io"
	"runtime"
	"strings"
	"testing"
	"time"

	"github.com/rs/zerolog"
	. "verifharness/hlib"
)

// read at run time so that no argument below is a compile-time constant
var (
	vInt   = 7
	vFloat = 1.25
	vBool  = true
	vStr   = "s"
	vByte  = byte(0x41)
	vTime  = time.Unix(1700000000, 123456789).UTC()
	vDur   = 1500 * time.Microsecond
)

type pointT struct {
	X, Y int
	Name string
}

type argChain struct {
	name string
	src  string
	f    func(l *zerolog.Logger)
}

func argChains() []argChain {
	return []argChain{
		{"control-scalars", `l.Info().Str("k", s).Int("n", n).Bool("b", b).Float64("f", f).Msg("m")`, func(l *zerolog.Logger) {
			l.Info().Str("k", vStr).Int("n", vInt).Bool("b", vBool).Float64("f", vFloat).Msg("m")
		}},
		{"Strs-literal", `l.Info().Strs("k", []string{s, "b", s}).Msg("m")`, func(l *zerolog.Logger) {
			l.Info().Strs("k", []string{vStr, "b", vStr}).Msg("m")
		}},
		{"Bools-literal", `l.Info().Bools("k", []bool{b, !b}).Msg("m")`, func(l *zerolog.Logger) {
			l.Info().Bools("k", []bool{vBool, !vBool}).Msg("m")
		}},
		{"Ints-literal", `l.Info().Ints("ports", []int{n, 443}).Msg("m")`, func(l *zerolog.Logger) {
			l.Info().Ints("ports", []int{vInt, 443}).Msg("m")
		}},
		{"Ints8-16-32-64-literals", `l.Info().Ints8("a", []int8{..}).Ints16("b", []int16{..}).Ints32("c", []int32{..}).Ints64("d", []int64{..}).Send()`, func(l *zerolog.Logger) {
			n := vInt
			l.Info().Ints8("a", []int8{int8(n), -1}).Ints16("b", []int16{int16(n), -300}).Ints32("c", []int32{int32(n), 1 << 20}).Ints64("d", []int64{int64(n), 1 << 40}).Send()
		}},
		{"Uints-literals", `l.Info().Uints("a", []uint{..}).Uints8("b", []uint8{..}).Uints16("c", []uint16{..}).Uints32("d", []uint32{..}).Uints64("e", []uint64{..}).Send()`, func(l *zerolog.Logger) {
			n := vInt
			l.Info().Uints("a", []uint{uint(n), 2}).Uints8("b", []uint8{uint8(n), 255}).Uints16("c", []uint16{uint16(n), 65535}).Uints32("d", []uint32{uint32(n), 1 << 31}).Uints64("e", []uint64{uint64(n), 1 << 63}).Send()
		}},
		{"Floats-literals", `l.Info().Floats32("a", []float32{..}).Floats64("b", []float64{f, 2.5}).Msg("m")`, func(l *zerolog.Logger) {
			l.Info().Floats32("a", []float32{float32(vFloat), 0.5}).Floats64("b", []float64{vFloat, 2.5}).Msg("m")
		}},
		{"Times-Durs-literals", `l.Info().Times("ts", []time.Time{t, t.Add(d)}).Durs("ds", []time.Duration{d, 2 * d}).Msg("m")`, func(l *zerolog.Logger) {
			l.Info().Times("ts", []time.Time{vTime, vTime.Add(vDur)}).Durs("ds", []time.Duration{vDur, 2 * vDur}).Msg("m")
		}},
		{"Hex-of-local-array", `var id [16]byte; ...; l.Info().Hex("trace_id", id[:]).Msg("m")`, func(l *zerolog.Logger) {
			var id [16]byte
			for i := range id {
				id[i] = vByte + byte(i)
			}
			l.Info().Hex("trace_id", id[:]).Msg("m")
		}},
		{"Bytes-of-local-array", `var b [24]byte; ...; l.Info().Bytes("payload", b[:]).Msg("m")`, func(l *zerolog.Logger) {
			var b [24]byte
			for i := range b {
				b[i] = vByte
			}
			l.Info().Bytes("payload", b[:]).Msg("m")
		}},
		{"RawJSON-of-local-array", `b := [4]byte{'t','r','u','e'}; l.Info().RawJSON("raw", b[:]).Msg("m")`, func(l *zerolog.Logger) {
			b := [4]byte{'t', 'r', 'u', 'e'}
			if !vBool {
				b[0] = 'f'
			}
			l.Info().RawJSON("raw", b[:]).Msg("m")
		}},
		{"Bytes-literal", `l.Info().Bytes("b", []byte{c, 'x', 'y'}).Msg("m")`, func(l *zerolog.Logger) {
			l.Info().Bytes("b", []byte{vByte, 'x', 'y'}).Msg("m")
		}},
		{"Type-of-struct-value", `p := pointT{n, 2, s}; l.Info().Type("t", p).Msg("m")`, func(l *zerolog.Logger) {
			p := pointT{vInt, 2, vStr}
			l.Info().Type("t", p).Msg("m")
		}},
		{"Type-of-local-int-and-array", `n := ...; a := [4]int{n}; l.Info().Type("t", n+1000).Type("u", a).Msg("m")`, func(l *zerolog.Logger) {
			n := vInt
			a := [4]int{n, 1, 2, 3}
			l.Info().Type("t", n+1000).Type("u", a).Msg("m")
		}},
		{"Func-capturing-locals", `n := ...; l.Info().Func(func(e *Event) { e.Int("n", n).Ints("ns", []int{n, n}) }).Msg("m")`, func(l *zerolog.Logger) {
			n := vInt
			l.Info().Func(func(e *zerolog.Event) { e.Int("n", n).Ints("ns", []int{n, n}) }).Msg("m")
		}},
		{"Dict-with-literals", `l.Info().Dict("d", Dict().Ints("p", []int{n, 2}).Strs("s", []string{s}).Hex("h", id[:])).Msg("m")`, func(l *zerolog.Logger) {
			var id [8]byte
			id[0] = vByte
			l.Info().Dict("d", zerolog.Dict().Ints("p", []int{vInt, 2}).Strs("s", []string{vStr}).Hex("h", id[:])).Msg("m")
		}},
		{"Array-with-local-arrays", `l.Info().Array("a", Arr().Bytes(b[:]).Hex(id[:]).Int(n)).Msg("m")`, func(l *zerolog.Logger) {
			var id [8]byte
			var b [8]byte
			id[0], b[0] = vByte, vByte
			l.Info().Array("a", zerolog.Arr().Bytes(b[:]).Hex(id[:]).Int(vInt)).Msg("m")
		}},
		{"mixed-line", `l.Info().Str("k", s).Ints("ports", []int{80, n}).Hex("id", id[:]).Bools("bs", []bool{b}).Dur("d", d).Msg("m")`, func(l *zerolog.Logger) {
			var id [16]byte
			id[3] = vByte
			l.Info().Str("k", vStr).Ints("ports", []int{80, vInt}).Hex("id", id[:]).Bools("bs", []bool{vBool}).Dur("d", vDur).Msg("m")
		}},
	}
}

func stackResidentArguments(c *Ctx, variant string) {
	chains := argChains()
	plain := zerolog.New(io.Discard)
	withCtx := zerolog.New(io.Discard).With().Str("svc", "x").Int("n", 1).Timestamp().Logger()
	filtered := zerolog.New(io.Discard).Level(zerolog.Disabled)
	warnOnly := zerolog.New(io.Discard).Level(zerolog.WarnLevel)
	loggers := []struct {
		name string
		l    *zerolog.Logger
	}{{"plain", &plain}, {"context", &withCtx}, {"filtered (Disabled)", &filtered}, {"filtered (Info below WarnLevel)", &warnOnly}}
	runs := 0
	for i := range chains {
		ch := &chains[i]
		for _, lg := range loggers {
			l := lg.l
			f := func() { ch.f(l) }
			f()
			a := testing.AllocsPerRun(100, f)
			runs++
			if a != 0 {
				c.Violate(Violation{Key: "fast-path-allocates", Monitor: "allocs-per-run-stack-args", Desc: fmt.Sprintf("%s logger (%s build): %.1f allocs/op for a chain over the allocation-free method set whose arguments are built at the call site (slice literals, slices of local arrays, values boxed for Type, a closure for Func): the arguments escape to the heap", lg.name, variant, a),
					Case: map[string]interface{}{"logger": lg.name, "chain": ch.src, "name": ch.name, "build": variant, "arguments": "created inside the measured function (stack-resident unless the library lets them escape)"}, Observed: a, Expected: 0})
			}
			c.Count("stack-args "+ch.name+" "+lg.name, true)
		}
	}
	c.Res.ExtraCoverage["stack_resident_argument_chains"] = runs
}

// ---------------------------------------------------------------- warm after a history
type lenW struct{ last, max int }

func (w *lenW) Write(p []byte) (int, error) {
	w.last = len(p)
	if w.last > w.max {
		w.max = w.last
	}
	return len(p), nil
}

var (
	msA, msB runtime.MemStats
)

// mallocs of one call of f (GC is off, GOMAXPROCS(1): nothing else allocates)
func mallocsOf(f func()) uint64 {
	runtime.ReadMemStats(&msA)
	f()
	runtime.ReadMemStats(&msB)
	return msB.Mallocs - msA.Mallocs
}

func warmAfterHistory(c *Ctx, variant string) {
	w := &lenW{}
	plain := zerolog.New(w)
	withCtx := zerolog.New(w).With().Str("svc", "api").Int("shard", 3).Logger()
	big70k := strings.Repeat("h", 70000)
	big5k := strings.Repeat("g", 5000)
	big60k := strings.Repeat("f", 60000)
	type history struct {
		name string
		src  string
		f    func(l *zerolog.Logger)
	}
	arrOf := func(n int, s string) func(l *zerolog.Logger) {
		return func(l *zerolog.Logger) {
			a := zerolog.Arr()
			for i := 0; i < n; i++ {
				a.Str(s)
			}
			l.Info().Array("a", a).Msg("history")
		}
	}
	histories := []history{
		{"none", "(nothing)", func(l *zerolog.Logger) {}},
		{"event-70k", `l.Info().Str("p", 70000 bytes).Msg("history")`, func(l *zerolog.Logger) { l.Info().Str("p", big70k).Msg("history") }},
		{"event-70k-twice", `2 x l.Info().Str("p", 70000 bytes).Msg("history")`, func(l *zerolog.Logger) {
			l.Info().Str("p", big70k).Msg("history")
			l.Info().Str("p", big70k).Msg("history")
		}},
		{"arr-70k", `a := Arr(); 700 x a.Str(100 bytes); l.Info().Array("a", a).Msg("history")`, arrOf(700, strings.Repeat("e", 100))},
		{"dict-70k", `l.Info().Dict("d", Dict().Str("p", 70000 bytes)).Msg("history")`, func(l *zerolog.Logger) {
			l.Info().Dict("d", zerolog.Dict().Str("p", big70k)).Msg("history")
		}},
		{"event-and-arr-70k", `event-70k; arr-70k`, func(l *zerolog.Logger) {
			l.Info().Str("p", big70k).Msg("history")
			arrOf(700, strings.Repeat("e", 100))(l)
		}},
		{"filtered-dict-arr-70k", `off.Info().Dict("d", Dict().Str("p", 70000 bytes)).Array("a", 70 KiB Arr()).Msg("history")`, func(l *zerolog.Logger) {
			off := l.Level(zerolog.Disabled)
			a := zerolog.Arr()
			for i := 0; i < 700; i++ {
				a.Str("eeeeeeeeeeeeeeeeeeeeeeeeeeeeeeeeeeeeeeeeeeeeeeeeeeeeeeeeeeeeeeeeeeeeeeeeeeeeeeeeeeeeeeeeeeeeeeeeeeee")
			}
			off.Info().Dict("d", zerolog.Dict().Str("p", big70k)).Array("a", a).Msg("history")
		}},
		{"event-5k", `l.Info().Str("p", 5000 bytes).Msg("history")`, func(l *zerolog.Logger) { l.Info().Str("p", big5k).Msg("history") }},
		{"event-60k-arr-5k", `l.Info().Str("p", 60000 bytes).Msg("history"); 5 KB Arr()`, func(l *zerolog.Logger) {
			l.Info().Str("p", big60k).Msg("history")
			arrOf(50, strings.Repeat("e", 100))(l)
		}},
	}
	short := func(l *zerolog.Logger) {
		l.Info().Str("k", "v").Msg("short")
		l.Info().Array("a", zerolog.Arr().Int(1)).Msg("short")
		l.Info().Dict("d", zerolog.Dict().Int("n", 1)).Msg("short")
	}
	// the ladder: lines of growing size, all of which must fit the pooled buffers
	type probe struct {
		name string
		src  string
		f    func(l *zerolog.Logger)
	}
	var probes []probe
	for _, n := range []int{60, 150, 300, 380, 420} {
		p := strings.Repeat("m", n)
		probes = append(probes, probe{fmt.Sprintf("str-%d", n), fmt.Sprintf(`l.Info().Str("p", %d bytes).Msg("probe")`, n), func(l *zerolog.Logger) { l.Info().Str("p", p).Msg("probe") }})
	}
	for _, n := range []int{5, 20, 60} {
		n := n
		probes = append(probes, probe{fmt.Sprintf("arr-%d", n), fmt.Sprintf(`a := Arr(); %d x a.Int(12345); l.Info().Array("a", a).Msg("probe")`, n), func(l *zerolog.Logger) {
			a := zerolog.Arr()
			for i := 0; i < n; i++ {
				a.Int(12345)
			}
			l.Info().Array("a", a).Msg("probe")
		}})
	}
	for _, n := range []int{100, 350} {
		p := strings.Repeat("d", n)
		probes = append(probes, probe{fmt.Sprintf("dict-%d", n), fmt.Sprintf(`l.Info().Dict("d", Dict().Str("p", %d bytes)).Msg("probe")`, n), func(l *zerolog.Logger) { l.Info().Dict("d", zerolog.Dict().Str("p", p)).Msg("probe") }})
	}
	if base := mallocsOf(func() {}); base != 0 {
		c.Note("warmAfterHistory skipped: the malloc counter moves by %d around an empty function", base)
		return
	}
	const rounds = 3
	runs := 0
	for _, lg := range []struct {
		name string
		l    *zerolog.Logger
	}{{"plain", &plain}, {"context", &withCtx}} {
		for _, h := range histories {
			for _, rewarm := range []int{1, 20} {
				// min over the rounds of the mallocs of each probe's first occurrence
				minAlloc := make([]uint64, len(probes))
				sizes := make([]int, len(probes))
				for i := range minAlloc {
					minAlloc[i] = ^uint64(0)
				}
				shortAllocs := ^uint64(0)
				for r := 0; r < rounds; r++ {
					zerolog.VerifResetPools()
					short(lg.l) // a warm logger to begin with
					h.f(lg.l)
					for k := 0; k < rewarm; k++ {
						short(lg.l)
					}
					if n := mallocsOf(func() { short(lg.l) }); n < shortAllocs {
						shortAllocs = n
					}
					for i := range probes {
						w.last = 0
						n := mallocsOf(func() { probes[i].f(lg.l) })
						sizes[i] = w.last
						if n < minAlloc[i] {
							minAlloc[i] = n
						}
					}
					runs++
				}
				desc := func(extra map[string]interface{}) map[string]interface{} {
					m := map[string]interface{}{"logger": lg.name, "build": variant, "pools": "emptied, then 3 short lines (plain, one-element Arr, small Dict)", "history": h.src,
						"rewarm": fmt.Sprintf("%d x the 3 short lines", rewarm), "measured": "mallocs of ONE call (runtime.MemStats, GC off, GOMAXPROCS(1)), minimum over 3 repetitions of the whole history"}
					for k, v := range extra {
						m[k] = v
					}
					return m
				}
				if shortAllocs != 0 {
					c.Violate(Violation{Key: "fast-path-allocates", Monitor: "warm-after-history", Desc: fmt.Sprintf("%s logger (%s build): after history %q and re-warming, the short lines themselves still allocate %d times", lg.name, variant, h.name, shortAllocs), Case: desc(nil), Observed: shortAllocs, Expected: 0})
				}
				for i, p := range probes {
					if sizes[i] == 0 || sizes[i] > 500 {
						continue // only lines that fit the pooled 500-byte buffer are promised
					}
					if minAlloc[i] != 0 {
						var before []string
						for _, q := range probes[:i] {
							before = append(before, q.src)
						}
						c.Violate(Violation{Key: "fast-path-allocates", Monitor: "warm-after-history", Desc: fmt.Sprintf("%s logger (%s build): after history %q and re-warming with short lines, the first line of %d encoded bytes (within the pooled 500-byte buffer) allocates %d times: the pooled buffer lost its capacity", lg.name, variant, h.name, sizes[i], minAlloc[i]),
							Case: desc(map[string]interface{}{"then, each once, in this order": before, "the measured line": p.src, "its encoded size": sizes[i]}), Observed: minAlloc[i], Expected: 0})
						break // later probes are larger still
					}
					c.Count(fmt.Sprintf("warm-after %s %s %d %s", lg.name, h.name, rewarm, p.name), h.name != "none")
				}
			}
		}
	}
	zerolog.VerifResetPools()
	c.Res.ExtraCoverage["warm_after_history_runs"] = runs
}

// ---------------------------------------------------------------- inputs that change from event to event
type clockT struct {
	name string
	src  string
	mk   func() func() time.Time // a fresh clock (its counter starts at 0)
}

func clocks() []clockT {
	base := time.Unix(1700000000, 123456789).UTC()
	ist := time.FixedZone("IST", 5*3600+1800)
	west := time.FixedZone("", -(9*3600 + 900))
	cet := time.FixedZone("CET", 3600)
	zones := []*time.Location{time.UTC, ist, west, cet}
	step := func(d time.Duration, loc *time.Location) func() func() time.Time {
		return func() func() time.Time {
			i := 0
			return func() time.Time { i++; return base.Add(time.Duration(i) * d).In(loc) }
		}
	}
	return []clockT{
		{"frozen", "always 2023-11-14T22:13:20.123456789Z", step(0, time.UTC)},
		{"+1ms", "advances 1 ms per reading (UTC)", step(time.Millisecond, time.UTC)},
		{"+1s", "advances 1 s per reading (UTC)", step(time.Second, time.UTC)},
		{"+333ms", "advances 333 ms per reading (UTC)", step(333*time.Millisecond, time.UTC)},
		{"+1s-local", "advances 1 s per reading (time.Local)", step(time.Second, time.Local)},
		{"+90s-fixed-zone", "advances 90 s per reading, zone +05:30", step(90*time.Second, ist)},
		{"+1h", "advances 1 h per reading (UTC; crosses days)", step(time.Hour, time.UTC)},
		{"+25h-west", "advances 25 h per reading, zone -09:15", step(25*time.Hour, west)},
		{"-1s", "goes BACK 1 s per reading (UTC)", step(-time.Second, time.UTC)},
		{"two-zones-same-instant", "one instant, reported in UTC and in +05:30 in turn", func() func() time.Time {
			i := 0
			return func() time.Time { i++; return base.In(zones[i&1]) }
		}},
		{"two-zones-+1s", "advances 1 s per reading, zones UTC / +05:30 in turn", func() func() time.Time {
			i := 0
			return func() time.Time { i++; return base.Add(time.Duration(i) * time.Second).In(zones[i&1]) }
		}},
		{"two-instants", "two instants 1 h apart in turn (UTC)", func() func() time.Time {
			i := 0
			return func() time.Time { i++; return base.Add(time.Duration(i&1) * time.Hour) }
		}},
		{"cycle-64x4", "a cycle of 64 instants 7 s apart, zones UTC / +05:30 / -09:15 / +01:00 in turn", func() func() time.Time {
			i := 0
			return func() time.Time { i++; return base.Add(time.Duration(i&63) * 7 * time.Second).In(zones[i&3]) }
		}},
	}
}

type valueTable struct {
	keys  [64]string
	strs  [64]string
	ints  [64]int
	i64s  [64]int64
	u64s  [64]uint64
	f64s  [64]float64
	f32s  [64]float32
	times [64]time.Time
	durs  [64]time.Duration
	bytes [64][]byte
	errs  [64]error
	sstr  [64][]string
	sint  [64][]int
	sf64  [64][]float64
	stim  [64][]time.Time
	sdur  [64][]time.Duration
	raw   [64][]byte
}

type tableErr struct{ s string }

func (e *tableErr) Error() string { return e.s }

func newValueTable() *valueTable {
	t := &valueTable{}
	zones := []*time.Location{time.UTC, time.FixedZone("IST", 5*3600+1800), time.FixedZone("", -3600)}
	for i := 0; i < 64; i++ {
		t.keys[i] = fmt.Sprintf("key%02d", i)
		t.strs[i] = fmt.Sprintf("value-%d-%s", i*7919, strings.Repeat("s", i%9))
		t.ints[i] = (i - 32) * 1000003
		t.i64s[i] = int64(i-20) << uint(i%50)
		t.u64s[i] = uint64(i+1) << uint(i%60)
		t.f64s[i] = float64(i-30) * 1.37e-3 * float64(int64(1)<<uint(i%40))
		t.f32s[i] = float32(i) * 0.37
		t.times[i] = time.Unix(1700000000+int64(i)*4001, int64(i)*1000003).In(zones[i%3])
		t.durs[i] = time.Duration(i*i+1) * 1234567
		t.bytes[i] = []byte(fmt.Sprintf("b%03d\"%s", i, strings.Repeat("z", i%7)))
		t.errs[i] = &tableErr{fmt.Sprintf("failure %d", i)}
		t.sstr[i] = []string{t.strs[i], "x", t.keys[i]}
		t.sint[i] = []int{i, -i, i * 1000}
		t.sf64[i] = []float64{t.f64s[i], 0.5}
		t.stim[i] = []time.Time{t.times[i], t.times[(i+1)%64]}
		t.sdur[i] = []time.Duration{t.durs[i], time.Duration(i)}
		t.raw[i] = []byte(fmt.Sprintf(`{"n":%d}`, i))
	}
	return t
}

func changingInputs(c *Ctx, variant string) {
	oldClock, oldFormat := zerolog.TimestampFunc, zerolog.TimeFieldFormat
	defer func() { zerolog.TimestampFunc, zerolog.TimeFieldFormat = oldClock, oldFormat }()
	// ---- (a) the clock moves between events
	formats := []string{time.RFC3339, time.RFC3339Nano, zerolog.TimeFormatUnix, zerolog.TimeFormatUnixMs, zerolog.TimeFormatUnixMicro, zerolog.TimeFormatUnixNano, time.StampMicro}
	type entry struct {
		name, src string
		mk        func() func()
	}
	entries := []entry{
		{"hook", `l := New(w).With().Timestamp().Logger(); l.Info().Str("k", "v").Msg("m")`, func() func() {
			l := zerolog.New(io.Discard).With().Timestamp().Logger()
			return func() { l.Info().Str("k", "v").Msg("m") }
		}},
		{"hook-on-child", `p := New(w).With().Timestamp().Logger(); l := p.With().Str("svc", "x").Logger(); l.Warn().Msg("m")`, func() func() {
			p := zerolog.New(io.Discard).With().Timestamp().Logger()
			l := p.With().Str("svc", "x").Logger()
			return func() { l.Warn().Msg("m") }
		}},
		{"method", `l := New(w); l.Info().Timestamp().Str("k", "v").Msg("m")`, func() func() {
			l := zerolog.New(io.Discard)
			return func() { l.Info().Timestamp().Str("k", "v").Msg("m") }
		}},
		{"method-twice-and-in-dict", `l := New(w); l.Info().Timestamp().Dict("d", Dict().Timestamp()).Timestamp().Send()`, func() func() {
			l := zerolog.New(io.Discard)
			return func() { l.Info().Timestamp().Dict("d", zerolog.Dict().Timestamp()).Timestamp().Send() }
		}},
		{"hook-filtered", `l := New(w).With().Timestamp().Logger().Level(WarnLevel); l.Info().Timestamp().Msg("m")`, func() func() {
			l := zerolog.New(io.Discard).With().Timestamp().Logger().Level(zerolog.WarnLevel)
			return func() { l.Info().Timestamp().Msg("m") }
		}},
	}
	runs := 0
	for _, tf := range formats {
		zerolog.TimeFieldFormat = tf
		for _, ck := range clocks() {
			for _, en := range entries {
				zerolog.TimestampFunc = ck.mk()
				f := en.mk()
				f()
				a := testing.AllocsPerRun(100, f)
				runs++
				if a != 0 {
					c.Violate(Violation{Key: "fast-path-allocates", Monitor: "allocs-per-run-moving-clock", Desc: fmt.Sprintf("%s (%s build): %.1f allocs/op for the Timestamp field when TimestampFunc is a clock that %s, TimeFieldFormat=%q (the same chain under a frozen clock is measured by the other streams)", en.name, variant, a, ck.src, tf),
						Case: map[string]interface{}{"chain": en.src, "TimestampFunc": ck.src, "clock": ck.name, "TimeFieldFormat": tf, "build": variant, "measured": "testing.AllocsPerRun(100, chain): one reading of the clock per Timestamp field, 101 events"}, Observed: a, Expected: 0})
				}
				c.Count("moving-clock "+tf+" "+ck.name+" "+en.name, ck.name != "frozen")
			}
		}
	}
	zerolog.TimestampFunc, zerolog.TimeFieldFormat = oldClock, oldFormat
	c.Res.ExtraCoverage["moving_clock_chains"] = runs
	// ---- (b) another value (and key) on every repetition
	t := newValueTable()
	type vchain struct {
		name, src string
		f         func(e *zerolog.Event, i int)
	}
	chains := []vchain{
		{"Str", `e.Str(key[i], str[i])`, func(e *zerolog.Event, i int) { e.Str(t.keys[i], t.strs[i]) }},
		{"Strs", `e.Strs(key[i], strs[i])`, func(e *zerolog.Event, i int) { e.Strs(t.keys[i], t.sstr[i]) }},
		{"Bytes-Hex-RawJSON", `e.Bytes(key[i], b[i]).Hex("h", b[i]).RawJSON("r", raw[i])`, func(e *zerolog.Event, i int) {
			e.Bytes(t.keys[i], t.bytes[i]).Hex("h", t.bytes[i]).RawJSON("r", t.raw[i])
		}},
		{"Bool", `e.Bool(key[i], i%3 == 0)`, func(e *zerolog.Event, i int) { e.Bool(t.keys[i], i%3 == 0) }},
		{"Int-widths", `e.Int(key[i], n[i]).Int8("a", int8(n[i])).Int16("b", int16(n[i])).Int32("c", int32(n[i])).Int64("d", m[i])`, func(e *zerolog.Event, i int) {
			e.Int(t.keys[i], t.ints[i]).Int8("a", int8(t.ints[i])).Int16("b", int16(t.ints[i])).Int32("c", int32(t.ints[i])).Int64("d", t.i64s[i])
		}},
		{"Uint-widths", `e.Uint(key[i], uint(u[i])).Uint8("a", uint8(u[i])).Uint16("b", uint16(u[i])).Uint32("c", uint32(u[i])).Uint64("d", u[i])`, func(e *zerolog.Event, i int) {
			e.Uint(t.keys[i], uint(t.u64s[i])).Uint8("a", uint8(t.u64s[i])).Uint16("b", uint16(t.u64s[i])).Uint32("c", uint32(t.u64s[i])).Uint64("d", t.u64s[i])
		}},
		{"Ints", `e.Ints(key[i], ints[i])`, func(e *zerolog.Event, i int) { e.Ints(t.keys[i], t.sint[i]) }},
		{"Floats", `e.Float64(key[i], f[i]).Float32("g", g[i]).Floats64("fs", fs[i])`, func(e *zerolog.Event, i int) {
			e.Float64(t.keys[i], t.f64s[i]).Float32("g", t.f32s[i]).Floats64("fs", t.sf64[i])
		}},
		{"Time-Times", `e.Time(key[i], t[i]).Times("ts", ts[i])`, func(e *zerolog.Event, i int) { e.Time(t.keys[i], t.times[i]).Times("ts", t.stim[i]) }},
		{"Dur-Durs-TimeDiff", `e.Dur(key[i], d[i]).Durs("ds", ds[i]).TimeDiff("td", t[i], t[(i+1)%64])`, func(e *zerolog.Event, i int) {
			e.Dur(t.keys[i], t.durs[i]).Durs("ds", t.sdur[i]).TimeDiff("td", t.times[i], t.times[(i+1)%64])
		}},
		{"Err-AnErr", `e.Err(err[i]).AnErr(key[i], err[(i+5)%64])`, func(e *zerolog.Event, i int) { e.Err(t.errs[i]).AnErr(t.keys[i], t.errs[(i+5)%64]) }},
		{"Dict-Array", `e.Dict(key[i], Dict().Str("s", str[i]).Time("t", t[i])).Array("a", Arr().Str(str[i]).Int(n[i]).Time(t[i]).Dur(d[i]))`, func(e *zerolog.Event, i int) {
			e.Dict(t.keys[i], zerolog.Dict().Str("s", t.strs[i]).Time("t", t.times[i])).Array("a", zerolog.Arr().Str(t.strs[i]).Int(t.ints[i]).Time(t.times[i]).Dur(t.durs[i]))
		}},
	}
	plain := zerolog.New(io.Discard)
	withCtx := zerolog.New(io.Discard).With().Str("svc", "x").Timestamp().Logger()
	filtered := zerolog.New(io.Discard).Level(zerolog.Disabled)
	vruns := 0
	for _, tf := range []string{time.RFC3339, time.RFC3339Nano, zerolog.TimeFormatUnixMs} {
		zerolog.TimeFieldFormat = tf
		for ci := range chains {
			ch := &chains[ci]
			for _, lg := range []struct {
				name string
				l    *zerolog.Logger
			}{{"plain", &plain}, {"context", &withCtx}, {"filtered (Disabled)", &filtered}} {
				l := lg.l
				msgs := &t.strs
				i := 0
				f := func() {
					i++
					e := l.Info()
					ch.f(e, i&63)
					e.Msg(msgs[(i*5)&63])
				}
				f()
				a := testing.AllocsPerRun(100, f)
				vruns++
				if a != 0 {
					c.Violate(Violation{Key: "fast-path-allocates", Monitor: "allocs-per-run-changing-values", Desc: fmt.Sprintf("%s logger (%s build): %.1f allocs/op for %s when every event carries another value, key and message of a prebuilt table of 64 (TimeFieldFormat=%q)", lg.name, variant, a, ch.name, tf),
						Case: map[string]interface{}{"logger": lg.name, "chain": "i++; e := l.Info(); " + ch.src + "; e.Msg(str[(i*5)%64])   (indices taken modulo 64)", "TimeFieldFormat": tf, "build": variant, "values": "key[i] = keyNN; str[i] = distinct texts; n/m/u/f/g = distinct numbers; t[i] = instants 4001 s apart in three zones; d[i] = distinct durations; err[i] = distinct plain errors; all built before the measurement"}, Observed: a, Expected: 0})
				}
				c.Count("changing-values "+tf+" "+ch.name+" "+lg.name, true)
			}
		}
	}
	c.Res.ExtraCoverage["changing_value_chains"] = vruns
}
