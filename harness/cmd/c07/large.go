package main

// Directed inputs for C07: large arguments.
//
// "any length whose encoded size stays within the pooled buffer": the pool keeps buffers of up to 64 KiB
// (putEvent / putArray), so a line of a few KiB is emitted from a pooled buffer once that buffer has grown to it
// (steady state: the same line occurred before).  The generated chains and the 0..17 ladder of c07.go only reach
// lines of a few hundred bytes, so nothing there notices a field method that over-reserves, copies or otherwise
// makes the event's buffer outgrow the pool's limit (or allocates per element) only for long arguments.  Here
// every slice / byte-string method of the allocation-free set is called with arguments over a length ladder
// (100 .. 16000 elements of one-digit values, 100 .. 1500 elements of maximal-width values, byte strings of
// 1 .. 30 KB), also inside Arr() / Dict() and in the logger's context, on a plain, a context+timestamp and a
// level-filtered logger, and measured in steady state with AllocsPerRun.
//
// What is demanded: zero allocations for every line whose encoded size is at most largeLineBound = 32 KiB, half
// of the pool's limit: a buffer grown by append's amortised policy (at most doubling) to hold such a line is still
// one the pool keeps.  Lines between 32 and 64 KiB are measured and recorded only (whether the grown buffer is
// still below the limit depends on the allocator's size classes, which the property does not fix).  A filtered
// chain must not allocate whatever its arguments.

import (
	"fmt"
	"io"
	"math"
	"strings"
	"testing"
	"time"

	"github.com/rs/zerolog"
	. "verifharness/hlib"
)

const largeLineBound = 32 << 10

type largeMethod struct {
	name string
	// mk builds the argument of n elements (small = one-digit / shortest values, otherwise maximal-width values)
	// BEFORE the measurement and returns the field call plus its source text
	mk func(n int, small bool) (func(e *zerolog.Event), string)
}

func largeMethods() []largeMethod {
	var ms []largeMethod
	add := func(name string, mk func(n int, small bool) func(e *zerolog.Event)) {
		ms = append(ms, largeMethod{name, func(n int, small bool) (func(e *zerolog.Event), string) {
			what := "maximal-width"
			if small {
				what = "one-digit"
			}
			return mk(n, small), fmt.Sprintf(`e.%s("s", %d %s values)`, name, n, what)
		}})
	}
	add("Ints", func(n int, small bool) func(e *zerolog.Event) {
		v := make([]int, n)
		for i := range v {
			v[i] = i % 10
			if !small {
				v[i] = math.MinInt64
			}
		}
		return func(e *zerolog.Event) { e.Ints("s", v) }
	})
	add("Ints8", func(n int, small bool) func(e *zerolog.Event) {
		v := make([]int8, n)
		for i := range v {
			v[i] = int8(i % 10)
			if !small {
				v[i] = math.MinInt8
			}
		}
		return func(e *zerolog.Event) { e.Ints8("s", v) }
	})
	add("Ints16", func(n int, small bool) func(e *zerolog.Event) {
		v := make([]int16, n)
		for i := range v {
			v[i] = int16(i % 10)
			if !small {
				v[i] = math.MinInt16
			}
		}
		return func(e *zerolog.Event) { e.Ints16("s", v) }
	})
	add("Ints32", func(n int, small bool) func(e *zerolog.Event) {
		v := make([]int32, n)
		for i := range v {
			v[i] = int32(i % 10)
			if !small {
				v[i] = math.MinInt32
			}
		}
		return func(e *zerolog.Event) { e.Ints32("s", v) }
	})
	add("Ints64", func(n int, small bool) func(e *zerolog.Event) {
		v := make([]int64, n)
		for i := range v {
			v[i] = int64(i % 10)
			if !small {
				v[i] = math.MinInt64
			}
		}
		return func(e *zerolog.Event) { e.Ints64("s", v) }
	})
	add("Uints", func(n int, small bool) func(e *zerolog.Event) {
		v := make([]uint, n)
		for i := range v {
			v[i] = uint(i % 10)
			if !small {
				v[i] = math.MaxUint64
			}
		}
		return func(e *zerolog.Event) { e.Uints("s", v) }
	})
	add("Uints8", func(n int, small bool) func(e *zerolog.Event) {
		v := make([]uint8, n)
		for i := range v {
			v[i] = uint8(i % 10)
			if !small {
				v[i] = math.MaxUint8
			}
		}
		return func(e *zerolog.Event) { e.Uints8("s", v) }
	})
	add("Uints16", func(n int, small bool) func(e *zerolog.Event) {
		v := make([]uint16, n)
		for i := range v {
			v[i] = uint16(i % 10)
			if !small {
				v[i] = math.MaxUint16
			}
		}
		return func(e *zerolog.Event) { e.Uints16("s", v) }
	})
	add("Uints32", func(n int, small bool) func(e *zerolog.Event) {
		v := make([]uint32, n)
		for i := range v {
			v[i] = uint32(i % 10)
			if !small {
				v[i] = math.MaxUint32
			}
		}
		return func(e *zerolog.Event) { e.Uints32("s", v) }
	})
	add("Uints64", func(n int, small bool) func(e *zerolog.Event) {
		v := make([]uint64, n)
		for i := range v {
			v[i] = uint64(i % 10)
			if !small {
				v[i] = math.MaxUint64
			}
		}
		return func(e *zerolog.Event) { e.Uints64("s", v) }
	})
	add("Floats32", func(n int, small bool) func(e *zerolog.Event) {
		v := make([]float32, n)
		for i := range v {
			v[i] = float32(i % 10)
			if !small {
				v[i] = -math.MaxFloat32
			}
		}
		return func(e *zerolog.Event) { e.Floats32("s", v) }
	})
	add("Floats64", func(n int, small bool) func(e *zerolog.Event) {
		v := make([]float64, n)
		for i := range v {
			v[i] = float64(i % 10)
			if !small {
				v[i] = -1.2345678901234567e-300
			}
		}
		return func(e *zerolog.Event) { e.Floats64("s", v) }
	})
	add("Bools", func(n int, small bool) func(e *zerolog.Event) {
		v := make([]bool, n)
		for i := range v {
			v[i] = small || i%2 == 0 // "true" is the shorter text
		}
		return func(e *zerolog.Event) { e.Bools("s", v) }
	})
	add("Strs", func(n int, small bool) func(e *zerolog.Event) {
		v := make([]string, n)
		for i := range v {
			v[i] = "s"
			if !small {
				v[i] = "a \"quoted\" text\n"
			}
		}
		return func(e *zerolog.Event) { e.Strs("s", v) }
	})
	add("Times", func(n int, small bool) func(e *zerolog.Event) {
		v := make([]time.Time, n)
		for i := range v {
			v[i] = time.Unix(1700000000+int64(i), 0).UTC()
			if !small {
				v[i] = time.Unix(1700000000+int64(i), 123456789).In(time.FixedZone("", -(9*3600 + 900)))
			}
		}
		return func(e *zerolog.Event) { e.Times("s", v) }
	})
	add("Durs", func(n int, small bool) func(e *zerolog.Event) {
		v := make([]time.Duration, n)
		for i := range v {
			v[i] = time.Duration(i%10) * time.Millisecond
			if !small {
				v[i] = math.MinInt64
			}
		}
		return func(e *zerolog.Event) { e.Durs("s", v) }
	})
	return ms
}

// byte-string methods and the helpers with a pooled buffer of their own: n is a number of bytes / elements
func largeBlobMethods() []largeMethod {
	return []largeMethod{
		{"Str", func(n int, small bool) (func(e *zerolog.Event), string) {
			s := strings.Repeat("x", n)
			return func(e *zerolog.Event) { e.Str("s", s) }, fmt.Sprintf(`e.Str("s", %d bytes)`, n)
		}},
		{"Bytes", func(n int, small bool) (func(e *zerolog.Event), string) {
			b := []byte(strings.Repeat("y", n))
			return func(e *zerolog.Event) { e.Bytes("s", b) }, fmt.Sprintf(`e.Bytes("s", %d bytes)`, n)
		}},
		{"Hex", func(n int, small bool) (func(e *zerolog.Event), string) {
			b := []byte(strings.Repeat("\xa7", n/2))
			return func(e *zerolog.Event) { e.Hex("s", b) }, fmt.Sprintf(`e.Hex("s", %d bytes)`, n/2)
		}},
		{"RawJSON", func(n int, small bool) (func(e *zerolog.Event), string) {
			b := []byte(`"` + strings.Repeat("r", n) + `"`)
			return func(e *zerolog.Event) { e.RawJSON("s", b) }, fmt.Sprintf(`e.RawJSON("s", a JSON string of %d bytes)`, n+2)
		}},
		{"Array", func(n int, small bool) (func(e *zerolog.Event), string) {
			k := n / 4
			return func(e *zerolog.Event) {
					a := zerolog.Arr()
					for i := 0; i < k; i++ {
						a.Int(i % 10)
					}
					e.Array("s", a)
				}, fmt.Sprintf(`a := Arr(); %d x a.Int(i %% 10); e.Array("s", a)`, k)
		}},
		{"Dict", func(n int, small bool) (func(e *zerolog.Event), string) {
			k := n / 8
			return func(e *zerolog.Event) {
					d := zerolog.Dict()
					for i := 0; i < k; i++ {
						d.Int("k", i%10)
					}
					e.Dict("s", d)
				}, fmt.Sprintf(`d := Dict(); %d x d.Int("k", i %% 10); e.Dict("s", d)`, k)
		}},
		{"Dict-of-slice", func(n int, small bool) (func(e *zerolog.Event), string) {
			k := n / 4
			v := make([]int, k)
			for i := range v {
				v[i] = i % 10
			}
			return func(e *zerolog.Event) { e.Dict("s", zerolog.Dict().Ints("v", v)) }, fmt.Sprintf(`e.Dict("s", Dict().Ints("v", %d one-digit values))`, k)
		}},
	}
}

func largeArguments(c *Ctx, variant string) {
	w := &lenW{}
	sizer := zerolog.New(w)
	plain := zerolog.New(io.Discard)
	withCtx := zerolog.New(io.Discard).With().Str("svc", "x").Int("n", 1).Timestamp().Logger()
	filtered := zerolog.New(io.Discard).Level(zerolog.Disabled)
	loggers := []struct {
		name string
		l    *zerolog.Logger
	}{{"plain", &plain}, {"context", &withCtx}, {"filtered (Disabled)", &filtered}}
	runs, beyond, beyondFree := 0, 0, 0
	maxDemanded := 0
	measure := func(method, src string, n int, field func(e *zerolog.Event)) {
		w.last = 0
		e := sizer.Info().Str("k", "v")
		field(e)
		e.Int("n", 1).Msg("m")
		size := w.last
		for _, lg := range loggers {
			l := lg.l
			chain := func() {
				e := l.Info().Str("k", "v")
				field(e)
				e.Int("n", 1).Msg("m")
			}
			chain() // steady state: the line occurred before (AllocsPerRun adds one more unmeasured call)
			chain()
			a := testing.AllocsPerRun(8, chain)
			runs++
			isFiltered := lg.name != "plain" && lg.name != "context"
			if !isFiltered && size > largeLineBound {
				beyond++
				if a == 0 {
					beyondFree++
				}
				continue
			}
			if !isFiltered && size > maxDemanded {
				maxDemanded = size
			}
			if a != 0 {
				c.Violate(Violation{Key: "fast-path-allocates", Monitor: "allocs-per-run-large-arguments", Desc: fmt.Sprintf("%s logger (%s build): %.1f allocs/op in steady state for a line of %d encoded bytes (within the buffers the pool keeps: at most half of its 64 KiB limit) carrying %s", lg.name, variant, a, size, src),
					Case: map[string]interface{}{"logger": lg.name, "build": variant, "chain": `e := l.Info().Str("k", "v"); ` + src + `; e.Int("n", 1).Msg("m")`, "method": method, "length": n, "encoded_size_of_the_line": size,
						"measured": "the chain is run twice, then testing.AllocsPerRun(8, chain); the argument is built before the measurement"}, Observed: a, Expected: 0})
			}
			c.Count(fmt.Sprintf("large %s %d %s", src, n, lg.name), true)
		}
		c.Hist("large_line_size", sizeBucket(size))
	}
	for _, m := range largeMethods() {
		for _, n := range []int{100, 1000, 3100, 3200, 4000, 5500, 8000, 9400, 13200, 16000} {
			f, src := m.mk(n, true)
			measure(m.name, src, n, f)
		}
		for _, n := range []int{100, 500, 1000, 1500} {
			f, src := m.mk(n, false)
			measure(m.name, src, n, f)
		}
	}
	for _, m := range largeBlobMethods() {
		for _, n := range []int{1000, 4000, 7000, 15000, 30000} {
			f, src := m.mk(n, true)
			measure(m.name, src, n, f)
		}
	}
	// a long context (copied into every event) with a short event, and several long slices in one line
	for _, n := range []int{1000, 3200, 8000} {
		v := make([]int, n)
		u := make([]uint64, n)
		for i := range v {
			v[i], u[i] = i%10, uint64(i%10)
		}
		big := zerolog.New(io.Discard).With().Ints("c", v).Logger()
		bigSized := zerolog.New(w).With().Ints("c", v).Logger()
		for _, ch := range []struct {
			name, src string
			l, sz     *zerolog.Logger
			f         func(l *zerolog.Logger)
		}{
			{"long-context", fmt.Sprintf(`l := New(w).With().Ints("c", %d one-digit values).Logger(); l.Info().Str("k", "v").Msg("m")`, n), &big, &bigSized, func(l *zerolog.Logger) { l.Info().Str("k", "v").Msg("m") }},
			{"long-context-and-slice", fmt.Sprintf(`l := New(w).With().Ints("c", %d one-digit values).Logger(); l.Info().Uints64("u", %d one-digit values).Msg("m")`, n, n), &big, &bigSized, func(l *zerolog.Logger) { l.Info().Uints64("u", u).Msg("m") }},
			{"two-slices", fmt.Sprintf(`l.Info().Ints("a", %d one-digit values).Uints64("b", %d one-digit values).Msg("m")`, n, n), &plain, &sizer, func(l *zerolog.Logger) { l.Info().Ints("a", v).Uints64("b", u).Msg("m") }},
		} {
			w.last = 0
			ch.f(ch.sz)
			size := w.last
			if size > largeLineBound {
				continue
			}
			chain := func() { ch.f(ch.l) }
			chain()
			chain()
			a := testing.AllocsPerRun(8, chain)
			runs++
			if a != 0 {
				c.Violate(Violation{Key: "fast-path-allocates", Monitor: "allocs-per-run-large-arguments", Desc: fmt.Sprintf("%s (%s build): %.1f allocs/op in steady state for a line of %d encoded bytes (within the buffers the pool keeps)", ch.name, variant, a, size),
					Case: map[string]interface{}{"build": variant, "chain": ch.src, "encoded_size_of_the_line": size, "measured": "the chain is run twice, then testing.AllocsPerRun(8, chain)"}, Observed: a, Expected: 0})
			}
			c.Count(fmt.Sprintf("large %s %d", ch.name, n), true)
		}
	}
	zerolog.VerifResetPools()
	c.Res.ExtraCoverage["large_argument_chains"] = runs
	c.Res.ExtraCoverage["large_argument_largest_demanded_line"] = maxDemanded
	c.Res.ExtraCoverage["large_argument_lines_beyond_32KiB_recorded_only"] = fmt.Sprintf("%d measured, %d of them allocation-free", beyond, beyondFree)
}

func sizeBucket(n int) string {
	switch {
	case n <= 500:
		return "<=500"
	case n <= 4096:
		return "<=4KiB"
	case n <= 16384:
		return "<=16KiB"
	case n <= largeLineBound:
		return "<=32KiB"
	case n <= 65536:
		return "<=64KiB"
	}
	return ">64KiB"
}
