package main

// Directed inputs for C07: "Err/AnErr of a plain error" - for all ERROR VALUES.
//
// Every other stream logs errors.New(..) values (or a one-field pointer type) as "the plain error".  An error value
// has a shape: it may wrap another one (fmt.Errorf("..%w", err): *fmt.wrapError, two %w: *fmt.wrapErrors,
// errors.Join: Unwrap() []error, a user type with an Unwrap method), to any depth, it may be a pointer or a value
// type, its chain may end in (or pass through) a LogObjectMarshaler.  Code in Err / AnErr / Array.Err that LOOKS at
// the shape (errors.As / errors.Is / an Unwrap loop / a type switch on the Unwrap interfaces, a cache keyed by the
// error, a rendering of the chain) costs nothing for errors.New values and allocates for the others (the
// errors.As target escapes, the chain is collected into a slice, the messages are joined ...).
//
// Reading committed to here ("plain error"): a non-nil error value, built BEFORE the measurement, that is not
// itself a LogObjectMarshaler and whose Error() method performs no allocation (it returns a stored string) -
// this is MEASURED per value on the harness side (testing.AllocsPerRun over err.Error()), not assumed: values
// whose Error() allocates (errors.Join, a type that formats on demand) are logged and recorded only.  What the
// value wraps does not matter: the library has to call Error() and copy the bytes, nothing else.  An error that IS
// a pointer LogObjectMarshaler falls under "Object of a pointer marshaler" (0 demanded as well); nil adds no field.
//
// Entry points: Event.Err, Event.AnErr, Logger.Err, both in one line, inside Dict / Func / a pointer marshaler's
// MarshalZerologObject, Array.Err as an Arr() element, and events of a logger whose CONTEXT was built with
// With().Err(err) / AnErr (building the context is not measured: With() allocates by design); loggers: plain,
// context + timestamp hook, Disabled, Info below WarnLevel.  Event.Errs and Fields(map / slice with an error value)
// are not in the property's method set: they are run and their counts recorded, and the only thing demanded of
// them is on the level-filtered loggers (second sentence of the property: zero allocations, nothing written).

import (
	"errors"
	"fmt"
	"io"
	"testing"

	"github.com/rs/zerolog"
	. "verifharness/hlib"
)

// user types ------------------------------------------------------------------------------------------------------
type wrapPtrErr struct { // pointer receiver, Unwrap() error
	msg   string
	cause error
}

func (e *wrapPtrErr) Error() string { return e.msg }
func (e *wrapPtrErr) Unwrap() error { return e.cause }

type wrapValErr struct { // value receiver (boxed once, before the measurement)
	msg   string
	cause error
}

func (e wrapValErr) Error() string { return e.msg }
func (e wrapValErr) Unwrap() error { return e.cause }

type multiErr struct { // Unwrap() []error, stored message
	msg    string
	causes []error
}

func (e *multiErr) Error() string   { return e.msg }
func (e *multiErr) Unwrap() []error { return e.causes }

type codeErr int // a non-pointer, non-struct error with Is / As methods

var codeTexts = [...]string{"code zero", "code one", "code two"}

func (e codeErr) Error() string        { return codeTexts[int(e)%len(codeTexts)] }
func (e codeErr) Is(target error) bool { return false }

type formatsOnDemandErr struct{ n int } // Error() allocates: recorded only

func (e *formatsOnDemandErr) Error() string { return fmt.Sprintf("failure number %d of the day", e.n) }

type marshalerErr struct { // an error that is a pointer LogObjectMarshaler
	code int
	msg  string
}

func (e *marshalerErr) Error() string { return e.msg }
func (e *marshalerErr) MarshalZerologObject(ev *zerolog.Event) {
	ev.Int("code", e.code).Str("msg", e.msg)
}

type wrapsMarshalerErr struct { // a plain error (no marshaler itself) whose cause is a marshaler
	msg   string
	cause *marshalerErr
}

func (e *wrapsMarshalerErr) Error() string { return e.msg }
func (e *wrapsMarshalerErr) Unwrap() error { return e.cause }

type errObj struct{ err error } // a pointer marshaler that logs an error itself

func (o *errObj) MarshalZerologObject(e *zerolog.Event) { e.Err(o.err).AnErr("again", o.err) }

type errShape struct {
	name  string
	src   string
	err   error
	class string // "plain" | "marshaler" | "nil" | "error-allocates" (set by measurement)
}

func errShapes() []errShape {
	base := errors.New("connection reset")
	ptr := &tableErr{"disk \"full\""}
	mar := &marshalerErr{7, "structured"}
	var nilPtr *tableErr
	w1 := fmt.Errorf("read header: %w", base)
	w2 := fmt.Errorf("serve request: %w", w1)
	w3 := fmt.Errorf("handler /x: %w", w2)
	deep := error(base)
	for i := 0; i < 12; i++ {
		deep = fmt.Errorf("level %d: %w", i, deep)
	}
	shapes := []errShape{
		{"errors.New", `errors.New("connection reset")`, base, ""},
		{"ptr-type", `&tableErr{..}`, ptr, ""},
		{"int-type-with-Is", `codeErr(1) (Error() returns a constant; has an Is method)`, codeErr(1), ""},
		{"%w-depth-1", `fmt.Errorf("read header: %w", errors.New(..))`, w1, ""},
		{"%w-depth-2", `fmt.Errorf("serve request: %w", fmt.Errorf("read header: %w", errors.New(..)))`, w2, ""},
		{"%w-depth-3", `fmt.Errorf("handler /x: %w", <%w-depth-2>)`, w3, ""},
		{"%w-depth-12", `12 x fmt.Errorf("level i: %w", ..) around errors.New(..)`, deep, ""},
		{"%w-of-ptr-type", `fmt.Errorf("open: %w", &tableErr{..})`, fmt.Errorf("open: %w", ptr), ""},
		{"%w-twice (wrapErrors)", `fmt.Errorf("%w and %w", errors.New(..), &tableErr{..})`, fmt.Errorf("%w and %w", base, ptr), ""},
		{"%v-not-wrapping", `fmt.Errorf("read header: %v", errors.New(..))`, fmt.Errorf("read header: %v", base), ""},
		{"custom-Unwrap-ptr", `&wrapPtrErr{"ctx", errors.New(..)}`, &wrapPtrErr{"ctx: connection reset", base}, ""},
		{"custom-Unwrap-ptr-nil-cause", `&wrapPtrErr{"ctx", nil} (Unwrap() returns nil)`, &wrapPtrErr{"ctx: nothing below", nil}, ""},
		{"custom-Unwrap-value", `wrapValErr{"ctx", errors.New(..)} (value receiver)`, wrapValErr{"ctx: connection reset", base}, ""},
		{"custom-Unwrap-chain-3", `&wrapPtrErr{.., wrapValErr{.., fmt.Errorf("%w", errors.New(..))}}`, &wrapPtrErr{"a: b: c", wrapValErr{"b: c", fmt.Errorf("c: %w", base)}}, ""},
		{"custom-Unwrap-slice", `&multiErr{"two things", []error{errors.New(..), &tableErr{..}}} (Unwrap() []error, stored message)`, &multiErr{"two things", []error{base, ptr}}, ""},
		{"errors.Join", `errors.Join(errors.New(..), &tableErr{..})`, errors.Join(base, ptr), ""},
		{"%w-of-errors.Join", `fmt.Errorf("batch: %w", errors.Join(..))`, fmt.Errorf("batch: %w", errors.Join(base, ptr)), ""},
		{"formats-on-demand", `&formatsOnDemandErr{3} (Error() calls fmt.Sprintf)`, &formatsOnDemandErr{3}, ""},
		{"marshaler", `&marshalerErr{7, ..} (an error that is a pointer LogObjectMarshaler)`, mar, ""},
		{"%w-of-marshaler", `fmt.Errorf("wrapped: %w", &marshalerErr{..}) (the cause is a marshaler, the value is not)`, fmt.Errorf("wrapped: %w", mar), ""},
		{"%w-%w-of-marshaler", `fmt.Errorf("outer: %w", fmt.Errorf("wrapped: %w", &marshalerErr{..}))`, fmt.Errorf("outer: %w", fmt.Errorf("wrapped: %w", mar)), ""},
		{"custom-Unwrap-of-marshaler", `&wrapsMarshalerErr{"ctx", &marshalerErr{..}}`, &wrapsMarshalerErr{"ctx: structured", mar}, ""},
		{"marshaler-inside-Join-slice", `&multiErr{"m", []error{errors.New(..), &marshalerErr{..}}}`, &multiErr{"m", []error{base, mar}}, ""},
		{"nil", `error(nil)`, nil, ""},
		{"typed-nil-ptr", `(*tableErr)(nil) stored in an error`, nilPtr, ""},
	}
	for i := range shapes {
		s := &shapes[i]
		switch {
		case s.err == nil || s.name == "typed-nil-ptr":
			s.class = "nil"
		default:
			if _, ok := s.err.(zerolog.LogObjectMarshaler); ok {
				s.class = "marshaler"
				continue
			}
			err := s.err
			var sink int
			if a := testing.AllocsPerRun(50, func() { sink += len(err.Error()) }); a != 0 {
				s.class = "error-allocates"
			} else {
				s.class = "plain"
			}
			_ = sink
		}
	}
	return shapes
}

type errEntry struct {
	name, src string
	inSet     bool // part of the property's method set (0 demanded when enabled); false: recorded only when enabled
	mk        func(l *zerolog.Logger, err error) func()
}

func errEntries() []errEntry {
	return []errEntry{
		{"Err", `l.Error().Err(err).Msg("failed")`, true, func(l *zerolog.Logger, err error) func() {
			return func() { l.Error().Err(err).Msg("failed") }
		}},
		{"Err-Send", `l.Info().Str("op", "read").Err(err).Int("n", 3).Send()`, true, func(l *zerolog.Logger, err error) func() {
			return func() { l.Info().Str("op", "read").Err(err).Int("n", 3).Send() }
		}},
		{"AnErr", `l.Info().Str("op", "read").AnErr("cause", err).Int("n", 3).Msg("retry")`, true, func(l *zerolog.Logger, err error) func() {
			return func() { l.Info().Str("op", "read").AnErr("cause", err).Int("n", 3).Msg("retry") }
		}},
		{"Err-and-AnErr-twice", `l.Warn().Err(err).AnErr("a", err).AnErr("b", err).Msg("m")`, true, func(l *zerolog.Logger, err error) func() {
			return func() { l.Warn().Err(err).AnErr("a", err).AnErr("b", err).Msg("m") }
		}},
		{"Logger.Err", `l.Err(err).Msg("failed")   (Error level, or Info when err == nil)`, true, func(l *zerolog.Logger, err error) func() {
			return func() { l.Err(err).Msg("failed") }
		}},
		{"Dict.Err", `l.Info().Dict("d", Dict().Err(err).AnErr("cause", err)).Msg("m")`, true, func(l *zerolog.Logger, err error) func() {
			return func() { l.Info().Dict("d", zerolog.Dict().Err(err).AnErr("cause", err)).Msg("m") }
		}},
		{"Func.Err", `l.Info().Func(func(e *Event) { e.Err(err) }).Msg("m")   (the closure is built before the measurement)`, true, func(l *zerolog.Logger, err error) func() {
			fn := func(e *zerolog.Event) { e.Err(err) }
			return func() { l.Info().Func(fn).Msg("m") }
		}},
		{"Object.Err", `l.Info().Object("o", &errObj{err}).Msg("m")   (MarshalZerologObject calls e.Err(err).AnErr("again", err))`, true, func(l *zerolog.Logger, err error) func() {
			o := &errObj{err}
			return func() { l.Info().Object("o", o).Msg("m") }
		}},
		{"Array.Err", `l.Info().Array("errs", Arr().Err(err).Str("x").Err(err)).Msg("m")`, true, func(l *zerolog.Logger, err error) func() {
			return func() { l.Info().Array("errs", zerolog.Arr().Err(err).Str("x").Err(err)).Msg("m") }
		}},
		{"Context.Err", `c := l.With().Err(err).AnErr("cause", err).Logger()  (not measured); c.Info().Str("k", "v").Msg("m")`, true, func(l *zerolog.Logger, err error) func() {
			c := l.With().Err(err).AnErr("cause", err).Logger()
			return func() { c.Info().Str("k", "v").Msg("m") }
		}},
		{"Errs", `l.Info().Errs("errs", []error{err, err}).Msg("m")   (the slice is built before the measurement)`, false, func(l *zerolog.Logger, err error) func() {
			es := []error{err, err}
			return func() { l.Info().Errs("errs", es).Msg("m") }
		}},
		{"Fields-slice", `l.Info().Fields([]interface{}{"cause", err}).Msg("m")   (the slice is built before the measurement)`, false, func(l *zerolog.Logger, err error) func() {
			fs := []interface{}{"cause", err}
			return func() { l.Info().Fields(fs).Msg("m") }
		}},
		{"Fields-map", `l.Info().Fields(map[string]interface{}{"cause": err}).Msg("m")   (the map is built before the measurement)`, false, func(l *zerolog.Logger, err error) func() {
			fs := map[string]interface{}{"cause": err}
			return func() { l.Info().Fields(fs).Msg("m") }
		}},
	}
}

func errorShapes(c *Ctx, variant string) {
	shapes := errShapes()
	entries := errEntries()
	plain := zerolog.New(io.Discard)
	withCtx := zerolog.New(io.Discard).With().Str("svc", "x").Int("n", 1).Timestamp().Logger()
	disabled := zerolog.New(io.Discard).Level(zerolog.Disabled)
	fatalOnly := zerolog.New(io.Discard).Level(zerolog.FatalLevel)
	loggers := []struct {
		name     string
		l        *zerolog.Logger
		filtered bool
	}{{"plain", &plain, false}, {"context", &withCtx, false}, {"filtered (Disabled)", &disabled, true}, {"filtered (below FatalLevel)", &fatalOnly, true}}
	runs := 0
	recorded := map[string]float64{}
	classes := map[string]string{}
	for si := range shapes {
		sh := &shapes[si]
		classes[sh.name] = sh.class
		for ei := range entries {
			en := &entries[ei]
			for _, lg := range loggers {
				f := en.mk(lg.l, sh.err)
				for k := 0; k < 3; k++ {
					f()
				}
				a := testing.AllocsPerRun(100, f)
				runs++
				// what the property promises for this combination
				// (a Dict() / Arr() is filled by the caller before the filtered event sees it: Dict().Err(err) calls err.Error()
				// whatever the level, so an Error() that allocates is the value's cost there too)
				standalone := en.name == "Dict.Err" || en.name == "Array.Err"
				// Array.Err(nil) (an untyped nil) is rendered by Array.Interface(nil) = encoding/json: not in the method set, recorded only
				valueCost := sh.class == "error-allocates" || (en.name == "Array.Err" && sh.err == nil)
				demanded := (lg.filtered && !(standalone && valueCost)) || (!lg.filtered && en.inSet && !valueCost)
				if !demanded {
					if !lg.filtered && lg.name == "plain" {
						recorded[en.name+" / "+sh.name] = a
					}
					c.Count("err-shape recorded "+sh.name+" "+en.name+" "+lg.name, false)
					continue
				}
				if a != 0 {
					what := "Err/AnErr of a plain error"
					switch sh.class {
					case "marshaler":
						what = "Err/AnErr of an error that is a pointer LogObjectMarshaler (Object of a pointer marshaler)"
					case "nil":
						what = "Err/AnErr of a nil error (no field)"
					}
					if lg.filtered {
						what = "a call chain on a level-filtered logger"
					}
					c.Violate(Violation{Key: "fast-path-allocates", Monitor: "allocs-per-run-error-shapes", Desc: fmt.Sprintf("%s logger (%s build): %.1f allocs/op for %s via %s with err = %s (%s; built before the measurement, err.Error() itself measured at 0 allocations)", lg.name, variant, a, what, en.name, sh.name, sh.class),
						Case: map[string]interface{}{"logger": lg.name, "chain": en.src, "entry": en.name, "err": sh.src, "err_shape": sh.name, "err_class": sh.class, "build": variant, "measured": "testing.AllocsPerRun(100, chain) after 3 warm-up calls; the error value, slices and closures exist before"}, Observed: a, Expected: 0})
				}
				c.Count("err-shape "+sh.name+" "+en.name+" "+lg.name, sh.class == "plain" && sh.name != "errors.New" && sh.name != "ptr-type")
			}
		}
	}
	c.Res.ExtraCoverage["error_shape_chains"] = runs
	c.Res.ExtraCoverage["error_shape_classes"] = classes
	c.Res.ExtraCoverage["error_shape_recorded_only_allocs_plain_logger"] = recorded
}
