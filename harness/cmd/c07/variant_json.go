//go:build !binary_log

package main

func isBinary() bool { return false }
