package main

// Long lines for C15.  The property quantifies over "all line contents without
// interior newlines": nothing bounds the length of a line, so the framing of the
// hold buffer must carry a line of any length.  This sweep holds (and passes
// through) lines whose length sits at and around every power-of-two boundary a
// narrower length/offset field would wrap at (uint8, int16, uint16, 17/18 bits,
// 2^20), at the buffer reuse limit, and at the total-buffer sizes around the
// reuse limit, in every position relative to the release (first / middle / last
// held line, the triggering line itself, a pass-through line while others are
// held, after the trigger, before a Close).  The histories are judged by the same
// declarative monitor as every other history (monitors.go); only the short ones
// (2^8 neighbourhood) also go to the Coq model (a 64 KiB line as a Gallina list
// literal costs many seconds to parse and the model has no length-dependent behaviour).

import (
	"fmt"

	"github.com/rs/zerolog"
	. "verifharness/hlib"
)

// longLine: n bytes in all (n >= 1), the last one '\n', position-dependent content
// (a fragment, a shifted or a repeated chunk never equals the original), no byte 10.
func longLine(n int, salt int) []byte {
	p := make([]byte, n)
	for i := 0; i < n-1; i++ {
		b := byte(32 + (i*7+i/251+salt*13)%95)
		if i%4093 == 17 {
			b = byte(128 + (i/4093+salt)%128) // high bytes too
		}
		if i%8191 == 5 {
			b = byte((i/8191 + salt) % 10) // and small ones 0..9, which look like plausible level bytes
		}
		p[i] = b
	}
	p[n-1] = '\n'
	return p
}

// longKey: a short stand-in for the case text (Count keys are kept in memory).
func longKey(cs *caseT) string {
	s := fmt.Sprintf("long|%d|%d|%v", cs.Cond, cs.Trig, cs.LW)
	for _, o := range cs.Ops {
		h := 0
		for i := 0; i < len(o.Line); i += 97 {
			h = h*31 + int(o.Line[i])
		}
		s += fmt.Sprintf("|%s%d:%d:%d", o.Kind, o.Level, len(o.Line), h&0xffff)
	}
	return s
}

const longModelLimit = 1500 // histories with at most this many line bytes in all also go to the model

func runLongLines(c *Ctx) {
	c.OpenShards("From Verif Require Import Base.Prelude Misc.Level Lts.Trigger Harness.C15H.\nOpen Scope Z_scope.",
		"(tcfg * script * list op) * list (list dcall * mret)", "mismatches c15_run c15_eqb", 20)
	ncases, nmodel, maxLen := 0, 0, 0
	emitLong := func(cs *caseT, group string) {
		obs := runCase(cs)
		nt := monitorCase(c, cs, obs)
		longest, total := 0, 0
		for _, o := range cs.Ops {
			total += len(o.Line)
			if len(o.Line) > longest {
				longest = len(o.Line)
			}
		}
		if longest > maxLen {
			maxLen = longest
		}
		if total <= longModelLimit {
			c.AddCase(caseTerm(cs, obs), caseJSON(cs, obs))
			nmodel++
		}
		c.Count(longKey(cs), nt)
		c.Hist("group", group)
		c.Hist("longest_line_log2", fmt.Sprint(log2(longest)))
		ncases++
	}
	w := func(l int, p []byte) opT { return opT{Kind: "w", Level: l, Line: p} }
	short := func(tag string) []byte { return []byte(tag + "\n") }

	limit := zerolog.TriggerLevelWriterBufferReuseLimit
	// total line lengths (including the newline)
	var lens []int
	add := func(xs ...int) {
	next:
		for _, x := range xs {
			if x < 1 {
				continue
			}
			for _, y := range lens {
				if x == y {
					continue next
				}
			}
			lens = append(lens, x)
		}
	}
	for _, b := range []int{1 << 8, 1 << 15, 1 << 16, 1 << 17} {
		// around the boundary for the line, for the line plus a 1..4 byte header, and for the body without '\n'
		add(b-4, b-3, b-2, b-1, b, b+1, b+2)
	}
	add(1000, 1024, 1025, 4096, 5000, 70000, 100000, 3<<16, 3<<16+1, 1<<18, 1<<18+1, 1<<20, 1<<20+1)
	add(limit-2, limit-1, limit, limit+1, 2*limit, 2*limit+1)
	if c.Thorough() {
		add(1<<24, 1<<24+1)
	}

	type pairT struct{ cond, trig, held, fire, pass int }
	pairs := []pairT{
		{0, 3, 0, 3, 1},          // the documented use
		{127, 127, -128, 127, 0}, // everything held until 127 (pass: none above 127, use a held one)
		{-1, 0, -1, 0, 0},        // negative ConditionalLevel; the pass line fires: covered by shape "fire-long"
	}
	for li, L := range lens {
		pr := pairs[li%len(pairs)]
		lw := li%4 != 3
		long := longLine(L, li)
		mk := func(ops ...opT) *caseT {
			return &caseT{Cond: pr.cond, Trig: pr.trig, LW: lw, Ops: ops}
		}
		// long line held in the middle, released by a trigger-level line
		emitLong(mk(w(pr.held, short("before")), w(pr.held, long), w(pr.held, short("after")), w(pr.held, short("after2")), w(pr.fire, short("fire")), w(pr.held, short("later"))), "long-lines")
		// long line held first, released by Trigger()
		emitLong(mk(w(pr.held, long), w(pr.held, short("after")), opT{Kind: "t"}, w(pr.held, short("later"))), "long-lines")
		// long line held last; the triggering line is long too
		emitLong(mk(w(pr.held, short("before")), w(pr.held, long), w(pr.fire, longLine(L, li+1)), w(pr.held, longLine(L, li+2))), "long-lines")
		// two long lines held in a row, different contents, the destination kind flipped
		cs := mk(w(pr.held, long), w(pr.held, longLine(L, li+3)), w(pr.held, short("tail")), opT{Kind: "t"})
		cs.LW = !lw
		emitLong(cs, "long-lines")
		// long line held, then Close (dropped), then a short one held and released: only the short one
		emitLong(mk(w(pr.held, long), opT{Kind: "c"}, w(pr.held, short("kept")), w(pr.fire, short("fire"))), "long-lines")
		if pr.pass > pr.cond && pr.pass < pr.trig {
			// long line passes through while others are held; then the release
			emitLong(mk(w(pr.held, short("h1")), w(pr.pass, long), w(pr.held, short("h2")), w(pr.fire, short("fire"))), "long-lines")
		}
	}

	// total buffer content around the reuse limit and around 2^16, built from many lines: the
	// release must deliver all of them, and the writer that gets the pooled buffer next (runCase
	// closes the writer, the following case draws from the pool) must release only its own lines
	for ti, total := range []int{limit - 3, limit - 2, limit - 1, limit, limit + 1, limit + 2, limit + 3, 2 * limit, 2*limit + 1} {
		for _, per := range []int{64, 1000, 4093} {
			mkFill := func() []opT {
				var ops []opT
				used := 0
				for k := 0; used < total; k++ {
					n := per
					if used+1+n > total { // one level byte per held line in the present framing
						n = total - used - 1
					}
					if n < 1 {
						n = 1
					}
					ops = append(ops, w(0, longLine(n, ti*1000+k)))
					used += 1 + n
				}
				return ops
			}
			a := &caseT{Cond: 0, Trig: 3, LW: true, Ops: append(mkFill(), w(3, short("fire")), w(0, short("later")))}
			emitLong(a, "buffer-total-at-limit")
			emitLong(&caseT{Cond: 0, Trig: 3, LW: true, Ops: []opT{w(0, short("own1")), w(0, short("own2")), opT{Kind: "t"}}}, "buffer-total-at-limit")
			b := &caseT{Cond: 0, Trig: 3, LW: ti%2 == 0, Ops: append(mkFill(), opT{Kind: "c"}, w(0, short("after-close")), opT{Kind: "t"})}
			emitLong(b, "buffer-total-at-limit")
			emitLong(&caseT{Cond: 0, Trig: 3, LW: true, Ops: []opT{w(0, short("own3")), w(3, short("fire"))}}, "buffer-total-at-limit")
		}
	}

	// random histories with a few long lines among short ones
	nrand := 40
	if c.Thorough() {
		nrand = 600
	}
	for i := 0; i < nrand; i++ {
		r := c.R.Fork()
		cs := &caseT{Cond: 0, Trig: 3, LW: !r.Chance(25)}
		if r.Chance(40) {
			cs.Cond, cs.Trig = c15levels[r.Intn(len(c15levels))], c15levels[r.Intn(len(c15levels))]
		}
		cs.Ops = genHistory(r, 2+r.Intn(12), 10)
		nlong := 0
		for j := range cs.Ops {
			if cs.Ops[j].Kind == "w" && (r.Chance(25) || (nlong == 0 && j == len(cs.Ops)/2)) {
				L := lens[r.Intn(len(lens))]
				if L > 1<<18+1 {
					L = 1<<16 + r.Intn(1<<16)
				}
				if r.Chance(30) {
					L = 1<<16 - 8 + r.Intn(16)
				}
				cs.Ops[j].Line = longLine(L, i*100+j)
				if r.Chance(60) {
					cs.Ops[j].Level = cs.Cond // held unless the trigger has happened or it fires
				}
				nlong++
			}
		}
		emitLong(cs, "long-lines-random")
	}
	c.Res.ExtraCoverage["long_line_histories"] = ncases
	c.Res.ExtraCoverage["long_line_histories_model_evaluated"] = nmodel
	c.Res.ExtraCoverage["long_line_lengths"] = lens
	c.Res.ExtraCoverage["long_line_max_bytes"] = maxLen
}

func log2(n int) int {
	k := 0
	for n > 1 {
		n >>= 1
		k++
	}
	return k
}
