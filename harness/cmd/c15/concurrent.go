package main

// Concurrent runs for C15: several goroutines write through one real
// TriggerLevelWriter.  Every line is unique, so the destination log can be
// checked for loss, duplication and alteration; and a sequential history is
// reconstructed from the log (the order of the pass-through lines and the order
// of the released lines are both lock orders) that must respect every
// goroutine's program order.  That history goes to the Coq model, which must
// predict the destination log from it.

import (
	"fmt"
	"runtime"
	"sync"

	"github.com/rs/zerolog"
	. "verifharness/hlib"
)

type cwrite struct {
	g, seq, level int
	line          []byte
}

type safeRecorder struct {
	mu    sync.Mutex
	calls []dcallT
}

func (r *safeRecorder) Write(p []byte) (int, error) {
	r.mu.Lock()
	r.calls = append(r.calls, dcallT{Bytes: append([]byte(nil), p...)})
	r.mu.Unlock()
	return len(p), nil
}
func (r *safeRecorder) WriteLevel(l zerolog.Level, p []byte) (int, error) {
	r.mu.Lock()
	r.calls = append(r.calls, dcallT{HasLevel: true, Level: int(l), Bytes: append([]byte(nil), p...)})
	r.mu.Unlock()
	return len(p), nil
}

type concCase struct {
	Cond, Trig int
	G, K       int
	Explicit   bool // a further goroutine calls Trigger()
	Levels     []int
	progs      [][]cwrite
}

// explain reconstructs a sequential history for the destination log, or names the violation.
func explain(cc *concCase, D []dcallT) (seq []opT, key, desc string) {
	byLine := map[string]*cwrite{}
	total := 0
	for g := range cc.progs {
		for i := range cc.progs[g] {
			byLine[string(cc.progs[g][i].line)] = &cc.progs[g][i]
			total++
		}
	}
	seen := map[string]bool{}
	ws := make([]*cwrite, len(D))
	for i, d := range D {
		w, ok := byLine[string(d.Bytes)]
		if !ok {
			return nil, "concurrent-line-altered", fmt.Sprintf("the destination received %q, which nobody wrote", d.Bytes)
		}
		if seen[string(d.Bytes)] {
			return nil, "concurrent-line-duplicated", fmt.Sprintf("line %q arrived twice", d.Bytes)
		}
		seen[string(d.Bytes)] = true
		if !d.HasLevel || d.Level != w.level {
			return nil, "concurrent-level-altered", fmt.Sprintf("line %q written at level %d arrived with level %d", d.Bytes, w.level, d.Level)
		}
		ws[i] = w
	}
	next := make([]int, len(cc.progs)) // per goroutine: number of its lines already placed
	eligible := func(w *cwrite) bool { return next[w.g] == w.seq }
	place := func(w *cwrite) {
		next[w.g]++
		seq = append(seq, opT{Kind: "w", Level: w.level, Line: w.line})
	}
	jTrig := -1
	if !cc.Explicit {
		for i, w := range ws {
			if w.level >= cc.Trig {
				jTrig = i
				break
			}
		}
	}
	if !cc.Explicit && jTrig < 0 {
		// never triggered: exactly the lines above ConditionalLevel, each placed after the
		// (held) lines its goroutine wrote before it
		for _, w := range ws {
			if w.level <= cc.Cond {
				return nil, "concurrent-held-line-written-before-trigger", fmt.Sprintf("line %q (level %d) was written although the trigger never happened", w.line, w.level)
			}
			for next[w.g] < w.seq {
				p := &cc.progs[w.g][next[w.g]]
				if p.level > cc.Cond {
					return nil, "concurrent-program-order", fmt.Sprintf("goroutine %d: line %q overtook its earlier pass-through line %q", w.g, w.line, p.line)
				}
				place(p)
			}
			place(w)
		}
		for g := range cc.progs {
			for next[g] < len(cc.progs[g]) {
				p := &cc.progs[g][next[g]]
				if p.level > cc.Cond {
					return nil, "concurrent-line-lost", fmt.Sprintf("line %q (level %d, above ConditionalLevel) never reached the destination", p.line, p.level)
				}
				place(p)
			}
		}
		return seq, "", ""
	}
	if len(D) != total {
		for _, w := range byLine {
			if !seen[string(w.line)] {
				return nil, "concurrent-line-lost", fmt.Sprintf("line %q never reached the destination although the trigger happened and all writers returned", w.line)
			}
		}
	}
	i := len(ws)
	for k, w := range ws {
		if w.level <= cc.Cond {
			i = k
			break
		}
	}
	try := func(j int, trigLine bool) bool {
		for g := range next {
			next[g] = 0
		}
		seq = seq[:0]
		P, H := ws[:i], ws[i:j]
		for len(P) > 0 || len(H) > 0 {
			switch {
			case len(P) > 0 && eligible(P[0]):
				place(P[0])
				P = P[1:]
			case len(H) > 0 && eligible(H[0]):
				place(H[0])
				H = H[1:]
			default:
				return false
			}
		}
		if !trigLine {
			seq = append(seq, opT{Kind: "t"})
		}
		for _, w := range ws[j:] {
			if !eligible(w) {
				return false
			}
			place(w)
		}
		return true
	}
	if !cc.Explicit {
		if i > jTrig {
			i = jTrig
		}
		for _, w := range ws[i:jTrig] {
			if w.level > cc.Cond {
				return nil, "concurrent-release-interleaved", fmt.Sprintf("line %q (above ConditionalLevel) arrived in the middle of the released block", w.line)
			}
		}
		if !try(jTrig, true) {
			return nil, "concurrent-no-sequential-explanation", "no sequential order of the writes that respects every goroutine's program order explains the destination log"
		}
		return seq, "", ""
	}
	end := i
	for end < len(ws) && ws[end].level <= cc.Cond {
		end++
	}
	for j := end; j >= i; j-- {
		if try(j, false) {
			return seq, "", ""
		}
	}
	return nil, "concurrent-no-sequential-explanation", "no position of the Trigger() call and no sequential order of the writes that respects every goroutine's program order explains the destination log"
}

func runConcurrent(c *Ctx) {
	c.OpenShards("From Verif Require Import Base.Prelude Misc.Level Lts.Trigger Harness.C15H.\nOpen Scope Z_scope.",
		"(tcfg * script * list op) * list dcall", "mismatches c15_log c15_log_eqb", 8)
	runs, triggered, interleaved := 0, 0, 0
	reps := 3
	if c.Thorough() {
		reps = 60
	}
	shapes := []concCase{
		{Cond: 0, Trig: 3, Levels: []int{-1, 0, 0, 0, 1, 1, 2, 0, -1, 1, 0, 0, 0, 1, 0, 2, 0, 0, 1, 3}},            // a line triggers, somewhere
		{Cond: 0, Trig: 3, Levels: []int{-1, 0, 0, 1, 2, 1, 0}, Explicit: true},                                   // Trigger() from a further goroutine
		{Cond: 0, Trig: 3, Levels: []int{-1, 0, 1, 2}},                                                            // never triggered
		{Cond: 2, Trig: 1, Levels: []int{-1, 0, 0, 0, 0, 0, 0, 0, -128, 0, 0, 0, 1}},                              // TriggerLevel below ConditionalLevel
		{Cond: 127, Trig: 127, Levels: []int{-128, -1, 0, 9, 11, 126, 5, 5, 5, 5, 5, 5, 5, 5, 5, 5, 5, 5, 5, 127}}, // everything held until 127
		{Cond: -128, Trig: 0, Levels: []int{-128, -128, -1, -2, -128, -1, -128, -128, -128, -128, -128, 0}},
	}
	for _, sh := range shapes {
		for _, G := range []int{2, 4, 8} {
			for rep := 0; rep < reps; rep++ {
				r := c.R.Fork()
				cc := sh
				cc.G, cc.K = G, 10+r.Intn(20)
				cc.progs = make([][]cwrite, G)
				for g := 0; g < G; g++ {
					for s := 0; s < cc.K; s++ {
						pad := genLine(r, 3)
						line := append([]byte(fmt.Sprintf("g%d-%d:", g, s)), pad...)
						cc.progs[g] = append(cc.progs[g], cwrite{g, s, cc.Levels[r.Intn(len(cc.Levels))], line})
					}
				}
				rec := &safeRecorder{}
				w := &zerolog.TriggerLevelWriter{Writer: rec, ConditionalLevel: zerolog.Level(cc.Cond), TriggerLevel: zerolog.Level(cc.Trig)}
				var wg sync.WaitGroup
				start := make(chan struct{})
				var errMu sync.Mutex
				var firstErr string
				for g := 0; g < G; g++ {
					wg.Add(1)
					gr := r.Fork()
					go func(g int) {
						defer wg.Done()
						defer func() { // a panic out of WriteLevel is a violation, not a driver crash
							if p := recover(); p != nil {
								errMu.Lock()
								if firstErr == "" {
									firstErr = fmt.Sprintf("goroutine %d: WriteLevel panicked: %v", g, p)
								}
								errMu.Unlock()
							}
						}()
						<-start
						for _, x := range cc.progs[g] {
							n, err := w.WriteLevel(zerolog.Level(x.level), x.line)
							if err != nil || n != len(x.line) {
								errMu.Lock()
								if firstErr == "" {
									firstErr = fmt.Sprintf("WriteLevel(%d, %q) returned (%d, %v)", x.level, x.line, n, err)
								}
								errMu.Unlock()
							}
							if gr.Intn(3) == 0 {
								runtime.Gosched()
							}
						}
					}(g)
				}
				if cc.Explicit {
					wg.Add(1)
					gr := r.Fork()
					go func() {
						defer wg.Done()
						defer func() {
							if p := recover(); p != nil {
								errMu.Lock()
								if firstErr == "" {
									firstErr = fmt.Sprintf("Trigger panicked: %v", p)
								}
								errMu.Unlock()
							}
						}()
						<-start
						for k := gr.Intn(40); k > 0; k-- {
							runtime.Gosched()
						}
						if err := w.Trigger(); err != nil {
							errMu.Lock()
							firstErr = "Trigger returned " + err.Error()
							errMu.Unlock()
						}
					}()
				}
				close(start)
				wg.Wait()
				D := append([]dcallT{}, rec.calls...)
				closeQuietly(w)
				runs++
				cs := &caseT{Cond: cc.Cond, Trig: cc.Trig, LW: true}
				info := map[string]interface{}{"conditional_level": cc.Cond, "trigger_level": cc.Trig, "goroutines": G, "lines_each": cc.K, "explicit_trigger": cc.Explicit}
				jd := make([]map[string]interface{}, len(D))
				for i, d := range D {
					jd[i] = map[string]interface{}{"level": d.Level, "bytes": string(d.Bytes)}
				}
				progsJ := make([][]map[string]interface{}, G)
				for g := range cc.progs {
					for _, x := range cc.progs[g] {
						progsJ[g] = append(progsJ[g], map[string]interface{}{"level": x.level, "line": string(x.line)})
					}
				}
				info["programs"] = progsJ
				if firstErr != "" {
					c.Violate(Violation{Key: "concurrent-method-error", Monitor: "concurrent", Desc: firstErr, Case: info, Observed: jd})
					continue
				}
				seq, key, desc := explain(&cc, D)
				if key != "" {
					c.Violate(Violation{Key: key, Monitor: "concurrent", Desc: desc, Case: info, Observed: jd})
					continue
				}
				// the reconstructed history, run through the Go specification, must give the log
				sp := &specT{cond: cc.Cond, trig: cc.Trig}
				var exp []lineT
				switches := 0
				lastG := -1
				for _, o := range seq {
					exp = append(exp, sp.apply(o)...)
					if o.Kind == "w" {
						var g int
						fmt.Sscanf(string(o.Line), "g%d-", &g)
						if g != lastG {
							switches++
							lastG = g
						}
					}
				}
				if k, d := classify(exp, D, true, false); k != "" {
					c.Violate(Violation{Key: "concurrent-log-not-explained", Monitor: "concurrent", Desc: "the reconstructed sequential history does not reproduce the destination log: " + d, Case: info, Observed: jd})
					continue
				}
				if sp.fired {
					triggered++
				}
				if switches > G {
					interleaved++
				}
				cs.Ops = seq
				term := fmt.Sprintf("(%s,%s)", inputCoq(cs), callsCoq(D))
				j := caseJSON(cs, nil)
				j["destination_log"] = jd
				j["concurrent"] = info
				c.AddCase(term, j)
				c.Count(term, switches > G && len(D) > 0)
				c.Hist("group", "concurrent")
				c.Hist("concurrent_goroutines", fmt.Sprint(G))
			}
		}
	}
	c.Res.ExtraCoverage["concurrent_runs"] = runs
	c.Res.ExtraCoverage["concurrent_runs_triggered"] = triggered
	c.Res.ExtraCoverage["concurrent_runs_really_interleaved"] = interleaved
}
