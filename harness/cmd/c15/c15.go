package main

// C15 - TriggerLevelWriter holds back, releases and orders lines as specified.
//
// The REAL zerolog.TriggerLevelWriter is run over a recording destination
// (LevelWriter or plain io.Writer) on histories of WriteLevel / Trigger / Close.
// Observed per operation: the destination calls made during it (level, bytes)
// and its result.  Correspondence: the Coq model (Lts/Trigger.v, run) must
// predict exactly these observations.  Monitors (monitors.go): the declarative
// specification re-implemented in Go, applied operation by operation; for the
// concurrent runs (concurrent.go) the destination log must be explained by a
// sequential order that respects every goroutine's program order.

import (
	"fmt"
	"io"
	"strings"

	"github.com/rs/zerolog"
	"verifharness/hlib"
	. "verifharness/hlib"
)

func main() { hlib.Main(map[string]func(*hlib.Ctx){"C15": runC15}) }

type opT struct {
	Kind  string `json:"op"` // w | t | c
	Level int    `json:"level,omitempty"`
	Line  []byte `json:"-"`
	Text  string `json:"line,omitempty"`
	Len   int    `json:"line_bytes,omitempty"` // filled for long lines only (readability of replays)
}

type caseT struct {
	Cond   int   `json:"conditional_level"`
	Trig   int   `json:"trigger_level"`
	LW     bool  `json:"dest_is_levelwriter"`
	Script []int `json:"dest_script,omitempty"` // per destination call: -1 ok, e >= 0 error value e
	Ops    []opT `json:"ops"`
}

type dcallT struct {
	HasLevel bool   `json:"has_level"`
	Level    int    `json:"level"`
	Bytes    []byte `json:"-"`
	Text     string `json:"bytes"`
}

type obsT struct {
	Calls []dcallT `json:"calls"`
	Ret   string   `json:"ret"` // ok | err | panic
	N     int      `json:"n"`
	E     int      `json:"e,omitempty"`
}

var errTab [64]error

func init() {
	for i := range errTab {
		errTab[i] = fmt.Errorf("verif-dest-error-%d", i)
	}
}

func errID(err error) int {
	for i, e := range errTab {
		if e == err {
			return i
		}
	}
	return 9999
}

type recorder struct {
	calls  []dcallT
	script []int
	idx    int
	// max > 0: the largest number of destination calls the whole history can possibly cause (every byte of
	// every line its own call, plus slack).  A writer that goes beyond it is in a loop (e.g. a release loop that
	// does not advance on an unterminated line): the destination stops it by panicking, which doOp records as
	// the operation's outcome, instead of the driver being killed for memory with every earlier verdict lost.
	max int
}

// floodT is what the recording destination panics with when it is flooded
type floodT struct{ calls int }

var (
	floodCount int
	floodFirst string
)

func (r *recorder) record(hasLevel bool, l zerolog.Level, p []byte) (int, error) {
	if r.max > 0 && len(r.calls) >= r.max {
		panic(floodT{len(r.calls)})
	}
	r.calls = append(r.calls, dcallT{HasLevel: hasLevel, Level: int(l), Bytes: append([]byte(nil), p...)})
	o := -1
	if r.idx < len(r.script) {
		o = r.script[r.idx]
	}
	r.idx++
	if o >= 0 {
		return 0, errTab[o]
	}
	return len(p), nil
}

type recLW struct{ r *recorder }

func (d recLW) Write(p []byte) (int, error) { return d.r.record(false, 0, p) }
func (d recLW) WriteLevel(l zerolog.Level, p []byte) (int, error) {
	return d.r.record(true, l, p)
}

type recW struct{ r *recorder }

func (d recW) Write(p []byte) (int, error) { return d.r.record(false, 0, p) }

func newWriter(cs *caseT, r *recorder) *zerolog.TriggerLevelWriter {
	var dest io.Writer
	if cs.LW {
		dest = recLW{r}
	} else {
		dest = recW{r}
	}
	return &zerolog.TriggerLevelWriter{Writer: dest, ConditionalLevel: zerolog.Level(cs.Cond), TriggerLevel: zerolog.Level(cs.Trig)}
}

func doOp(w *zerolog.TriggerLevelWriter, o opT) (res obsT) {
	defer func() {
		if r := recover(); r != nil {
			res = obsT{Ret: "panic"}
			if f, ok := r.(floodT); ok {
				floodCount++
				if floodFirst == "" {
					floodFirst = fmt.Sprintf("operation %s (level %d, line %q) made the destination receive more than %d calls", o.Kind, o.Level, o.Line, f.calls)
				}
			}
		}
	}()
	var n int
	var err error
	switch o.Kind {
	case "w":
		n, err = w.WriteLevel(zerolog.Level(o.Level), o.Line)
	case "t":
		err = w.Trigger()
	default:
		err = w.Close()
	}
	if err != nil {
		return obsT{Ret: "err", N: n, E: errID(err)}
	}
	return obsT{Ret: "ok", N: n}
}

// closeQuietly: the driver's own clean-up Close (not part of the history) must not crash the driver.
func closeQuietly(w *zerolog.TriggerLevelWriter) {
	defer func() { recover() }()
	w.Close()
}

// runCase runs the history on the real TriggerLevelWriter.
func runCase(cs *caseT) []obsT {
	r := &recorder{script: cs.Script, max: len(cs.Ops) + 16}
	for _, o := range cs.Ops {
		r.max += len(o.Line) + 1
	}
	w := newWriter(cs, r)
	out := make([]obsT, len(cs.Ops))
	for i, o := range cs.Ops {
		before := len(r.calls)
		res := doOp(w, o)
		res.Calls = append([]dcallT{}, r.calls[before:]...)
		out[i] = res
	}
	closeQuietly(w) // hand the buffer back to the pool: the next case reuses it
	return out
}

// ---------------------------------------------------------------- Gallina printers

func zbytes(p []byte) string {
	var b strings.Builder
	b.WriteByte('[')
	for i, x := range p {
		if i > 0 {
			b.WriteByte(';')
		}
		fmt.Fprintf(&b, "%d", x)
	}
	b.WriteByte(']')
	return b.String()
}

func opsCoq(ops []opT) string {
	xs := make([]string, len(ops))
	for i, o := range ops {
		switch o.Kind {
		case "w":
			xs[i] = fmt.Sprintf("W %s %s", CoqZ(int64(o.Level)), zbytes(o.Line))
		case "t":
			xs[i] = "T"
		default:
			xs[i] = "C"
		}
	}
	return CoqList(xs)
}

func callsCoq(cs []dcallT) string {
	xs := make([]string, len(cs))
	for i, c := range cs {
		if c.HasLevel {
			xs[i] = fmt.Sprintf("L %s %s", CoqZ(int64(c.Level)), zbytes(c.Bytes))
		} else {
			xs[i] = "P " + zbytes(c.Bytes)
		}
	}
	return CoqList(xs)
}

func inputCoq(cs *caseT) string {
	sc := make([]string, len(cs.Script))
	for i, e := range cs.Script {
		if e < 0 {
			sc[i] = "None"
		} else {
			sc[i] = fmt.Sprintf("Some %d%%N", e)
		}
	}
	return fmt.Sprintf("(Build_tcfg %s %s %s,%s,%s)", CoqZ(int64(cs.Cond)), CoqZ(int64(cs.Trig)), CoqBool(cs.LW), CoqList(sc), opsCoq(cs.Ops))
}

func caseTerm(cs *caseT, obs []obsT) string {
	xs := make([]string, len(obs))
	for i, o := range obs {
		var r string
		switch o.Ret {
		case "ok":
			r = "ROk " + CoqZ(int64(o.N))
		case "err":
			r = fmt.Sprintf("RErr %s %d%%N", CoqZ(int64(o.N)), o.E)
		default:
			r = "RPanic"
		}
		xs[i] = fmt.Sprintf("(%s,%s)", callsCoq(o.Calls), r)
	}
	return fmt.Sprintf("(%s,%s)", inputCoq(cs), CoqList(xs))
}

func caseJSON(cs *caseT, obs []obsT) map[string]interface{} {
	for i := range cs.Ops {
		cs.Ops[i].Text = string(cs.Ops[i].Line)
		if len(cs.Ops[i].Line) > 200 {
			cs.Ops[i].Len = len(cs.Ops[i].Line)
		}
	}
	for i := range obs {
		for j := range obs[i].Calls {
			obs[i].Calls[j].Text = string(obs[i].Calls[j].Bytes)
		}
	}
	return map[string]interface{}{"case": cs, "observed": obs}
}

// ---------------------------------------------------------------- generation

var c15levels = []int{-128, -1, 0, 3, 9, 11, 127}

func validOp(o opT) bool {
	if o.Kind != "w" {
		return true
	}
	if o.Level == 10 || len(o.Line) == 0 || o.Line[len(o.Line)-1] != '\n' {
		return false
	}
	for _, b := range o.Line[:len(o.Line)-1] {
		if b == '\n' {
			return false
		}
	}
	return true
}

func genLine(r *Rng, maxLen int) []byte {
	n := r.Intn(maxLen + 1)
	p := make([]byte, n+1)
	for i := 0; i < n; i++ {
		b := byte(r.Intn(256))
		switch r.Intn(6) {
		case 0:
			b = []byte{0, 9, 11, 13, 255, 128, 127, '"', '{'}[r.Intn(9)]
		case 1, 2:
			b = byte('a' + r.Intn(26))
		}
		if b == '\n' {
			b = 11
		}
		p[i] = b
	}
	p[n] = '\n'
	return p
}

func genLevel(r *Rng) int {
	var l int
	switch r.Intn(4) {
	case 0:
		l = r.Intn(256) - 128
	case 1:
		l = []int{-128, -127, -2, -1, 0, 1, 9, 11, 12, 126, 127}[r.Intn(11)]
	default:
		l = c15levels[r.Intn(len(c15levels))]
	}
	if l == 10 {
		l = 11
	}
	return l
}

func genHistory(r *Rng, n int, maxLine int) []opT {
	ops := make([]opT, n)
	for i := range ops {
		switch k := r.Intn(100); {
		case k < 84:
			ops[i] = opT{Kind: "w", Level: genLevel(r), Line: genLine(r, maxLine)}
		case k < 91:
			ops[i] = opT{Kind: "t"}
		default:
			ops[i] = opT{Kind: "c"}
		}
	}
	return ops
}

// ---------------------------------------------------------------- driver

func runC15(c *Ctx) {
	c.Res.Rule = "a case is (ConditionalLevel, TriggerLevel, destination kind LevelWriter|io.Writer, history of WriteLevel(level, line)/Trigger/Close); observed = per operation the destination calls made during it (level, bytes) and its result. Bounded-exhaustive: every history of <=4 operations over {W at 7 levels, Trigger, Close} for all 49 threshold pairs from {-128,-1,0,3,9,11,127} is run and monitored (the model evaluates all histories of <=2 operations, a fixed 1/4 of those of 3 and 1/32 of those of 4; thorough: all, and length 5 for 4 pairs); then seeded random histories (<=40 operations, thorough <=80, random int8 levels != 10, random line bytes without interior newline, long lines, both destination kinds), a directed long-line sweep (lines of 2^8, 2^15, 2^16, 2^17 -4..+2, 70000, 100000, 3*2^16, 2^18, 2^20 (+1) bytes and the buffer reuse limit -2..+1, each held first / in the middle / last, as the triggering line, passing through while others are held, after the trigger and before a Close; total held bytes at the reuse limit -3..+3 followed by a writer that draws the pooled buffer; random histories mixing long and short lines; monitored, the model evaluates those with <= 1500 line bytes in all), several writers alive at once sharing the buffer pool, a malformed stream for the correspondence only (level 10, interior newline, unterminated line, failing destination), and concurrent runs. non-trivial = something was held and later released or discarded, and something passed through; distinct by case text"
	c.OpenShards("From Verif Require Import Base.Prelude Misc.Level Lts.Trigger Harness.C15H.\nOpen Scope Z_scope.",
		"(tcfg * script * list op) * list (list dcall * mret)", "mismatches c15_run c15_eqb", 1000)

	emit := func(cs *caseT, group string, toModel bool, sample bool) {
		obs := runCase(cs)
		valid := len(cs.Script) == 0
		for _, o := range cs.Ops {
			if !validOp(o) {
				valid = false
			}
		}
		nontrivial := false
		if valid {
			nontrivial = monitorCase(c, cs, obs)
		}
		var term string
		if toModel {
			term = caseTerm(cs, obs)
			c.AddCase(term, caseJSON(cs, obs))
		} else {
			term = inputCoq(cs)
		}
		c.Count(term, nontrivial)
		c.Hist("group", group)
		if sample {
			c.Sample(caseJSON(cs, obs))
		}
	}

	// 1. bounded-exhaustive histories
	maxLen := 4
	type sym struct {
		kind string
		lvl  int
	}
	var alphabet []sym
	for _, l := range c15levels {
		alphabet = append(alphabet, sym{"w", l})
	}
	alphabet = append(alphabet, sym{"t", 0}, sym{"c", 0})
	exh, exhModel := 0, 0
	var rec func(h []sym, max int, f func([]sym))
	rec = func(h []sym, max int, f func([]sym)) {
		if len(h) > 0 {
			f(h)
		}
		if len(h) == max {
			return
		}
		for _, s := range alphabet {
			rec(append(append([]sym{}, h...), s), max, f)
		}
	}
	mk := func(h []sym, cond, trig int, lw bool) *caseT {
		cs := &caseT{Cond: cond, Trig: trig, LW: lw}
		for i, s := range h {
			o := opT{Kind: s.kind, Level: s.lvl}
			if s.kind == "w" {
				o.Line = []byte{byte('a' + i), '\n'}
			}
			cs.Ops = append(cs.Ops, o)
		}
		return cs
	}
	ctr := 0
	for _, cond := range c15levels {
		for _, trig := range c15levels {
			rec(nil, maxLen, func(h []sym) {
				ctr++
				toModel := len(h) <= 2 || (len(h) == 3 && ctr%4 == 0) || ctr%32 == 0 || c.Thorough()
				emit(mk(h, cond, trig, ctr%5 != 0), "exhaustive", toModel, false)
				exh++
				if toModel {
					exhModel++
				}
			})
		}
	}
	if c.Thorough() {
		for _, pr := range [][2]int{{0, 3}, {3, 0}, {-1, -1}, {9, 11}} {
			rec(nil, 5, func(h []sym) {
				if len(h) == 5 {
					emit(mk(h, pr[0], pr[1], true), "exhaustive-5", true, false)
					exh++
					exhModel++
				}
			})
		}
	}
	c.Res.ExtraCoverage["bounded_exhaustive_histories"] = exh
	c.Res.ExtraCoverage["bounded_exhaustive_model_evaluated"] = exhModel
	c.Res.ExtraCoverage["bounded_exhaustive_max_ops"] = maxLen

	// 2. the two sequences of TestTriggerLevelWriter and the example of Properties/C15.v
	for _, h := range [][]opT{
		{{Kind: "w", Level: 0, Line: []byte("no\n")}, {Kind: "w", Level: 1, Line: []byte("yes\n")}, {Kind: "t"}},
		{{Kind: "w", Level: 0, Line: []byte("yes1\n")}, {Kind: "w", Level: 1, Line: []byte("yes2\n")}, {Kind: "w", Level: 3, Line: []byte("yes3\n")}, {Kind: "w", Level: 0, Line: []byte("yes4\n")}, {Kind: "t"}},
		{{Kind: "w", Level: 0, Line: []byte("d\n")}, {Kind: "w", Level: 1, Line: []byte("i\n")}, {Kind: "w", Level: -1, Line: []byte("t\n")}, {Kind: "w", Level: 3, Line: []byte("e\n")}, {Kind: "w", Level: 0, Line: []byte("z\n")}, {Kind: "c"}, {Kind: "t"}},
	} {
		emit(&caseT{Cond: 0, Trig: 3, LW: true, Ops: h}, "unit-test-sequences", true, true)
		emit(&caseT{Cond: 0, Trig: 3, LW: false, Ops: h}, "unit-test-sequences", true, false)
	}

	// 3. all 255 levels other than 10, held and released: the level byte round trip on the real code
	{
		cs := &caseT{Cond: 127, Trig: 127, LW: true}
		for l := -128; l <= 126; l++ {
			if l != 10 {
				cs.Ops = append(cs.Ops, opT{Kind: "w", Level: l, Line: []byte{byte(l), '\n'}})
			}
		}
		cs.Ops = append(cs.Ops, opT{Kind: "w", Level: 127, Line: []byte("trigger\n")})
		emit(cs, "all-levels", true, false)
	}

	// 4. seeded random (smaller shards: the cases are long)
	c.OpenShards("From Verif Require Import Base.Prelude Misc.Level Lts.Trigger Harness.C15H.\nOpen Scope Z_scope.",
		"(tcfg * script * list op) * list (list dcall * mret)", "mismatches c15_run c15_eqb", 100)
	nrand := 1000
	if c.Thorough() {
		nrand = 30000
	}
	for i := 0; i < nrand; i++ {
		r := c.R.Fork()
		cs := &caseT{LW: !r.Chance(25)}
		if r.Chance(70) {
			cs.Cond, cs.Trig = c15levels[r.Intn(len(c15levels))], c15levels[r.Intn(len(c15levels))]
		} else {
			cs.Cond, cs.Trig = r.Intn(256)-128, r.Intn(256)-128
		}
		if r.Chance(40) {
			cs.Cond, cs.Trig = 0, 3 // the documented use
		}
		maxLine := 10
		if r.Chance(3) {
			maxLine = 300
		}
		nops := 1 + r.Intn(40)
		if c.Thorough() {
			nops = 1 + r.Intn(80)
		}
		cs.Ops = genHistory(r, nops, maxLine)
		emit(cs, "random", true, i < 4)
	}

	// 5. buffers above TriggerLevelWriterBufferReuseLimit are not pooled; pooled buffers come back empty
	{
		r := c.R.Fork()
		big := &caseT{Cond: 0, Trig: 3, LW: true}
		for i := 0; i < 70; i++ {
			p := genLine(r, 0)
			p = append([]byte(strings.Repeat(string(rune('a'+i%26)), 1000)), p...)
			big.Ops = append(big.Ops, opT{Kind: "w", Level: 0, Line: p})
		}
		big.Ops = append(big.Ops, opT{Kind: "c"}, opT{Kind: "w", Level: 0, Line: []byte("after-close\n")}, opT{Kind: "w", Level: 3, Line: []byte("fire\n")})
		emit(big, "buffer-reuse-limit", false, false)
		small := &caseT{Cond: 0, Trig: 3, LW: true, Ops: []opT{{Kind: "w", Level: 0, Line: []byte("x\n")}, {Kind: "t"}}}
		emit(small, "buffer-reuse-limit", true, false)
		c.Res.ExtraCoverage["buffer_reuse_limit"] = zerolog.TriggerLevelWriterBufferReuseLimit
	}

	// 5b. several writers alive at once share the buffer pool: each must only ever release its own lines
	npool := 200
	if c.Thorough() {
		npool = 3000
	}
	for i := 0; i < npool; i++ {
		r := c.R.Fork()
		nw := 2 + r.Intn(2)
		css := make([]*caseT, nw)
		recs := make([]*recorder, nw)
		ws := make([]*zerolog.TriggerLevelWriter, nw)
		obss := make([][]obsT, nw)
		for k := range css {
			css[k] = &caseT{Cond: 0, Trig: 3, LW: true}
			if r.Chance(30) {
				css[k].Cond, css[k].Trig = c15levels[r.Intn(len(c15levels))], c15levels[r.Intn(len(c15levels))]
			}
			recs[k] = &recorder{}
			ws[k] = newWriter(css[k], recs[k])
		}
		all := genHistory(r, 4+r.Intn(30), 8)
		for _, o := range all {
			k := r.Intn(nw)
			if o.Kind == "w" {
				o.Line = append([]byte(fmt.Sprintf("w%d:", k)), o.Line...)
			}
			before := len(recs[k].calls)
			res := doOp(ws[k], o)
			res.Calls = append([]dcallT{}, recs[k].calls[before:]...)
			css[k].Ops = append(css[k].Ops, o)
			obss[k] = append(obss[k], res)
		}
		for k := range css {
			closeQuietly(ws[k])
			if len(css[k].Ops) == 0 {
				continue
			}
			nt := monitorCase(c, css[k], obss[k])
			term := caseTerm(css[k], obss[k])
			c.AddCase(term, caseJSON(css[k], obss[k]))
			c.Count(term, nt)
			c.Hist("group", "shared-pool")
		}
	}

	// 5c. long lines (long.go): lengths at and around 2^8, 2^15, 2^16, 2^17, 2^18, 2^20 and the reuse limit
	runLongLines(c)
	c.OpenShards("From Verif Require Import Base.Prelude Misc.Level Lts.Trigger Harness.C15H.\nOpen Scope Z_scope.",
		"(tcfg * script * list op) * list (list dcall * mret)", "mismatches c15_run c15_eqb", 100)

	// 6. malformed stream: outside the property's quantifier, correspondence only (the model
	// is the code as it is: level 10, interior newlines, unterminated lines, failing destination)
	nmal := 400
	if c.Thorough() {
		nmal = 5000
	}
	for i := 0; i < nmal; i++ {
		r := c.R.Fork()
		cs := &caseT{LW: !r.Chance(25), Cond: c15levels[r.Intn(len(c15levels))], Trig: c15levels[r.Intn(len(c15levels))]}
		if r.Chance(50) {
			cs.Cond, cs.Trig = 11, 12
		}
		cs.Ops = genHistory(r, 1+r.Intn(12), 6)
		for j := range cs.Ops {
			if cs.Ops[j].Kind != "w" {
				continue
			}
			switch r.Intn(8) {
			case 0:
				cs.Ops[j].Level = 10
			case 1:
				if n := len(cs.Ops[j].Line); n > 1 {
					cs.Ops[j].Line[r.Intn(n-1)] = '\n'
				}
			case 2:
				cs.Ops[j].Line = cs.Ops[j].Line[:len(cs.Ops[j].Line)-1] // unterminated (possibly empty)
			}
		}
		if r.Chance(40) {
			n := 1 + r.Intn(8)
			for j := 0; j < n; j++ {
				if r.Chance(30) {
					cs.Script = append(cs.Script, r.Intn(60))
				} else {
					cs.Script = append(cs.Script, -1)
				}
			}
		}
		emit(cs, "malformed", true, false)
	}

	// 7. concurrent runs
	runConcurrent(c)

	if floodCount > 0 {
		c.Res.Broken = append(c.Res.Broken, fmt.Sprintf("TriggerLevelWriter did not terminate on its own in %d operation(s): the recording destination stopped it after more calls than the history has bytes; first: %s", floodCount, floodFirst))
	}
}
