package main

// Monitors for C15: the property's text as a small specification in Go,
// applied operation by operation to what the real TriggerLevelWriter did.
// Independent of the Coq model.

import (
	"bytes"
	"fmt"

	. "verifharness/hlib"
)

type lineT struct {
	Level int
	Bytes []byte
}

// specT: lines held so far (oldest first) and whether the trigger has happened.
type specT struct {
	cond, trig int
	held       []lineT
	fired      bool
}

// apply returns what the destination must receive during this operation.
func (s *specT) apply(o opT) []lineT {
	switch o.Kind {
	case "w":
		ln := lineT{o.Level, o.Line}
		if s.fired {
			return []lineT{ln} // from then on every line immediately
		}
		if o.Level >= s.trig {
			// first line at or above TriggerLevel: all lines held so far, in order, then that line
			out := append(append([]lineT{}, s.held...), ln)
			s.held, s.fired = nil, true
			return out
		}
		if o.Level <= s.cond {
			s.held = append(s.held, ln)
			return nil
		}
		return []lineT{ln} // immediately, every line above ConditionalLevel
	case "t":
		if s.fired {
			return nil
		}
		out := s.held
		s.held, s.fired = nil, true
		return out
	default: // Close: held lines are dropped (DESIGN section 8), the latch stays
		s.held = nil
		return nil
	}
}

func sameMultiset(a []lineT, b []dcallT) bool {
	if len(a) != len(b) {
		return false
	}
	used := make([]bool, len(b))
outer:
	for _, x := range a {
		for j, y := range b {
			if !used[j] && bytes.Equal(x.Bytes, y.Bytes) {
				used[j] = true
				continue outer
			}
		}
		return false
	}
	return true
}

// classify names the kind of disagreement between expected and received lines.
func classify(exp []lineT, got []dcallT, lw bool, release bool) (string, string) {
	eqBytes := len(exp) == len(got)
	if eqBytes {
		for i := range exp {
			if !bytes.Equal(exp[i].Bytes, got[i].Bytes) {
				eqBytes = false
			}
		}
	}
	if eqBytes {
		if lw {
			for i := range exp {
				if !got[i].HasLevel {
					return "levelwriter-destination-written-without-level", "a LevelWriter destination was written through Write"
				}
				if exp[i].Level != got[i].Level {
					return "line-level-altered", fmt.Sprintf("line %q written at level %d arrived with level %d", exp[i].Bytes, exp[i].Level, got[i].Level)
				}
			}
		}
		return "", ""
	}
	switch {
	case sameMultiset(exp, got) && release:
		return "release-order", "the released lines and the triggering line arrive in a different order than they were written"
	case sameMultiset(exp, got):
		return "line-order", "lines arrive in a different order"
	case len(got) < len(exp) && release:
		return "held-line-lost-at-release", fmt.Sprintf("%d lines expected at the release, %d arrived", len(exp), len(got))
	case len(got) < len(exp):
		return "line-not-written-immediately", "a line that must pass through at once did not reach the destination during the call"
	case len(exp) == 0:
		return "held-line-written-before-trigger", "a line at or below ConditionalLevel reached the destination although the trigger has not happened"
	case len(got) > len(exp):
		return "line-duplicated", fmt.Sprintf("%d lines expected, %d arrived", len(exp), len(got))
	}
	return "line-bytes-altered", "a line arrived with different bytes"
}

// monitorCase applies the specification; only called for histories inside the property's
// quantifier (valid lines and levels, destination never fails).  Returns non-triviality.
func monitorCase(c *Ctx, cs *caseT, obs []obsT) bool {
	sp := &specT{cond: cs.Cond, trig: cs.Trig}
	heldSeen, passSeen, outcomeSeen := false, false, false
	for i, o := range cs.Ops {
		wasFired := sp.fired
		heldBefore := len(sp.held)
		exp := sp.apply(o)
		release := !wasFired && sp.fired && heldBefore > 0
		if o.Kind == "w" && len(exp) == 0 {
			heldSeen = true
		}
		if o.Kind == "w" && len(exp) == 1 && !release {
			passSeen = true
		}
		if heldBefore > 0 && len(sp.held) == 0 {
			outcomeSeen = true
		}
		viol := func(key, desc string) {
			c.Violate(Violation{Key: key, Monitor: "declarative-spec", Desc: fmt.Sprintf("operation %d (%s): %s", i, o.Kind, desc),
				Case: caseJSON(cs, obs), Observed: obs[i], Expected: exp})
		}
		if obs[i].Ret == "panic" {
			viol("method-panicked", "the method panicked")
			return false
		}
		if obs[i].Ret != "ok" {
			viol("method-returned-error", "the method returned an error although the destination never fails")
		}
		if o.Kind == "w" && obs[i].Ret == "ok" && obs[i].N != len(o.Line) {
			viol("write-returned-wrong-length", fmt.Sprintf("WriteLevel returned n=%d for a line of %d bytes", obs[i].N, len(o.Line)))
		}
		if key, desc := classify(exp, obs[i].Calls, cs.LW, release); key != "" {
			viol(key, desc)
			return false
		}
	}
	return heldSeen && passSeen && outcomeSeen
}
