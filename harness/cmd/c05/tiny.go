package main

// C05, directed sweeps added after the round-7 seeded changes.
//
// tinyContextSweep (C05-13: With() on a field-less logger handed out a shared package-level slice of len 1 /
// cap 8, so that contexts of at most 8 bytes were written in place into one array shared by every such child
// in the process): derivation programs whose contexts are TINY.  Field-less roots obtained in four ways
// (New(w), Nop().Output(w), Logger{}.Output(w), New(w).Hook()); children whose whole context is 6-9 bytes
// (Int("a",1), Int("b",2), Bool("b",true), Str("",""), Str("","x"), Int("",0), Str("a",""), Int("id",7)):
// every ordered pair of fields x siblings of one root / children of two unrelated roots / two Context values
// of one root alive at once before either appends; UpdateContext adding a tiny field to root.With().Logger()
// of two roots, with an Output copy; the programs run through the heap model and the path monitor (every
// logger emits exactly the context of its own path, read after every derivation).  Plus goroutines deriving
// tiny children of their own field-less roots at the same time.
//
// stackPathSweep (C05-14: Output() built its copy from a literal that omitted the stack flag): "the events a
// logger emits carry exactly the ... stack flag ... of its own derivation path".  Reading: the stack flag of a
// path is set by a With()...Stack() step on it and kept by every other derivation step (With with fields,
// Level, Sample, Hook, Output, UpdateContext on a With() logger, a value copy); a sibling's Stack() never sets
// it.  Observable only through errors: with ErrorStackMarshaler installed, an event given an error (Err,
// Logger.Err, Fields with an error value) and a child's With().Err(err) carry the stack field exactly when the
// path enabled it (or the event itself called Stack()); with ErrorStackMarshaler nil, never.

import (
	"encoding/json"
	"errors"
	"fmt"
	"sync"

	"github.com/rs/zerolog"
	. "verifharness/hlib"
)

type tinyField struct{ meth, key, val string }

var tinyFields = []tinyField{{"int", "a", "1"}, {"int", "b", "2"}, {"bool", "b", "true"}, {"", "", ""}, {"", "", "x"}, {"int", "", "0"}, {"", "a", ""}, {"int", "id", "7"}}

var tinyStrs = [][2]string{{"a", ""}, {"", ""}, {"", "x"}, {"n", "1"}, {"ab", ""}}

func tinyContextSweep(c *Ctx, emitCase func(p []stmt, modelToo bool)) {
	n := 0
	for i, f1 := range tinyFields {
		for j, f2 := range tinyFields {
			f3 := tinyFields[(i+j+1)%len(tinyFields)]
			for shape := 0; shape < 3; shape++ {
				var p []stmt
				add := func(s stmt) int { p = append(p, s); return len(p) - 1 }
				child := func(root int, f tinyField) int {
					w := add(stmt{K: "with", X: root})
					o := add(stmt{K: "op", X: w, Meth: f.meth, Key: f.key, Val: f.val})
					return add(stmt{K: "logger", X: o})
				}
				emit := func(xs ...int) {
					for _, x := range xs {
						add(stmt{K: "emit", X: x})
					}
				}
				r1 := add(stmt{K: "root", Root: (i + j) % 4})
				switch shape {
				case 0: // siblings of one field-less root, read after every derivation
					a := child(r1, f1)
					emit(a)
					b := child(r1, f2)
					emit(a, b)
					d := child(r1, f3)
					emit(a, b, d, a)
					g := child(a, f2) // a grandchild: the parent has a context of its own
					emit(g, a, r1)
				case 1: // children of two unrelated field-less roots
					r2 := add(stmt{K: "root", Root: (i*j + 1) % 4})
					a := child(r1, f1)
					b := child(r2, f2)
					emit(a, b)
					d := child(add(stmt{K: "output", X: r2}), f3)
					emit(b, a, d, r1, r2)
				default: // two Context values of one root alive at once before either appends
					w1 := add(stmt{K: "with", X: r1})
					w2 := add(stmt{K: "with", X: r1})
					o1 := add(stmt{K: "op", X: w1, Meth: f1.meth, Key: f1.key, Val: f1.val})
					o2 := add(stmt{K: "op", X: w2, Meth: f2.meth, Key: f2.key, Val: f2.val})
					a := add(stmt{K: "logger", X: o1})
					b := add(stmt{K: "logger", X: o2})
					emit(a, b)
					e := add(stmt{K: "logger", X: add(stmt{K: "with", X: r1})}) // root.With().Logger(): the begin marker alone
					emit(e, a, b)
				}
				emitCase(p, true)
				n++
			}
		}
	}
	// UpdateContext adding a tiny field to root.With().Logger()
	for i, s1 := range tinyStrs {
		for j, s2 := range tinyStrs {
			var p []stmt
			add := func(s stmt) int { p = append(p, s); return len(p) - 1 }
			r1 := add(stmt{K: "root", Root: i % 4})
			r2 := r1
			if (i+j)%2 == 0 {
				r2 = add(stmt{K: "root", Root: j % 4})
			}
			q1 := add(stmt{K: "logger", X: add(stmt{K: "with", X: r1})})
			q2 := add(stmt{K: "logger", X: add(stmt{K: "with", X: r2})})
			add(stmt{K: "update", X: q1, KVs: []string{s1[0], s1[1]}})
			add(stmt{K: "emit", X: q1})
			add(stmt{K: "update", X: q2, KVs: []string{s2[0], s2[1]}})
			add(stmt{K: "emit", X: q1})
			add(stmt{K: "emit", X: q2})
			o := add(stmt{K: "output", X: q1})
			q3 := add(stmt{K: "logger", X: add(stmt{K: "with", X: r1})})
			add(stmt{K: "update", X: q3, KVs: []string{s2[0], s2[1]}})
			for _, x := range []int{o, q1, q2, q3, r1} {
				add(stmt{K: "emit", X: x})
			}
			emitCase(p, true)
			n++
		}
	}
	c.Res.ExtraCoverage["tiny_context_programs"] = n

	// goroutines deriving tiny children of their own field-less roots at the same time
	{
		zerolog.SetGlobalLevel(zerolog.Level(-128))
		G, rounds := 8, 300
		bad := make([]string, G)
		var wg sync.WaitGroup
		for g := 0; g < G; g++ {
			wg.Add(1)
			go func(g int) {
				defer wg.Done()
				w := &lastWriter{}
				root := zerolog.New(w)
				if g%2 == 1 {
					root = zerolog.Nop().Output(w).Level(zerolog.Level(-128))
				}
				want := fmt.Sprintf("{\"g\":%d}\n", g)
				for i := 0; i < rounds && bad[g] == ""; i++ {
					child := root.With().Int("g", g).Logger()
					child.Log().Send()
					first := string(w.last)
					sib := root.With().Logger()
					sib.UpdateContext(func(cx zerolog.Context) zerolog.Context { return cx.Int("g", g) })
					child.Log().Send()
					second := string(w.last)
					sib.Log().Send()
					third := string(w.last)
					if first != want || second != want || third != want {
						bad[g] = fmt.Sprintf("goroutine %d round %d: child emitted %q then %q, the UpdateContext sibling %q, want %q each", g, i, first, second, third, want)
					}
				}
			}(g)
		}
		wg.Wait()
		zerolog.SetGlobalLevel(zerolog.DebugLevel)
		for _, b := range bad {
			if b != "" {
				c.Violate(Violation{Key: "concurrent-derivation-interference", Monitor: "concurrent-tiny-children", Desc: b,
					Case: "8 goroutines x 300, each with its own writer and its own field-less root (New(w) / Nop().Output(w).Level(-128)): child := root.With().Int(\"g\", g).Logger(); child.Log().Send(); sib := root.With().Logger(); sib.UpdateContext(Int(\"g\", g)); child.Log().Send(); sib.Log().Send()"})
				break
			}
		}
		c.Res.Evaluations += G * rounds * 3
	}
}

// ---------------------------------------------------------------- the stack flag of the derivation path

type spNode struct {
	l     *zerolog.Logger
	w     *lastWriter
	stack bool
	name  string
}

var spKinds = []string{"none", "With().Str", "Output", "Level", "Sample(nil)", "Hook()", "With().Logger()", "With().Logger()+UpdateContext", "value copy", "Output+With().Str"}

func stackPathSweep(c *Ctx) {
	old := zerolog.ErrorStackMarshaler
	defer func() { zerolog.ErrorStackMarshaler = old }()
	zerolog.SetGlobalLevel(zerolog.Level(-128))
	defer zerolog.SetGlobalLevel(zerolog.DebugLevel)
	boom := errors.New("boom")
	progs, reads := 0, 0
	for _, installed := range []bool{true, false} {
		if installed {
			zerolog.ErrorStackMarshaler = func(err error) interface{} { return "ST:" + err.Error() }
		} else {
			zerolog.ErrorStackMarshaler = nil
		}
		for kind := range spKinds {
			for code := 0; code < 8; code++ {
				var src []string
				var nodes []spNode
				seq := 0
				mk := func(l zerolog.Logger, w *lastWriter, stack bool, how string) spNode {
					n := spNode{l: &l, w: w, stack: stack, name: fmt.Sprintf("n%d", seq)}
					seq++
					src = append(src, n.name+" := "+how)
					nodes = append(nodes, n)
					return n
				}
				step := func(k string, n spNode) spNode {
					switch k {
					case "With().Str":
						return mk(n.l.With().Str("f", n.name).Logger(), n.w, n.stack, n.name+".With().Str(\"f\", \""+n.name+"\").Logger()")
					case "Output":
						w := &lastWriter{}
						return mk(n.l.Output(w), w, n.stack, n.name+".Output(another writer)")
					case "Level":
						return mk(n.l.Level(zerolog.Level(-128)), n.w, n.stack, n.name+".Level(-128)")
					case "Sample(nil)":
						return mk(n.l.Sample(nil), n.w, n.stack, n.name+".Sample(nil)")
					case "Hook()":
						return mk(n.l.Hook(zerolog.HookFunc(func(e *zerolog.Event, lv zerolog.Level, m string) {})), n.w, n.stack, n.name+".Hook(h)")
					case "With().Logger()":
						return mk(n.l.With().Logger(), n.w, n.stack, n.name+".With().Logger()")
					case "With().Logger()+UpdateContext":
						x := mk(n.l.With().Logger(), n.w, n.stack, n.name+".With().Logger()")
						x.l.UpdateContext(func(cx zerolog.Context) zerolog.Context { return cx.Str("u", "1") })
						src = append(src, x.name+".UpdateContext(func(c Context) Context { return c.Str(\"u\", \"1\") })")
						return x
					case "value copy":
						return mk(*n.l, n.w, n.stack, "*(&"+n.name+")")
					case "Output+With().Str":
						w := &lastWriter{}
						return mk(n.l.Output(w).With().Str("o", "1").Logger(), w, n.stack, n.name+".Output(another writer).With().Str(\"o\", \"1\").Logger()")
					case "With().Stack()":
						return mk(n.l.With().Stack().Logger(), n.w, true, n.name+".With().Stack().Logger()")
					}
					return n
				}
				bad := ""
				var badRead string
				read := func(n spNode) {
					type rd struct {
						what  string
						evStk bool
						run   func()
						w     *lastWriter
					}
					cw := n.w
					rds := []rd{
						{n.name + ".Error().Err(boom).Msg(\"m\")", false, func() { n.l.Error().Err(boom).Msg("m") }, cw},
						{n.name + ".Err(boom).Send()", false, func() { n.l.Err(boom).Send() }, cw},
						{n.name + ".Log().Fields(map[string]interface{}{\"cause\": boom}).Send()", false, func() { n.l.Log().Fields(map[string]interface{}{"cause": boom}).Send() }, cw},
						{"k := " + n.name + ".With().Err(boom).Logger(); k.Log().Send()", false, func() { k := n.l.With().Err(boom).Logger(); k.Log().Send() }, cw},
						{n.name + ".Info().Str(\"x\", \"y\").Send() [no error]", false, func() { n.l.Info().Str("x", "y").Send() }, cw},
						{n.name + ".Warn().Stack().Err(boom).Send() [Stack() on the event]", true, func() { n.l.Warn().Stack().Err(boom).Send() }, cw},
					}
					for ri, r := range rds {
						if bad != "" {
							return
						}
						r.w.last = nil
						r.run()
						reads++
						line := r.w.last
						var m map[string]interface{}
						if err := json.Unmarshal(line, &m); err != nil {
							continue // a garbled or missing line is the business of the context monitors, not of the stack flag
						}
						v, present := m["stack"]
						want := installed && (n.stack || r.evStk) && ri != 4
						switch {
						case present != want:
							bad = fmt.Sprintf("the line %q: stack field present=%v, want %v (ErrorStackMarshaler installed: %v; Stack() on the derivation path of %s: %v; Stack() on the event: %v)", line, present, want, installed, n.name, n.stack, r.evStk)
						case present && v != "ST:boom":
							bad = fmt.Sprintf("the line %q: stack field %v, want \"ST:boom\"", line, v)
						}
						if bad != "" {
							badRead = r.what
						}
					}
				}
				w0 := &lastWriter{}
				cur := mk(zerolog.New(w0), w0, false, "zerolog.New(w)")
				for pos := 0; pos < 3; pos++ {
					cur = step(spKinds[kind], cur)
					if code>>uint(pos)&1 == 1 {
						cur = step("With().Stack()", cur)
					}
					on := cur
					read(on)
					// siblings: one that enables the flag, an Output copy, a With() child
					step("With().Stack()", on)
					step("Output", on)
					step("With().Str", on)
					read(on)
				}
				all := append([]spNode{}, nodes...)
				for _, n := range all {
					read(n)
				}
				for i := len(all) - 1; i >= 0; i -= 2 {
					read(all[i])
				}
				progs++
				c.Count(fmt.Sprintf("stackpath %v %d %d", installed, kind, code), code != 0)
				if bad != "" {
					esm := "nil"
					if installed {
						esm = "func(err error) interface{} { return \"ST:\" + err.Error() }"
					}
					c.Violate(Violation{Key: "stack-flag-of-path-wrong", Monitor: "path-stack", Desc: badRead + ": " + bad,
						Case: map[string]interface{}{"zerolog.ErrorStackMarshaler": esm, "boom": "errors.New(\"boom\")", "program": src, "read": badRead}})
				}
			}
		}
	}
	c.Res.Evaluations += reads
	c.Res.ExtraCoverage["stack_path_programs"] = progs
	c.Res.ExtraCoverage["stack_path_reads"] = reads
}
