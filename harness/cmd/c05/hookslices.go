package main

// C05 - arguments the caller keeps: hook lists and field slices handed to a derivation step.
//
// "The events a logger emits carry exactly the context fields, hooks ... of its own derivation path.  Deriving
// further children, adding fields to siblings ... never changes what a parent or sibling emits."  The hooks of a
// path are the hooks that were handed to the Hook() calls on it, as they were at the moment of each call; the
// fields are the values handed to the context methods at the moment of each call.  What the caller does to ITS
// slice afterwards - overwrite the elements to derive the next sibling in a loop, append to it, clear it - is
// the caller's business and changes no logger that was derived before (C05-11: Logger.Hook kept the caller's
// variadic slice as the hook list when the receiver had no hooks yet, so every sibling derived from one reused
// scratch slice ran the last sibling's hooks).
//
// 1. hookSliceSweep: the parent has 0..3 hooks already (added one Hook() call at a time, or as one caller-owned
//    slice that is overwritten afterwards); between them and the probed call one derivation step of each kind
//    (none / With()...Logger() / Level / Sample / Output / With()+UpdateContext); then three siblings are derived
//    with parent.Hook(hs...), hs a caller-owned slice of 1..3 hooks (exactly full, with spare capacity, or a
//    window of a larger array) that the caller afterwards leaves alone (fresh slice per sibling: the control) /
//    refills for the next sibling / overwrites with other hooks / overwrites with nil / appends to and overwrites
//    through the backing array / rotates.  From every sibling five relatives are taken before the caller touches
//    the slice (With, Level, Output, Hook(literal), Sample) and three after (With, Hook(literal), Hook(another
//    caller-owned slice, overwritten afterwards)).  Every logger then sends an event, in creation order and in
//    reverse: the hooks that run must be exactly those of its path, in order.
// 2. fieldSliceSweep: every Context method that takes a slice or a map (Strs, Ints ... Floats64, Bools, Durs,
//    Times, Errs, Bytes, Hex, RawJSON, IPAddr, MACAddr, Fields(slice), Fields(map), Interface(slice)), given a
//    caller-owned slice with spare capacity, in With()...Logger() and inside UpdateContext; a child is taken,
//    lines are read, the caller overwrites / appends to / clears the slice, a further child is taken: every line
//    reads as before.

import (
	"fmt"
	"net"
	"strings"
	"time"

	"github.com/rs/zerolog"
	. "verifharness/hlib"
)

type hsProg struct {
	ParentHooks    int    `json:"parent_hooks"`
	ParentHooksHow string `json:"parent_hooks_added"`
	Between        string `json:"step_between_them_and_the_probed_call"`
	N              int    `json:"hooks_in_the_callers_slice"`
	Spare          int    `json:"spare_capacity_of_the_callers_slice"`
	Off            int    `json:"offset_of_the_slice_in_its_array"`
	Mode           string `json:"what_the_caller_does_with_the_slice_after_each_call"`
}

type hsNode struct {
	name string
	l    zerolog.Logger
	want []string
}

var hsBetween = []string{"none", "With().Str(k, v).Logger()", "Level(-128)", "Sample(nil)", "Output(w)", "With().Logger() then UpdateContext"}

var hsModes = []string{
	"nothing (a fresh slice per sibling)",
	"refills it with the next sibling's hooks",
	"overwrites the elements with other hooks, then refills it for the next sibling",
	"overwrites the elements with nil, then refills it for the next sibling",
	"appends to it and overwrites the whole backing array, then refills it for the next sibling",
	"rotates the elements, then refills it for the next sibling",
}

func hookSliceSweep(c *Ctx) {
	w := &lastWriter{}
	var ran []string
	mk := func(tag string) zerolog.Hook {
		return zerolog.HookFunc(func(e *zerolog.Event, l zerolog.Level, m string) { ran = append(ran, tag) })
	}
	progs, reads := 0, 0
	type shape struct{ spare, off int }
	for nh := 0; nh <= 3; nh++ {
		for _, preSlice := range []bool{false, true} {
			if nh == 0 && preSlice {
				continue
			}
			for bi, between := range hsBetween {
				for n := 1; n <= 3; n++ {
					for _, sh := range []shape{{0, 0}, {2, 0}, {1, 1}} {
						for mode, modeName := range hsModes {
							pg := hsProg{ParentHooks: nh, ParentHooksHow: "one Hook(h) call each", Between: between, N: n, Spare: sh.spare, Off: sh.off, Mode: modeName}
							var nodes []hsNode
							add := func(name string, l zerolog.Logger, want []string) {
								nodes = append(nodes, hsNode{name, l, append([]string{}, want...)})
							}
							root := zerolog.New(w)
							var path []string
							if preSlice {
								pg.ParentHooksHow = "as one caller-owned slice, root.Hook(pre...), overwritten afterwards"
								pre := make([]zerolog.Hook, nh, nh+1)
								for i := range pre {
									tag := fmt.Sprintf("p%d", i)
									pre[i] = mk(tag)
									path = append(path, tag)
								}
								root = root.Hook(pre...)
								for i := range pre {
									pre[i] = mk("overwritten-p")
								}
								_ = append(pre, mk("appended-p"))
							} else {
								for i := 0; i < nh; i++ {
									tag := fmt.Sprintf("p%d", i)
									root = root.Hook(mk(tag))
									path = append(path, tag)
								}
							}
							parent := root
							switch bi {
							case 1:
								parent = root.With().Str("k", "v").Logger()
							case 2:
								parent = root.Level(zerolog.Level(-128))
							case 3:
								parent = root.Sample(nil)
							case 4:
								parent = root.Output(w)
							case 5:
								parent = root.With().Logger()
								parent.UpdateContext(func(cx zerolog.Context) zerolog.Context { return cx.Str("u", "1") })
							}
							add("parent", parent, path)
							backing := make([]zerolog.Hook, sh.off+n+sh.spare)
							for s := 0; s < 3; s++ {
								if mode == 0 {
									backing = make([]zerolog.Hook, sh.off+n+sh.spare)
								}
								var tags []string
								for i := 0; i < n; i++ {
									tag := fmt.Sprintf("S%dh%d", s, i)
									tags = append(tags, tag)
									backing[sh.off+i] = mk(tag)
								}
								hs := backing[sh.off : sh.off+n]
								sib := parent.Hook(hs...)
								sw := append(append([]string{}, path...), tags...)
								sn := fmt.Sprintf("sibling %d := parent.Hook(hs...)", s)
								add(sn, sib, sw)
								// relatives taken before the caller touches the slice
								add(sn+"; .With().Str(k, v).Logger() [before]", sib.With().Str("k", "v").Logger(), sw)
								add(sn+"; .Level(-128) [before]", sib.Level(zerolog.Level(-128)), sw)
								add(sn+"; .Output(w) [before]", sib.Output(w), sw)
								add(sn+"; .Hook(K) [before]", sib.Hook(mk(fmt.Sprintf("K%d", s))), append(append([]string{}, sw...), fmt.Sprintf("K%d", s)))
								add(sn+"; .Sample(nil) [before]", sib.Sample(nil), sw)
								// the caller's business
								switch mode {
								case 2:
									for i := range hs {
										hs[i] = mk(fmt.Sprintf("overwritten-S%dh%d", s, i))
									}
								case 3:
									for i := range hs {
										hs[i] = nil
									}
								case 4:
									_ = append(hs, mk(fmt.Sprintf("appended-S%d", s)))
									for i := range backing {
										backing[i] = mk(fmt.Sprintf("overwritten-S%d[%d]", s, i))
									}
								case 5:
									copy(hs, hs[1:])
									hs[len(hs)-1] = mk(fmt.Sprintf("rotated-S%d", s))
								}
								// relatives taken afterwards
								add(sn+"; .With().Logger() [after]", sib.With().Logger(), sw)
								add(sn+"; .Hook(L) [after]", sib.Hook(mk(fmt.Sprintf("L%d", s))), append(append([]string{}, sw...), fmt.Sprintf("L%d", s)))
								more := []zerolog.Hook{mk(fmt.Sprintf("M%d", s)), nil}[:1]
								late := sib.Hook(more...)
								more[0] = mk(fmt.Sprintf("overwritten-M%d", s))
								add(sn+"; .Hook(more...) [after; more overwritten afterwards]", late, append(append([]string{}, sw...), fmt.Sprintf("M%d", s)))
							}
							order := make([]int, 0, 2*len(nodes))
							for i := range nodes {
								order = append(order, i)
							}
							for i := len(nodes) - 1; i >= 0; i-- {
								order = append(order, i)
							}
							bad := false
							for k, i := range order {
								nd := &nodes[i]
								ran = nil
								w.last = nil
								var pan interface{}
								func() {
									defer func() { pan = recover() }()
									nd.l.Log().Msg("m")
								}()
								reads++
								if pan == nil && fmt.Sprint(ran) == fmt.Sprint(nd.want) && w.last != nil {
									continue
								}
								if bad {
									continue
								}
								bad = true
								obs := map[string]interface{}{"hooks_run": append([]string{}, ran...), "written": w.last != nil}
								if pan != nil {
									obs["panic"] = fmt.Sprint(pan)
								}
								c.Violate(Violation{Key: "hook-argument-slice-retained", Monitor: "hooks-of-path",
									Desc: fmt.Sprintf("parent with %d hooks (%s; then %s); three siblings derived with parent.Hook(hs...), hs a caller-owned slice of %d hooks (capacity %d, offset %d in its array); after each call the caller %s: the logger [%s] (read #%d) ran hooks %v (panic: %v), its derivation path says %v",
										nh, pg.ParentHooksHow, between, n, n+sh.spare, sh.off, modeName, nd.name, k, ran, pan, nd.want),
									Case: map[string]interface{}{"program": pg, "logger": nd.name, "read": k}, Observed: obs, Expected: nd.want})
							}
							progs++
							c.Count(fmt.Sprintf("hookslice %+v", pg), true)
						}
					}
				}
			}
		}
	}
	c.Res.Evaluations += reads
	c.Res.ExtraCoverage["hook_slice_programs"] = progs
	c.Res.ExtraCoverage["hook_slice_reads"] = reads
}

// fieldSliceArg: one Context method given a caller-owned slice (or map); mutate is what the caller does to it
// afterwards
type fieldSliceArg struct {
	name   string
	apply  func(cx zerolog.Context) zerolog.Context
	mutate func()
}

func fieldSliceArgs() []fieldSliceArg {
	var out []fieldSliceArg
	{
		v := make([]string, 2, 4)
		copy(v, []string{"a", "b"})
		out = append(out, fieldSliceArg{"Strs", func(cx zerolog.Context) zerolog.Context { return cx.Strs("f", v) }, func() { v[0], v[1] = "X", "Y"; _ = append(v, "Z") }})
	}
	{
		v := make([]int, 2, 4)
		copy(v, []int{1, 2})
		out = append(out, fieldSliceArg{"Ints", func(cx zerolog.Context) zerolog.Context { return cx.Ints("f", v) }, func() { v[0], v[1] = 8, 9; _ = append(v, 7) }})
	}
	{
		v := make([]int8, 2, 4)
		copy(v, []int8{1, 2})
		out = append(out, fieldSliceArg{"Ints8", func(cx zerolog.Context) zerolog.Context { return cx.Ints8("f", v) }, func() { v[0], v[1] = 8, 9; _ = append(v, 7) }})
	}
	{
		v := make([]int16, 2, 4)
		copy(v, []int16{1, 2})
		out = append(out, fieldSliceArg{"Ints16", func(cx zerolog.Context) zerolog.Context { return cx.Ints16("f", v) }, func() { v[0], v[1] = 8, 9; _ = append(v, 7) }})
	}
	{
		v := make([]int32, 2, 4)
		copy(v, []int32{1, 2})
		out = append(out, fieldSliceArg{"Ints32", func(cx zerolog.Context) zerolog.Context { return cx.Ints32("f", v) }, func() { v[0], v[1] = 8, 9; _ = append(v, 7) }})
	}
	{
		v := make([]int64, 2, 4)
		copy(v, []int64{1, 2})
		out = append(out, fieldSliceArg{"Ints64", func(cx zerolog.Context) zerolog.Context { return cx.Ints64("f", v) }, func() { v[0], v[1] = 8, 9; _ = append(v, 7) }})
	}
	{
		v := make([]uint, 2, 4)
		copy(v, []uint{1, 2})
		out = append(out, fieldSliceArg{"Uints", func(cx zerolog.Context) zerolog.Context { return cx.Uints("f", v) }, func() { v[0], v[1] = 8, 9; _ = append(v, 7) }})
	}
	{
		v := make([]uint8, 2, 4)
		copy(v, []uint8{1, 2})
		out = append(out, fieldSliceArg{"Uints8", func(cx zerolog.Context) zerolog.Context { return cx.Uints8("f", v) }, func() { v[0], v[1] = 8, 9; _ = append(v, 7) }})
	}
	{
		v := make([]uint16, 2, 4)
		copy(v, []uint16{1, 2})
		out = append(out, fieldSliceArg{"Uints16", func(cx zerolog.Context) zerolog.Context { return cx.Uints16("f", v) }, func() { v[0], v[1] = 8, 9; _ = append(v, 7) }})
	}
	{
		v := make([]uint32, 2, 4)
		copy(v, []uint32{1, 2})
		out = append(out, fieldSliceArg{"Uints32", func(cx zerolog.Context) zerolog.Context { return cx.Uints32("f", v) }, func() { v[0], v[1] = 8, 9; _ = append(v, 7) }})
	}
	{
		v := make([]uint64, 2, 4)
		copy(v, []uint64{1, 2})
		out = append(out, fieldSliceArg{"Uints64", func(cx zerolog.Context) zerolog.Context { return cx.Uints64("f", v) }, func() { v[0], v[1] = 8, 9; _ = append(v, 7) }})
	}
	{
		v := make([]float32, 2, 4)
		copy(v, []float32{1.5, 2.5})
		out = append(out, fieldSliceArg{"Floats32", func(cx zerolog.Context) zerolog.Context { return cx.Floats32("f", v) }, func() { v[0], v[1] = 8, 9; _ = append(v, 7) }})
	}
	{
		v := make([]float64, 2, 4)
		copy(v, []float64{1.5, 2.5})
		out = append(out, fieldSliceArg{"Floats64", func(cx zerolog.Context) zerolog.Context { return cx.Floats64("f", v) }, func() { v[0], v[1] = 8, 9; _ = append(v, 7) }})
	}
	{
		v := make([]bool, 2, 4)
		copy(v, []bool{true, false})
		out = append(out, fieldSliceArg{"Bools", func(cx zerolog.Context) zerolog.Context { return cx.Bools("f", v) }, func() { v[0], v[1] = false, true; _ = append(v, true) }})
	}
	{
		v := make([]time.Duration, 2, 4)
		copy(v, []time.Duration{time.Second, time.Minute})
		out = append(out, fieldSliceArg{"Durs", func(cx zerolog.Context) zerolog.Context { return cx.Durs("f", v) }, func() { v[0], v[1] = 8, 9; _ = append(v, 7) }})
	}
	{
		v := make([]time.Time, 2, 4)
		copy(v, []time.Time{time.Unix(1000, 0).UTC(), time.Unix(2000, 0).UTC()})
		out = append(out, fieldSliceArg{"Times", func(cx zerolog.Context) zerolog.Context { return cx.Times("f", v) }, func() { v[0], v[1] = time.Unix(9, 0).UTC(), time.Unix(8, 0).UTC(); _ = append(v, time.Unix(7, 0).UTC()) }})
	}
	{
		v := make([]error, 2, 4)
		copy(v, []error{fmt.Errorf("e1"), fmt.Errorf("e2")})
		out = append(out, fieldSliceArg{"Errs", func(cx zerolog.Context) zerolog.Context { return cx.Errs("f", v) }, func() { v[0], v[1] = fmt.Errorf("X"), nil; _ = append(v, fmt.Errorf("Z")) }})
	}
	{
		v := make([]byte, 3, 8)
		copy(v, "abc")
		out = append(out, fieldSliceArg{"Bytes", func(cx zerolog.Context) zerolog.Context { return cx.Bytes("f", v) }, func() { copy(v, "XYZ"); _ = append(v, 'W') }})
	}
	{
		v := make([]byte, 3, 8)
		copy(v, "abc")
		out = append(out, fieldSliceArg{"Hex", func(cx zerolog.Context) zerolog.Context { return cx.Hex("f", v) }, func() { copy(v, "XYZ"); _ = append(v, 'W') }})
	}
	{
		v := make([]byte, 7, 16)
		copy(v, `{"a":1}`)
		out = append(out, fieldSliceArg{"RawJSON", func(cx zerolog.Context) zerolog.Context { return cx.RawJSON("f", v) }, func() { copy(v, `[22222]`); _ = append(v, '!') }})
	}
	{
		v := net.IP(append(make([]byte, 0, 8), 10, 0, 0, 1))
		out = append(out, fieldSliceArg{"IPAddr", func(cx zerolog.Context) zerolog.Context { return cx.IPAddr("f", v) }, func() { v[0], v[3] = 192, 77 }})
	}
	{
		v := net.HardwareAddr(append(make([]byte, 0, 8), 0, 1, 2, 3, 4, 5))
		out = append(out, fieldSliceArg{"MACAddr", func(cx zerolog.Context) zerolog.Context { return cx.MACAddr("f", v) }, func() { v[0], v[5] = 0xaa, 0xbb }})
	}
	{
		v := make([]interface{}, 4, 8)
		copy(v, []interface{}{"k1", "v1", "k2", 2})
		out = append(out, fieldSliceArg{"Fields([]interface{})", func(cx zerolog.Context) zerolog.Context { return cx.Fields(v) }, func() { v[0], v[1], v[3] = "X", "Y", 99; _ = append(v, "k3", "v3") }})
	}
	{
		v := map[string]interface{}{"k1": "v1", "k2": 2}
		out = append(out, fieldSliceArg{"Fields(map)", func(cx zerolog.Context) zerolog.Context { return cx.Fields(v) }, func() { v["k1"] = "X"; v["k3"] = 3; delete(v, "k2") }})
	}
	{
		v := make([]string, 2, 4)
		copy(v, []string{"a", "b"})
		out = append(out, fieldSliceArg{"Interface([]string)", func(cx zerolog.Context) zerolog.Context { return cx.Interface("f", v) }, func() { v[0], v[1] = "X", "Y"; _ = append(v, "Z") }})
	}
	{
		in := make([]string, 2, 4)
		copy(in, []string{"a", "b"})
		v := make([]interface{}, 2, 4)
		v[0], v[1] = "k", in
		out = append(out, fieldSliceArg{"Fields([]interface{}{k, []string})", func(cx zerolog.Context) zerolog.Context { return cx.Fields(v) }, func() { in[0] = "X"; v[0] = "K" }})
	}
	return out
}

func fieldSliceSweep(c *Ctx) {
	w := &lastWriter{}
	read := func(l *zerolog.Logger) string {
		w.last = nil
		l.Log().Msg("m")
		return string(w.last)
	}
	n := 0
	for _, how := range []string{"l := root.With().<M>(f, v).Logger()", "l := root.With().Str(a, 1).Logger(); l.UpdateContext(func(c) { return c.<M>(f, v) })"} {
		for _, pre := range []int{0, 1, 3} {
			for _, fa := range fieldSliceArgs() {
				root := zerolog.New(w)
				for i := 0; i < pre; i++ {
					root = root.With().Str(fmt.Sprintf("r%d", i), "x").Logger()
				}
				var l zerolog.Logger
				if strings.Contains(how, "UpdateContext") {
					l = root.With().Str("a", "1").Logger()
					l.UpdateContext(func(cx zerolog.Context) zerolog.Context { return fa.apply(cx) })
				} else {
					l = fa.apply(root.With()).Logger()
				}
				kid := l.With().Str("kid", "1").Logger()
				lvl := l.Level(zerolog.Level(-128))
				before := []string{read(&l), read(&kid), read(&lvl)}
				fa.mutate()
				late := l.With().Str("late", "1").Logger()
				after := []string{read(&l), read(&kid), read(&lvl)}
				lateLine := read(&late)
				wantLate := strings.TrimSuffix(before[0], ",\"message\":\"m\"}\n") + ",\"late\":\"1\",\"message\":\"m\"}\n"
				n++
				c.Count("fieldslice "+how+" "+fa.name+fmt.Sprint(pre), true)
				names := []string{"l", "kid := l.With().Str(kid, 1).Logger() [taken before]", "l.Level(-128) [taken before]"}
				for i := range before {
					if before[i] != after[i] || before[i] == "" {
						c.Violate(Violation{Key: "context-argument-slice-retained", Monitor: "context-of-path",
							Desc: fmt.Sprintf("%s with <M> = %s, v a caller-owned slice/map with spare capacity, root with %d fields: the logger [%s] emitted %q; after the caller overwrote / appended to / cleared v it emits %q", how, fa.name, pre, names[i], before[i], after[i]),
							Case: map[string]interface{}{"derivation": how, "method": fa.name, "root_fields": pre, "logger": names[i]}, Observed: after[i], Expected: before[i]})
						break
					}
				}
				if lateLine != wantLate {
					c.Violate(Violation{Key: "context-argument-slice-retained", Monitor: "context-of-path",
						Desc: fmt.Sprintf("%s with <M> = %s, v a caller-owned slice/map with spare capacity, root with %d fields: l emitted %q; a child l.With().Str(late, 1).Logger() taken after the caller overwrote / appended to / cleared v emits %q", how, fa.name, pre, before[0], lateLine),
						Case: map[string]interface{}{"derivation": how, "method": fa.name, "root_fields": pre, "logger": "late := l.With().Str(late, 1).Logger() [taken after]"}, Observed: lateLine, Expected: wantLate})
				}
			}
		}
	}
	c.Res.Evaluations += 7 * n
	c.Res.ExtraCoverage["field_slice_programs"] = n
}
