package main

// C05 - derived loggers are independent values.
// Derivation programs (SSA: statement k defines variable k) are run on the real
// zerolog; every HEmit reads the logger's context through a field-less event.
// The Coq heap model (Heap/LoggerHeap.v) must predict those bytes - also for
// programs outside the property's language (a Context value used twice), which
// is what validates the aliasing model.  Monitor: inside the language the bytes
// must equal the pure context of the variable's own derivation path.
// Context methods are appends or Reset() (alone or inside UpdateContext); Level
// copies carry a level, so that a path can be muted (Disabled) and re-enabled
// further down: a muted logger must stay silent and an enabled one must emit
// exactly the events at or above the level of its own path.

import (
	"bytes"
	"context"
	"fmt"
	"os"
	"path/filepath"
	"strings"
	"sync"

	"github.com/rs/zerolog"
	"verifharness/hlib"
	. "verifharness/hlib"
)

func main() { hlib.Main(map[string]func(*hlib.Ctx){"C05": run}) }

type stmt struct {
	K     string   `json:"k"` // root with op reset logger copy output update emit
	X     int      `json:"x"`
	Key   string   `json:"key,omitempty"`
	Val   string   `json:"val,omitempty"`
	KVs   []string `json:"kvs,omitempty"`   // update: k1,v1,k2,v2... in call order; the pair (resetKey, "") is a call of Reset()
	D     [][]byte `json:"-"`               // op: the delta the model is given
	Ops   []string `json:"-"`               // update: the context methods as the model is given them (CApp d | CReset)
	Via   int      `json:"via,omitempty"`   // copy flavour: 0 Level(Lvl) 1 Sample(sampler Smp) 2 Hook()
	Smp   int      `json:"smp,omitempty"`   // copy via 1: 0 Sample(nil); k > 0 Sample(s_k), the same k being the same sampler object
	Lvl   int      `json:"-"`               // copy via 0: the level set
	Level string   `json:"level,omitempty"` // the same, for the replay file
	Muted bool     `json:"muted,omitempty"` // emit: the logger's path level is Disabled, nothing may come out (set by execute)
	// op: the context method that adds the field (default Str): "array-user" Array(k, userArrayMarshaler{v}),
	// "array" Array(k, Arr().Str(v)), "dict" Dict(k, Dict().Str("in", v)), "object" Object(k, m{in: v}),
	// "embed" EmbedObject(m{k: v}), "fields" Fields([]interface{}{k, v}), "iface" Interface(k, m{in: v})
	Meth string `json:"meth,omitempty"`
	// emit: what the event is given besides the context: 0 nothing; 1 two arrays open at once, filled alternately;
	// 2 two dicts open at once; 3 three arrays and a dict, attached in reverse order of creation
	Open int `json:"open,omitempty"`
	// root: how the field-less root is obtained (tiny.go): 0 New(w); 1 Nop().Output(w); 2 Logger{}.Output(w);
	// 3 New(w).Hook(); each followed by Level(wide)
	Root int `json:"root,omitempty"`
}

// the bytes a context method adds for (key, val), as JSON written independently of zerolog
func methodValue(meth, key, val string) (k string, raw string) {
	switch meth {
	case "array-user", "array":
		return key, fmt.Sprintf("[%q]", val)
	case "dict", "object", "iface":
		return key, fmt.Sprintf("{\"in\":%q}", val)
	case "int", "bool":
		return key, val // Int(key, n) / Bool(key, b): val is the decimal / true|false text
	}
	return key, fmt.Sprintf("%q", val) // Str, embed, fields
}

func applyMethod(cx zerolog.Context, meth, key, val string) zerolog.Context {
	switch meth {
	case "array-user":
		return cx.Array(key, userArr{vals: []string{val}})
	case "array":
		return cx.Array(key, zerolog.Arr().Str(val))
	case "dict":
		return cx.Dict(key, zerolog.Dict().Str("in", val))
	case "object":
		return cx.Object(key, strObj{"in", val})
	case "iface":
		return cx.Interface(key, strObj{"in", val})
	case "embed":
		return cx.EmbedObject(strObj{key, val})
	case "fields":
		return cx.Fields([]interface{}{key, val})
	case "int":
		n := 0
		fmt.Sscanf(val, "%d", &n)
		return cx.Int(key, n)
	case "bool":
		return cx.Bool(key, val == "true")
	}
	return cx.Str(key, val)
}

// sendOpen finishes a level-less event of l that is given the extra fields of flavour [open]; returns the
// bytes those fields must occupy at the end of the line (without the leading comma)
func sendOpen(l *zerolog.Logger, open int) string {
	switch open {
	case 1:
		a1, a2 := zerolog.Arr(), zerolog.Arr()
		for i := 0; i < 3; i++ {
			a1.Int(i)
			a2.Str(string(rune('x' + i)))
		}
		l.Log().Array("ia", a1).Array("ib", a2).Send()
		return `"ia":[0,1,2],"ib":["x","y","z"]`
	case 2:
		d1, d2 := zerolog.Dict(), zerolog.Dict()
		d1.Int("a", 1)
		d2.Str("b", "x")
		d1.Int("c", 2)
		d2.Str("d", "y")
		l.Log().Dict("da", d1).Dict("db", d2).Send()
		return `"da":{"a":1,"c":2},"db":{"b":"x","d":"y"}`
	case 3:
		a1, a2, d, a3 := zerolog.Arr(), zerolog.Arr(), zerolog.Dict(), zerolog.Arr()
		for i := 0; i < 2; i++ {
			a1.Int(i)
			a2.Str(string(rune('x' + i)))
			a3.Bool(i == 0)
			d.Int(string(rune('p'+i)), i)
		}
		l.Log().Array("i3", a3).Dict("id", d).Array("i2", a2).Array("i1", a1).Send()
		return `"i3":[true,false],"id":{"p":0,"q":1},"i2":["x","y"],"i1":[0,1]`
	}
	l.Log().Send()
	return ""
}

const resetKey = "<Reset()>"

const wide = -128 // a level below every event level: the logger lets everything through

// a Level copy
func lcopy(x, lvl int) stmt {
	return stmt{K: "copy", X: x, Via: 0, Lvl: lvl, Level: fmt.Sprintf("Level(%d)", lvl)}
}

// recSampler: a sampler that records who was asked and answers what the harness decided for the event at hand
type recSampler struct {
	id  int
	env *samplerEnv
}

type samplerEnv struct {
	admit bool  // the answer every sampler gives for the event being sent
	asked []int // ids of the samplers consulted since the last reset
}

func (s *recSampler) Sample(zerolog.Level) bool {
	s.env.asked = append(s.env.asked, s.id)
	return s.env.admit
}

// a Sample copy (k = 0: Sample(nil))
func scopy(x, k int) stmt { return stmt{K: "copy", X: x, Via: 1, Smp: k} }

type cell struct {
	smp   int // the sampler of this variable's derivation path (0: none)
	isCtx bool
	ctx   zerolog.Context
	log   *zerolog.Logger
	pure  []byte // what this variable's context should be
	lvl   int    // the minimum level of this variable's derivation path
	live  bool
	own   bool
	nilc  bool
}

type lastWriter struct{ last []byte }

func (w *lastWriter) Write(p []byte) (int, error) {
	w.last = append([]byte{}, p...)
	return len(p), nil
}

func member(pure []byte, k, v string) []byte {
	return memberRaw(pure, k, fmt.Sprintf("%q", v))
}

func memberRaw(pure []byte, k, raw string) []byte {
	var d []byte
	if len(pure) > 1 {
		d = append(d, ',')
	}
	d = append(d, fmt.Sprintf("%q:%s", k, raw)...)
	return d
}

// execute runs the program on the real code; returns observations, whether it is in the property's language,
// and whether it reuses a Context value (K1 shape)
func execute(p []stmt) (obs [][]byte, want [][]byte, inLang bool, reuse bool, lvlBad string, openBad string, smpBad string) {
	zerolog.SetGlobalLevel(zerolog.Level(-128))
	defer zerolog.SetGlobalLevel(zerolog.DebugLevel)
	w := &lastWriter{}
	var cells []cell
	inLang = true
	env := &samplerEnv{admit: true}
	samplers := map[int]*recSampler{}
	anySampler := false
	for _, s := range p {
		anySampler = anySampler || (s.K == "copy" && s.Via == 1 && s.Smp != 0)
	}
	// the samplers an event consulted: only the sampler of the logger's own derivation path may be asked
	askedBad := func(i int, c *cell, what string) {
		for _, id := range env.asked {
			if id != c.smp && smpBad == "" {
				own := "has no sampler (the nearest Sample() on its path was given nil, or there is none)"
				if c.smp != 0 {
					own = fmt.Sprintf("has sampler s%d", c.smp)
				}
				smpBad = fmt.Sprintf("statement %d: %s of a logger whose derivation path %s consulted sampler s%d", i, what, own, id)
			}
		}
		env.asked = env.asked[:0]
	}
	for i := range p {
		s := &p[i]
		get := func() *cell { return &cells[s.X] }
		switch s.K {
		case "root":
			var l zerolog.Logger
			switch s.Root {
			case 1:
				l = zerolog.Nop().Output(w).Level(zerolog.Level(wide))
			case 2:
				l = zerolog.Logger{}.Output(w).Level(zerolog.Level(wide))
			case 3:
				l = zerolog.New(w).Hook().Level(zerolog.Level(wide))
			default:
				l = zerolog.New(w).Level(zerolog.Level(wide))
			}
			cells = append(cells, cell{log: &l, live: true, nilc: true, lvl: wide})
		case "with":
			c := get()
			if !c.live || c.isCtx {
				inLang = false
			}
			pure := append([]byte{}, c.pure...)
			if len(pure) == 0 {
				pure = []byte("{")
			}
			cells = append(cells, cell{isCtx: true, ctx: c.log.With(), pure: pure, live: true, own: true, lvl: c.lvl, smp: c.smp})
		case "op":
			c := get()
			if !c.live {
				reuse = true
			}
			if !c.live || !c.own {
				inLang = false
			}
			mk, mraw := methodValue(s.Meth, s.Key, s.Val)
			d := memberRaw(c.pure, mk, mraw)
			s.D = [][]byte{d}
			nc := cell{isCtx: true, ctx: applyMethod(c.ctx, s.Meth, s.Key, s.Val), pure: append(append([]byte{}, c.pure...), d...), live: true, own: true, lvl: c.lvl, smp: c.smp}
			c.live = false
			cells = append(cells, nc)
		case "reset":
			c := get()
			if !c.live {
				reuse = true
			}
			if !c.live || !c.own {
				inLang = false
			}
			nc := cell{isCtx: true, ctx: c.ctx.Reset(), pure: []byte("{"), live: true, own: true, lvl: c.lvl, smp: c.smp}
			c.live = false
			cells = append(cells, nc)
		case "logger":
			c := get()
			if !c.live {
				reuse = true
			}
			if !c.live || !c.own {
				inLang = false
			}
			l := c.ctx.Logger()
			pure := c.pure
			c.live = false
			cells = append(cells, cell{log: &l, pure: pure, live: true, own: true, lvl: c.lvl, smp: c.smp})
		case "copy":
			c := get()
			var l zerolog.Logger
			lvl := c.lvl
			smp := c.smp
			switch s.Via {
			case 0:
				l = c.log.Level(zerolog.Level(s.Lvl))
				lvl = s.Lvl
			case 1:
				smp = s.Smp
				if s.Smp == 0 {
					l = c.log.Sample(nil)
				} else {
					if samplers[s.Smp] == nil {
						samplers[s.Smp] = &recSampler{id: s.Smp, env: env}
					}
					l = c.log.Sample(samplers[s.Smp])
				}
			default:
				l = c.log.Hook()
			}
			cells = append(cells, cell{log: &l, pure: c.pure, live: true, nilc: c.nilc, lvl: lvl, smp: smp})
		case "output":
			c := get()
			l := c.log.Output(w)
			cells = append(cells, cell{log: &l, pure: c.pure, live: true, own: !c.nilc, nilc: c.nilc, lvl: c.lvl, smp: c.smp})
		case "update":
			c := get()
			if !c.own {
				inLang = false
			}
			pure := append([]byte{}, c.pure...)
			s.Ops = nil
			for j := 0; j+1 < len(s.KVs); j += 2 {
				if s.KVs[j] == resetKey {
					s.Ops = append(s.Ops, "CReset")
					pure = []byte("{")
					continue
				}
				d := member(pure, s.KVs[j], s.KVs[j+1])
				s.Ops = append(s.Ops, "CApp "+CoqBytes(d))
				pure = append(pure, d...)
			}
			kvs := s.KVs
			c.log.UpdateContext(func(cx zerolog.Context) zerolog.Context {
				for j := 0; j+1 < len(kvs); j += 2 {
					if kvs[j] == resetKey {
						cx = cx.Reset()
					} else {
						cx = cx.Str(kvs[j], kvs[j+1])
					}
				}
				return cx
			})
			c.pure = pure
			cells = append(cells, cell{}) // keeps variable numbering aligned with the statement index (a dead slot)
		case "emit":
			c := get()
			w.last = nil
			env.admit, env.asked = true, env.asked[:0]
			extra := sendOpen(c.log, s.Open)
			line := w.last
			askedBad(i, c, "the level-less event")
			garbled := false
			o := bytes.TrimSuffix(line, []byte("}\n"))
			if extra != "" && line != nil {
				// the event's own arrays/dicts come last; what precedes them is the logger's context
				switch {
				case bytes.HasSuffix(o, []byte(","+extra)):
					o = o[:len(o)-len(extra)-1]
				case bytes.Equal(o, []byte("{"+extra)):
					o = []byte("{")
				default:
					garbled = true
					if openBad == "" {
						openBad = fmt.Sprintf("statement %d: the event was given %s (arrays/dicts created together and filled alternately) but reads %q", i, extra, line)
					}
				}
			}
			s.Muted = c.lvl > int(zerolog.NoLevel)
			if s.Muted {
				// a muted logger reads no context at all: no observation (and no HEmit for the model)
				if line != nil && lvlBad == "" {
					lvlBad = fmt.Sprintf("statement %d: a logger whose path level is %d (Disabled) emitted %q through Log()", i, c.lvl, line)
				}
			} else {
				obs = append(obs, o)
				pw := c.pure
				if len(pw) == 0 {
					pw = []byte("{")
				}
				want = append(want, pw)
			}
			// the level of the derivation path: an event of level lv comes out iff lv >= that level, and
			// carries the same context as the level-less event above
			for lv := int(zerolog.TraceLevel); lv <= int(zerolog.PanicLevel) && lvlBad == "" && !garbled; lv++ {
				if anySampler && lv >= c.lvl {
					// every sampler of the program says no: the event comes out iff the logger's path has no sampler
					w.last = nil
					env.admit = false
					c.log.WithLevel(zerolog.Level(lv)).Send()
					env.admit = true
					askedBad(i, c, fmt.Sprintf("a level-%d event", lv))
					switch {
					case smpBad != "":
					case c.smp != 0 && w.last != nil:
						smpBad = fmt.Sprintf("statement %d: a logger whose derivation path has sampler s%d emitted the level-%d event %q although that sampler rejects it", i, c.smp, lv, w.last)
					case c.smp == 0 && w.last == nil:
						smpBad = fmt.Sprintf("statement %d: a logger whose derivation path has no sampler (the nearest Sample() on its path was given nil, or there is none) dropped a level-%d event that the samplers of other loggers reject", i, lv)
					}
				}
				w.last = nil
				c.log.WithLevel(zerolog.Level(lv)).Send()
				askedBad(i, c, fmt.Sprintf("a level-%d event", lv))
				switch {
				case lv < c.lvl && w.last != nil:
					lvlBad = fmt.Sprintf("statement %d: a logger whose path level is %d emitted the level-%d event %q", i, c.lvl, lv, w.last)
				case lv >= c.lvl && w.last == nil:
					lvlBad = fmt.Sprintf("statement %d: a logger whose path level is %d dropped a level-%d event", i, c.lvl, lv)
				case lv >= c.lvl:
					exp := []byte(fmt.Sprintf("{\"level\":%q", zerolog.Level(lv).String()))
					if len(o) > 1 {
						exp = append(append(exp, ','), o[1:]...)
					}
					exp = append(exp, "}\n"...)
					if !bytes.Equal(exp, w.last) {
						lvlBad = fmt.Sprintf("statement %d: the level-%d event reads %q, the level-less event of the same logger carried the context %q", i, lv, w.last, o)
					}
				}
			}
			cells = append(cells, cell{})
		}
	}
	return
}

// the Coq statement list: variables are numbered by the statements that define one (update/emit define none)
func progCoq(p []stmt) string {
	idx := make([]int, len(p)) // statement index -> variable index
	n := 0
	for i, s := range p {
		idx[i] = n
		if s.K != "update" && s.K != "emit" {
			n++
		}
	}
	// (an emit through a muted logger reads nothing and is not part of the model's program)
	var xs []string
	for _, s := range p {
		x := 0
		if s.K != "root" {
			x = idx[s.X]
		}
		switch s.K {
		case "root":
			xs = append(xs, "HRoot")
		case "with":
			xs = append(xs, fmt.Sprintf("HWith %d", x))
		case "op":
			xs = append(xs, fmt.Sprintf("HOp %d %s", x, CoqBytes(s.D[0])))
		case "reset":
			xs = append(xs, fmt.Sprintf("HReset %d", x))
		case "logger":
			xs = append(xs, fmt.Sprintf("HLogger %d", x))
		case "copy":
			xs = append(xs, fmt.Sprintf("HCopy %d", x))
		case "output":
			xs = append(xs, fmt.Sprintf("HOutput %d", x))
		case "update":
			xs = append(xs, fmt.Sprintf("HUpdate %d %s", x, CoqList(s.Ops)))
		case "emit":
			if !s.Muted {
				xs = append(xs, fmt.Sprintf("HEmit %d", x))
			}
		}
	}
	return CoqList(xs)
}

var richMeths = []string{"", "array-user", "array", "dict", "object", "embed", "fields", "iface", "array-user"}

// rich: context fields are added through every kind of context method that uses a pooled helper object, and the
// events keep several arrays/dicts open at once
func genProg(r *Rng, nonlinear bool, big bool, rich bool) []stmt {
	p := []stmt{{K: "root"}}
	type vinfo struct {
		isCtx, dead, own, slot, nilc bool
		lvl                          int
	}
	vars := []vinfo{{nilc: true, lvl: wide}}
	n := 6 + r.Intn(22)
	seq := 0
	pick := func(f func(v vinfo) bool) int {
		var c []int
		for i, v := range vars {
			if !v.slot && f(v) {
				c = append(c, i)
			}
		}
		if len(c) == 0 {
			return -1
		}
		return c[r.Intn(len(c))]
	}
	val := func() string {
		seq++
		if big && r.Chance(30) {
			return strings.Repeat("v", 100+r.Intn(300))
		}
		return fmt.Sprintf("v%d", seq)
	}
	for i := 0; i < n; i++ {
		switch c := r.Intn(20); {
		case c < 4: // With on a logger
			x := pick(func(v vinfo) bool { return !v.isCtx })
			p = append(p, stmt{K: "with", X: x})
			vars = append(vars, vinfo{isCtx: true, own: true, lvl: vars[x].lvl})
		case c < 9: // context op
			x := pick(func(v vinfo) bool { return v.isCtx && (!v.dead || nonlinear) })
			if x < 0 {
				continue
			}
			seq++
			if r.Chance(12) { // Reset() instead of an appending method
				p = append(p, stmt{K: "reset", X: x})
			} else {
				st := stmt{K: "op", X: x, Key: fmt.Sprintf("k%d", seq), Val: val()}
				if rich {
					st.Meth = richMeths[r.Intn(len(richMeths))]
				}
				p = append(p, st)
			}
			vars[x].dead = true
			vars = append(vars, vinfo{isCtx: true, own: true, lvl: vars[x].lvl})
		case c < 12: // Logger()
			x := pick(func(v vinfo) bool { return v.isCtx && (!v.dead || nonlinear) })
			if x < 0 {
				continue
			}
			p = append(p, stmt{K: "logger", X: x})
			vars[x].dead = true
			vars = append(vars, vinfo{own: true, lvl: vars[x].lvl})
		case c < 14:
			x := pick(func(v vinfo) bool { return !v.isCtx })
			st := stmt{K: "copy", X: x, Via: r.Intn(3)}
			lvl := vars[x].lvl
			if st.Via == 0 {
				// mostly wide open; otherwise an ordinary level, NoLevel, or Disabled (the path is muted until a
				// later Level copy opens it again)
				lvl = wide
				if r.Chance(45) {
					lvl = []int{-1, 0, 1, 2, 3, 5, 6, 7, 7, 7, 7}[r.Intn(11)]
				}
				st = lcopy(x, lvl)
			}
			if st.Via == 1 {
				// Sample(nil), one of two samplers shared over the tree, or a fresh one (chosen without drawing
				// from r: the programs are otherwise those of the sampler-less generator)
				st.Smp = []int{0, 0, 1, 2, 1, 10 + i}[(n+3*i+5*x)%6]
			}
			p = append(p, st)
			vars = append(vars, vinfo{nilc: vars[x].nilc, lvl: lvl})
		case c == 14:
			x := pick(func(v vinfo) bool { return !v.isCtx })
			p = append(p, stmt{K: "output", X: x})
			vars = append(vars, vinfo{own: !vars[x].nilc, nilc: vars[x].nilc, lvl: vars[x].lvl})
		case c < 17: // UpdateContext on an owner logger
			x := pick(func(v vinfo) bool { return !v.isCtx && v.own })
			if x < 0 {
				continue
			}
			var kvs []string
			for j := 1 + r.Intn(3); j > 0; j-- {
				if r.Chance(12) { // the update function calls Reset() at this point
					kvs = append(kvs, resetKey, "")
				}
				seq++
				kvs = append(kvs, fmt.Sprintf("u%d", seq), val())
			}
			if r.Chance(4) { // ... or last, leaving an empty context
				kvs = append(kvs, resetKey, "")
			}
			p = append(p, stmt{K: "update", X: x, KVs: kvs})
			vars = append(vars, vinfo{slot: true})
		default:
			x := pick(func(v vinfo) bool { return !v.isCtx })
			st := stmt{K: "emit", X: x}
			if rich {
				st.Open = r.Intn(4)
			}
			p = append(p, st)
			vars = append(vars, vinfo{slot: true})
		}
	}
	// emit from every logger at the end, in a random order
	var ls []int
	for i, v := range vars {
		if !v.isCtx && !v.slot {
			ls = append(ls, i)
		}
	}
	for i := len(ls) - 1; i > 0; i-- {
		j := r.Intn(i + 1)
		ls[i], ls[j] = ls[j], ls[i]
	}
	for _, x := range ls {
		st := stmt{K: "emit", X: x}
		if rich {
			st.Open = r.Intn(4)
		}
		p = append(p, st)
		if vars[x].lvl > int(zerolog.NoLevel) {
			// a muted logger says nothing itself: what its path carries is read through a Level copy that opens it again
			p = append(p, lcopy(x, []int{wide, wide, -1, 1, 4, 6}[r.Intn(6)]))
			p = append(p, stmt{K: "emit", X: len(p) - 1})
		}
	}
	return p
}

type ctxKey struct{}

type probeObj struct{ seen *[]interface{} }

func (p probeObj) MarshalZerologObject(e *zerolog.Event) {
	*p.seen = append(*p.seen, e.GetCtx().Value(ctxKey{}))
	e.Str("probe", "x")
}

type probeHook struct{ seen *[]interface{} }

func (h probeHook) Run(e *zerolog.Event, l zerolog.Level, m string) {
	*h.seen = append(*h.seen, e.GetCtx().Value(ctxKey{}))
}

func run(c *Ctx) {
	c.Res.Rule = "derivation programs in SSA form over With / context ops / Logger / Level|Sample|Hook copies / Output / UpdateContext / emit, random trees (6-28 statements, branching, events from every node in random order); 3 streams: inside the property's language, with large values (contexts beyond the 500-byte capacity), and non-linear (a Context value reused: outside the language, K1 shape); context methods are appends or Reset() (on a Context value or inside the UpdateContext function); Level copies set wide / trace..panic / NoLevel / Disabled, every emit also sends one event per level trace..panic (emitted iff at or above the path's level, same context), a muted logger is read through a re-opening Level copy; directed sweeps: Reset() with live relatives (0/1/3 parent fields x Level|Sample|Hook|With|Output relatives x 4 update shapes x UpdateContext|Context value) and muted paths (Level(Disabled|NoLevel|warn|wide) before With() x 0/2 fields x With|Output owner x 3 update shapes x re-opening level); the sampler of the path (Sample copies are given nil, one of two samplers shared over the tree or a fresh one; recording samplers that answer what the harness decides per event: a logger must consult the sampler of its own path only, emit nothing that sampler rejects and everything when its path has none; directed: 3 positions x none|Sample(nil)|Sample(fresh)|Sample(shared) x 6 kinds of derivation step in between, Sample(nil)/Sample(shared) siblings at every position); a stream of rich programs (fields added through Array(user marshaler|Arr()) / Dict / Object / EmbedObject / Fields / Interface, events given 2-3 arrays/dicts that were open at once and filled alternately); pool sweeps: Go-context leavers (10 ways an event given a context ends: Msg/Send, With().Ctx, Dict().Ctx(c) into Event.Dict|Array.Dict|Context.Dict|nil event|another dict, marshalers calling e.Ctx) x 1-3 open at once x 25 takers (marshalers/hooks reached through helper or logger events of a context-less logger) and objects-handed-out-twice (derivation/event actions using pooled arrays and dicts, and every way an event ends its life unwritten - rejected by one / two / three hooks of its derivation path, discarded once or twice by the caller, both, each finished with Msg|Send|Msgf|MsgFunc, recovered Panic(), rejected by a sampler, a hook logging elsewhere before rejecting - x 7 ways a sibling keeps arrays/dicts/events open at once); the Go context of the derivation path = the argument of the last Ctx call on it, nil meaning none (With().Ctx(fresh|nil|shared|none) at three positions x 7 kinds of derivation step in between x three siblings per position, every node read directly and through a Hook() copy; every sequence of 0-3 Event.Ctx(fresh|other|nil|Background) calls on loggers with no / a / a replaced / a removed context, through Info|Log|WithLevel|Err and Print|Printf|Write, every finalizer; pairs of Ctx calls inside one With() chain with marshalers between them; readers: hooks at the root and the leaf and Func callbacks must see exactly that context, marshalers on the event and on the helper events of Dict / Arr / user arrays / Fields / Context.Object|EmbedObject|Dict|Array|Fields, and inside Dict().Ctx(d).Ctx(nil), that context or background); hook lists handed over as a caller-owned slice (parent.Hook(hs...), 1-3 hooks, full / spare capacity / a window of a larger array) under parents with 0-3 hooks (added one per call or as a slice) and one derivation step of each kind before the call, three siblings per parent, the caller afterwards leaving the slice alone / refilling it for the next sibling / overwriting it with other hooks or nil / appending and overwriting the backing array / rotating it, five relatives of each sibling taken before and three after: every logger runs exactly the hooks of its path; every Context method taking a slice or map (Strs, Ints..Uints64, Floats, Bools, Durs, Times, Errs, Bytes, Hex, RawJSON, IPAddr, MACAddr, Fields, Interface) given a caller-owned slice that is overwritten / appended to afterwards, in With()...Logger() and inside UpdateContext: every line reads as before; tiny contexts (field-less roots obtained as New(w) / Nop().Output(w) / Logger{}.Output(w) / New(w).Hook(); children whose whole context is 6-9 bytes - Int(a,1), Bool(b,true), Str of empty key and value, empty keys ...: every ordered pair of 8 tiny fields x siblings of one root / children of two unrelated roots / two Context values alive at once, UpdateContext adding a tiny field to root.With().Logger(), through the heap model and the path monitor; goroutines deriving tiny children of their own roots); the stack flag of the derivation path (ErrorStackMarshaler installed / nil x 10 kinds of derivation step x With().Stack() at any of three positions, siblings enabling it, every node read through Err / Logger.Err / Fields with an error / a child With().Err / Stack() on the event: the stack field appears exactly when the marshaler is installed and the path or the event enabled it); plus GetCtx probes through pooled helper events, Output keeping the Go context, and a concurrent run under the race detector. Non-trivial = at least 3 emits from at least 2 different arrays' worth of branches; distinct by program text"
	c.OpenShards("From Verif Require Import Base.Prelude Misc.HlogHeap Heap.LoggerHeap Harness.C05H.", "list hstmt * list (list N)", "mismatches c05_run c05_eqb", 400)
	n := 1500
	if c.Thorough() {
		n = 20000
	}
	k1seen := false
	emitCase := func(p []stmt, modelToo bool) {
		obs, want, inLang, reuse, lvlBad, openBad, smpBad := execute(p)
		if smpBad != "" {
			c.Violate(Violation{Key: "sampler-of-path-wrong", Monitor: "path-sampler", Desc: smpBad + " (the sampler of a logger is the argument of the nearest Sample() on its derivation path, nil meaning none; every sampler here answers what the harness decided for the event at hand and records that it was asked)", Case: p})
		}
		// A program that uses a Context value as the receiver of two calls (K1, known finding ctx-value-branched) can leave a
		// logger whose context is cut in the middle of a value (`..."k15":{`): the event's first field is then appended
		// without a comma and the given arrays/dicts appear nested in that value.  What the open-at-once monitor reads,
		// and the context part of the line shipped to the model, are then not well-defined: such programs are judged by
		// path-spec (under K1's key) only.  (Thorough tier, seed 1, program 16801 raised a false pooled-object-shared
		// alarm this way; DESIGN.md section 0.)
		hasOpen := false
		for _, st := range p {
			if st.K == "emit" && st.Open != 0 {
				hasOpen = true
			}
		}
		if reuse && hasOpen {
			openBad = ""
			if modelToo {
				modelToo = false
				c.Hist("model_case", "K1 program with open-at-once events: monitors only")
			}
		}
		if openBad != "" {
			c.Violate(Violation{Key: "pooled-object-shared", Monitor: "open-at-once", Desc: openBad + " (the arrays/dicts an event is given were handed out twice by the pool, or carry something left by an earlier derivation step)", Case: p})
		}
		if lvlBad != "" && inLang {
			c.Violate(Violation{Key: "level-of-path-wrong", Monitor: "path-level", Desc: lvlBad, Case: p})
		}
		for _, st := range p {
			switch {
			case st.K == "op" && st.Meth != "":
				c.Hist("context_method", st.Meth)
			case st.K == "emit" && st.Open != 0 && !st.Muted:
				c.Hist("emit", fmt.Sprintf("read, open-at-once flavour %d", st.Open))
			case st.K == "emit" && st.Open != 0:
				c.Hist("emit", "muted, open-at-once")
			case st.K == "copy" && st.Via == 1:
				c.Hist("sample_copy", map[bool]string{true: "Sample(nil)", false: "Sample(s)"}[st.Smp == 0])
			case st.K == "reset":
				c.Hist("reset", "Context.Reset")
			case st.K == "update" && strings.Contains(strings.Join(st.KVs, "\x00"), resetKey):
				c.Hist("reset", "inside UpdateContext")
			case st.K == "emit" && st.Muted:
				c.Hist("emit", "muted")
			case st.K == "emit":
				c.Hist("emit", "read")
			}
		}
		if modelToo {
			os := make([]string, len(obs))
			for i, o := range obs {
				os[i] = CoqBytes(o)
			}
			term := "(" + progCoq(p) + ", " + CoqList(os) + ")"
			c.AddCase(term, map[string]interface{}{"program": p, "in_language": inLang})
			c.Count(term, len(obs) >= 3)
		} else {
			c.Count(fmt.Sprint(p), len(obs) >= 3)
		}
		for i := range obs {
			if !bytes.Equal(obs[i], want[i]) {
				desc := fmt.Sprintf("emit #%d carries %q, its derivation path says %q", i, obs[i], want[i])
				if inLang {
					c.Violate(Violation{Key: "derived-logger-context-wrong", Monitor: "path-spec", Desc: desc, Case: p, Observed: string(obs[i]), Expected: string(want[i])})
				} else if reuse {
					if !k1seen {
						k1seen = true
					}
					c.Violate(Violation{Key: "ctx-value-branched", Monitor: "path-spec", Desc: "a Context value used as the receiver of two calls: " + desc, Case: p, Observed: string(obs[i]), Expected: string(want[i])})
				} else {
					c.Violate(Violation{Key: "outside-language-context-wrong", Monitor: "path-spec", Desc: desc, Case: p})
				}
				break
			}
		}
		c.Hist("in_language", fmt.Sprint(inLang))
		c.Sample(map[string]interface{}{"program": p, "in_language": inLang, "emits": len(obs)})
	}
	// corpus: K1 witness as in DESIGN/KNOWN_FINDINGS
	emitCase([]stmt{{K: "root"}, {K: "with", X: 0}, {K: "op", X: 1, Key: "base", Val: "1"}, {K: "op", X: 2, Key: "br", Val: "AAAA"}, {K: "logger", X: 3},
		{K: "op", X: 2, Key: "br", Val: "BBBB"}, {K: "logger", X: 5}, {K: "emit", X: 4}, {K: "emit", X: 6}}, true)
	// ---- the sampler of the derivation path (directed, complete over the listed shapes) ----
	// three positions down one path, each with no Sample() call / Sample(nil) / Sample(fresh sampler) /
	// Sample(the one sampler shared over the tree); between the positions one derivation step of a given kind
	// (none / With()+field / Level / Output / Hook() / UpdateContext on a With() owner); at every position two
	// siblings (Sample(nil) and Sample(shared) of the node) are taken as well.  Every node is read, in creation
	// order and in reverse: it must consult the sampler of its own path only, emit what that sampler admits
	// and everything when its path has none.
	{
		nsweep := 0
		for kind := 0; kind < 6; kind++ {
			for code := 0; code < 64; code++ {
				p := []stmt{{K: "root"}}
				cur := 0
				nodes := []int{0}
				fresh := 10
				for pos := 0; pos < 3; pos++ {
					switch kind {
					case 1, 5:
						p = append(p, stmt{K: "with", X: cur})
						p = append(p, stmt{K: "op", X: len(p) - 1, Key: fmt.Sprintf("pos%d", pos), Val: "v"})
						p = append(p, stmt{K: "logger", X: len(p) - 1})
						cur = len(p) - 1
						if kind == 5 {
							p = append(p, stmt{K: "update", X: cur, KVs: []string{fmt.Sprintf("u%d", pos), "w"}})
						}
					case 2:
						p = append(p, lcopy(cur, []int{wide, 1, wide}[pos]))
						cur = len(p) - 1
					case 3:
						p = append(p, stmt{K: "output", X: cur})
						cur = len(p) - 1
					case 4:
						p = append(p, stmt{K: "copy", X: cur, Via: 2})
						cur = len(p) - 1
					}
					switch (code >> (2 * uint(pos))) & 3 {
					case 1:
						p = append(p, scopy(cur, 0))
						cur = len(p) - 1
					case 2:
						fresh++
						p = append(p, scopy(cur, fresh))
						cur = len(p) - 1
					case 3:
						p = append(p, scopy(cur, 1))
						cur = len(p) - 1
					}
					nodes = append(nodes, cur)
					p = append(p, scopy(cur, 0))
					nodes = append(nodes, len(p)-1)
					p = append(p, scopy(cur, 1))
					nodes = append(nodes, len(p)-1)
				}
				for _, x := range nodes {
					p = append(p, stmt{K: "emit", X: x})
				}
				for i := len(nodes) - 1; i >= 0; i -= 2 {
					p = append(p, stmt{K: "emit", X: nodes[i]})
				}
				emitCase(p, false)
				nsweep++
			}
		}
		c.Res.ExtraCoverage["sampler_path_sweep_programs"] = nsweep
	}

	for i := 0; i < n; i++ {
		r := c.R.Fork()
		switch i % 5 {
		case 0:
			emitCase(genProg(r, true, false, false), true) // non-linear, small values: model must still predict the bytes
		case 1:
			emitCase(genProg(r, false, true, false), false) // in language, beyond capacity: growth policy differs from the model's; monitor only
		default:
			emitCase(genProg(r, false, false, false), true)
		}
	}

	// ---- Reset() while relatives are alive (directed, complete over the listed shapes) ----
	// a With()-produced parent with 0/1/3 fields; relatives taken from it BEFORE the reset: header copies
	// (Level / Sample / Hook share the parent's array), a With() child, an Output() child; then the parent's
	// context is replaced through UpdateContext(func(c) { ... c.Reset() ... }) in four shapes; every relative
	// must still emit the old fields, the parent the new ones; a relative taken AFTER the reset and one more
	// append through the parent follow.  Same with the reset done on a Context value (With().Reset()...).
	{
		shapes := [][]string{
			{resetKey, ""},
			{resetKey, "", "t", "acme"},
			{"a", "1", resetKey, "", "t", "acme"},
			{resetKey, "", "t", "acme", "long", strings.Repeat("L", 40)},
		}
		nsweep := 0
		for _, nf := range []int{0, 1, 3} {
			for rel := 0; rel < 5; rel++ { // 0 Level 1 Sample 2 Hook 3 With child 4 Output child
				for si, shape := range shapes {
					for _, onValue := range []bool{false, true} {
						p := []stmt{{K: "root"}, {K: "with", X: 0}}
						for f := 0; f < nf; f++ {
							p = append(p, stmt{K: "op", X: len(p) - 1, Key: fmt.Sprintf("svc%d", f), Val: fmt.Sprintf("region-%d", f)})
						}
						p = append(p, stmt{K: "logger", X: len(p) - 1})
						parent := len(p) - 1
						derive := func() int {
							switch rel {
							case 0:
								p = append(p, lcopy(parent, 2))
							case 1, 2:
								p = append(p, stmt{K: "copy", X: parent, Via: rel})
							case 3:
								p = append(p, stmt{K: "with", X: parent})
								p = append(p, stmt{K: "op", X: len(p) - 1, Key: "kid", Val: "1"})
								p = append(p, stmt{K: "logger", X: len(p) - 1})
							default:
								p = append(p, stmt{K: "output", X: parent})
							}
							return len(p) - 1
						}
						r1 := derive()
						r2 := derive()
						p = append(p, stmt{K: "emit", X: r1})
						target := parent
						if onValue {
							// the same calls on a Context value: q := parent.With()<shape>.Logger()
							p = append(p, stmt{K: "with", X: parent})
							for j := 0; j+1 < len(shape); j += 2 {
								if shape[j] == resetKey {
									p = append(p, stmt{K: "reset", X: len(p) - 1})
								} else {
									p = append(p, stmt{K: "op", X: len(p) - 1, Key: shape[j], Val: shape[j+1]})
								}
							}
							p = append(p, stmt{K: "logger", X: len(p) - 1})
							target = len(p) - 1
						} else {
							p = append(p, stmt{K: "update", X: parent, KVs: shape})
						}
						p = append(p, stmt{K: "emit", X: r1}, stmt{K: "emit", X: r2}, stmt{K: "emit", X: target}, stmt{K: "emit", X: parent})
						late := len(p)
						p = append(p, stmt{K: "copy", X: target, Via: 1 + si%2})
						p = append(p, stmt{K: "update", X: target, KVs: []string{"after", "reset"}})
						p = append(p, stmt{K: "emit", X: late}, stmt{K: "emit", X: target}, stmt{K: "emit", X: r2}, stmt{K: "emit", X: r1}, stmt{K: "emit", X: parent})
						emitCase(p, true)
						nsweep++
					}
				}
			}
		}
		c.Res.ExtraCoverage["reset_sweep_programs"] = nsweep
	}

	// ---- muted paths (directed, complete over the listed shapes) ----
	// base := root.Level(A) for A in Disabled / NoLevel / warn / wide; l := base.With()<0 or 2 fields>.Logger()
	// (or that logger's Output() copy): the owner of its array, at level A; l.UpdateContext(...) in three shapes
	// while muted; then the path is opened again with Level(C) and read there, through a With() child and an
	// Output() child of the opened logger, and through l itself (silent iff A is Disabled).
	{
		nsweep := 0
		for _, A := range []int{int(zerolog.Disabled), int(zerolog.NoLevel), int(zerolog.WarnLevel), wide} {
			for _, nf := range []int{0, 2} {
				for _, viaOutput := range []bool{false, true} {
					for _, shape := range [][]string{{"req", "42"}, {"req", "42", "user", "u"}, {resetKey, "", "req", "42"}} {
						for _, C := range []int{wide, int(zerolog.InfoLevel)} {
							p := []stmt{{K: "root"}, lcopy(0, A), {K: "with", X: 1}}
							for f := 0; f < nf; f++ {
								p = append(p, stmt{K: "op", X: len(p) - 1, Key: fmt.Sprintf("svc%d", f), Val: "api"})
							}
							p = append(p, stmt{K: "logger", X: len(p) - 1})
							l := len(p) - 1
							if viaOutput {
								p = append(p, stmt{K: "output", X: l})
								l = len(p) - 1
							}
							p = append(p, stmt{K: "emit", X: l})
							p = append(p, stmt{K: "update", X: l, KVs: shape})
							p = append(p, lcopy(l, C))
							open := len(p) - 1
							p = append(p, stmt{K: "with", X: open})
							p = append(p, stmt{K: "op", X: len(p) - 1, Key: "n", Val: "1"})
							p = append(p, stmt{K: "logger", X: len(p) - 1})
							kid := len(p) - 1
							p = append(p, stmt{K: "output", X: open})
							out := len(p) - 1
							p = append(p, stmt{K: "emit", X: open}, stmt{K: "emit", X: kid}, stmt{K: "emit", X: out}, stmt{K: "emit", X: l})
							// muted again below the opened logger, and opened once more
							p = append(p, lcopy(kid, int(zerolog.Disabled)))
							p = append(p, stmt{K: "emit", X: len(p) - 1})
							p = append(p, lcopy(len(p)-2, C))
							p = append(p, stmt{K: "emit", X: len(p) - 1})
							emitCase(p, true)
							nsweep++
						}
					}
				}
			}
		}
		c.Res.ExtraCoverage["muted_path_sweep_programs"] = nsweep
	}

	// ---- fat parents: a parent whose context outgrew the 500-byte buffer (so its array has spare capacity),
	//      several children that each add fields, events from the first children after the later ones were built ----
	for i := 0; i < n/10; i++ {
		r := c.R.Fork()
		p := []stmt{{K: "root"}, {K: "with", X: 0}}
		cur := 1
		total := 1
		for total < 520+r.Intn(400) {
			v := strings.Repeat("f", 40+r.Intn(160))
			p = append(p, stmt{K: "op", X: cur, Key: fmt.Sprintf("f%d", len(p)), Val: v})
			cur = len(p) - 1
			total += len(v) + 10
		}
		p = append(p, stmt{K: "logger", X: cur})
		parent := len(p) - 1
		if r.Bool() { // grown once more through UpdateContext
			p = append(p, stmt{K: "update", X: parent, KVs: []string{"u", strings.Repeat("u", 30+r.Intn(100))}})
		}
		var kids []int
		for j := 0; j < 2+r.Intn(3); j++ {
			p = append(p, stmt{K: "with", X: parent})
			p = append(p, stmt{K: "op", X: len(p) - 1, Key: fmt.Sprintf("who%d", j), Val: fmt.Sprintf("kid%d", j)})
			p = append(p, stmt{K: "logger", X: len(p) - 1})
			kid := len(p) - 1
			if r.Bool() {
				p = append(p, stmt{K: "update", X: kid, KVs: []string{fmt.Sprintf("url%d", j), fmt.Sprintf("/path/%d", j)}})
			}
			kids = append(kids, kid)
		}
		for _, k := range kids {
			p = append(p, stmt{K: "emit", X: k})
		}
		p = append(p, stmt{K: "emit", X: parent})
		emitCase(p, false)
	}

	// ---- pooled helper events carry nothing over: the stack flag ----
	{
		w := &lastWriter{}
		zerolog.ErrorStackMarshaler = func(err error) interface{} { return "STACK-OF:" + err.Error() }
		stacky := zerolog.New(w).With().Stack().Logger()
		plain := zerolog.New(w)
		boom := fmt.Errorf("boom")
		bad := ""
		for round := 0; round < 30 && bad == ""; round++ {
			evs := []*zerolog.Event{stacky.Info().Err(boom), stacky.Info().Stack().Err(boom), stacky.Info().Err(boom)}
			for _, e := range evs {
				e.Msg("s")
			}
			checks := []func(){
				func() { plain.Info().Dict("d", zerolog.Dict().Err(boom)).Msg("p") },
				func() { plain.Info().Array("a", zerolog.Arr().Object(errObj{boom})).Msg("p") },
				func() { plain.Info().Fields([]interface{}{"o", errObj{boom}}).Msg("p") },
				func() { l := plain.With().Object("co", errObj{boom}).Logger(); l.Info().Msg("p") },
			}
			for k, f := range checks {
				w.last = nil
				f()
				if bytes.Contains(w.last, []byte("STACK-OF")) {
					bad = fmt.Sprintf("check %d (0 Dict().Err, 1 Arr().Object, 2 Fields(marshaler), 3 With().Object): a logger without Stack() emitted %q", k, w.last)
					break
				}
			}
		}
		zerolog.ErrorStackMarshaler = nil
		if bad != "" {
			c.Violate(Violation{Key: "pooled-event-stale-stack", Monitor: "stale-pooled-state", Desc: bad, Case: "events of a Stack() logger finalized, then Err inside helper events of a plain logger"})
		}
		c.Res.Evaluations += 120
	}

	// ---- GetCtx: never a context left behind by another event ----
	{
		var seen []interface{}
		w := &lastWriter{}
		stale := context.WithValue(context.Background(), ctxKey{}, "STALE")
		mine := context.WithValue(context.Background(), ctxKey{}, "MINE")
		base := zerolog.New(w)
		// several events carrying the stale context are finalized, so the pool holds stale events
		for round := 0; round < 50; round++ {
			evs := []*zerolog.Event{base.Info().Ctx(stale), base.Info().Ctx(stale), base.Info().Ctx(stale)}
			for _, e := range evs {
				e.Msg("x")
			}
			p := probeObj{&seen}
			// helper events: Dict(), Arr().Object, Fields, Context.Object - none of them was given a context
			base.Info().Dict("d", zerolog.Dict().Object("o", p)).Msg("")
			base.Info().Array("a", zerolog.Arr().Object(p)).Msg("")
			base.Info().Fields([]interface{}{"f", p}).Msg("")
			_ = base.With().Object("co", p).Logger()
			_ = base.With().EmbedObject(p).Logger()
		}
		for _, v := range seen {
			if v != nil {
				c.Violate(Violation{Key: "getctx-stale", Monitor: "getctx-probe", Desc: fmt.Sprintf("an object marshaler inside a helper event read the Go context of an earlier event (%v)", v), Case: "3 events with Ctx(stale) finalized, then Dict().Object / Arr().Object / Fields / Context.Object / Context.EmbedObject with a marshaler calling GetCtx"})
				break
			}
		}
		c.Res.Evaluations += len(seen)
		// the logger's own context reaches hooks and marshalers, also after Output / Level / Sample / Hook
		seen = nil
		l := base.With().Ctx(mine).Logger().Hook(probeHook{&seen})
		for _, d := range []zerolog.Logger{l, l.Output(w), l.Level(zerolog.DebugLevel), l.Sample(nil), l.With().Str("a", "b").Logger()} {
			d.Info().Msg("y")
		}
		for i, v := range seen {
			if v != "MINE" {
				c.Violate(Violation{Key: "logger-ctx-lost", Monitor: "getctx-probe", Desc: fmt.Sprintf("derivation #%d (0 self, 1 Output, 2 Level, 3 Sample, 4 With) lost the logger's Go context: hook read %v", i, v), Case: "With().Ctx(mine).Logger().Hook(probe) then Output/Level/Sample/With"})
			}
		}
		if len(seen) != 5 {
			c.Violate(Violation{Key: "hook-lost", Monitor: "getctx-probe", Desc: fmt.Sprintf("hook ran %d times over 5 derived loggers", len(seen)), Case: "Output/Level/Sample/With keep hooks"})
		}
		c.Res.Evaluations += 5
	}

	// ---- what the pools hand out next (pools.go): helper events never carry another event's Go context; no
	//      array / dict / event is handed out twice, whatever derivation step or event came before ----
	staleCtxSweep(c)
	openAtOnceSweep(c)
	// ---- the Go context of the derivation path (ctxpath.go): the argument of the last Ctx call, logger steps
	//      first, then the event's own calls; nil = none ----
	ctxPathSweep(c)
	// ---- rich derivation programs: fields added through Array (user marshaler / Arr()) / Dict / Object /
	//      EmbedObject / Fields / Interface, events that keep several arrays and dicts open at once; the heap
	//      model predicts the context bytes as before ----
	{
		nr := n / 5
		for i := 0; i < nr; i++ {
			emitCase(genProg(c.R.Fork(), i%6 == 5, false, true), true)
		}
		c.Res.ExtraCoverage["rich_programs"] = nr
	}

	// ---- tiny contexts of field-less roots, and the stack flag of the derivation path (tiny.go) ----
	tinyContextSweep(c, emitCase)
	stackPathSweep(c)

	// ---- hooks of the derivation path: siblings derived from one parent value ----
	// (a parent whose hook slice has spare capacity - hooks added one Hook() call at a time - must not let
	// one sibling's Hook() show up in the other; the siblings are derived directly, through With() and
	// through Level(), and the first is used after the second was created)
	{
		w := &lastWriter{}
		runs := 0
		for nh := 0; nh <= 6; nh++ {
			for via := 0; via < 3; via++ {
				var ran []string
				mk := func(tag string) zerolog.Hook {
					return zerolog.HookFunc(func(e *zerolog.Event, l zerolog.Level, m string) { ran = append(ran, tag) })
				}
				parent := zerolog.New(w)
				var path []string
				for i := 0; i < nh; i++ {
					tag := fmt.Sprintf("p%d", i)
					parent = parent.Hook(mk(tag))
					path = append(path, tag)
				}
				derive := func(tag string) zerolog.Logger {
					switch via {
					case 1:
						return parent.With().Str("k", tag).Logger().Hook(mk(tag))
					case 2:
						return parent.Level(zerolog.Level(-128)).Hook(mk(tag))
					}
					return parent.Hook(mk(tag))
				}
				a := derive("A")
				b := derive("B")
				cc := derive("C")
				for _, x := range []struct {
					l   zerolog.Logger
					tag string
				}{{a, "A"}, {b, "B"}, {cc, "C"}, {parent, ""}, {a, "A"}} {
					ran = nil
					x.l.Log().Msg("m")
					want := append([]string{}, path...)
					if x.tag != "" {
						want = append(want, x.tag)
					}
					runs++
					if fmt.Sprint(ran) != fmt.Sprint(want) {
						c.Violate(Violation{Key: "sibling-hooks-interfere", Monitor: "hooks-of-path", Desc: fmt.Sprintf("parent with %d hooks added one Hook() call at a time, three siblings derived %s: logger %q ran hooks %v, its derivation path says %v", nh, []string{"with Hook()", "with With()...Logger().Hook()", "with Level().Hook()"}[via], x.tag, ran, want),
							Case: map[string]interface{}{"parent_hooks": nh, "via": via, "logger": x.tag}, Observed: ran, Expected: want})
					}
				}
			}
		}
		c.Res.Evaluations += runs
		c.Res.ExtraCoverage["hook_sibling_probes"] = runs
	}

	// ---- arguments the caller keeps (hookslices.go): hook lists handed to Hook() as a caller-owned slice that
	//      is refilled / overwritten / appended to afterwards, at every position of the tree; the same for every
	//      Context method that takes a slice or a map ----
	hookSliceSweep(c)
	fieldSliceSweep(c)

	// ---- concurrent: goroutines log through different nodes of one tree ----
	{
		zerolog.SetGlobalLevel(zerolog.Level(-128))
		var mu sync.Mutex
		lines := map[string]int{}
		cw := writerFunc(func(p []byte) { mu.Lock(); lines[string(p)]++; mu.Unlock() })
		parent := zerolog.New(cw).With().Str("p", "v").Logger()
		var wg sync.WaitGroup
		G, rounds := 8, 200
		for g := 0; g < G; g++ {
			wg.Add(1)
			go func(g int) {
				defer wg.Done()
				for i := 0; i < rounds; i++ {
					child := parent.With().Int("g", g).Logger()
					child.UpdateContext(func(cx zerolog.Context) zerolog.Context { return cx.Int("i", i) })
					sib := child.Level(zerolog.Level(-128))
					child.Log().Send()
					sib.Log().Send()
					parent.Log().Send()
				}
			}(g)
		}
		wg.Wait()
		zerolog.SetGlobalLevel(zerolog.DebugLevel)
		bad := 0
		for g := 0; g < G; g++ {
			for i := 0; i < rounds; i++ {
				if lines[fmt.Sprintf("{\"p\":\"v\",\"g\":%d,\"i\":%d}\n", g, i)] != 2 {
					bad++
				}
			}
		}
		if bad != 0 || lines["{\"p\":\"v\"}\n"] != G*rounds {
			c.Violate(Violation{Key: "concurrent-derivation-interference", Monitor: "concurrent-tree", Desc: fmt.Sprintf("%d child events wrong, parent events %d (want %d)", bad, lines["{\"p\":\"v\"}\n"], G*rounds), Case: "8 goroutines x 200: child := parent.With().Int(g).Logger(); child.UpdateContext(i); sibling := child.Level(); all three emit"})
		}
		c.Res.Evaluations += G * rounds * 3
	}
	if dir := os.Getenv("VERIF_WORK"); dir != "" {
		files, _ := filepath.Glob(filepath.Join(dir, "race.*"))
		for _, f := range files {
			if b, _ := os.ReadFile(f); len(b) > 0 {
				if len(b) > 3000 {
					b = b[:3000]
				}
				c.Violate(Violation{Key: "data-race", Monitor: "go-race-detector", Desc: "data race while goroutines logged through different nodes of one logger tree", Case: string(b)})
				break
			}
		}
	}
}

type errObj struct{ err error }

func (o errObj) MarshalZerologObject(e *zerolog.Event) { e.Err(o.err) }

type writerFunc func(p []byte)

func (f writerFunc) Write(p []byte) (int, error) { f(p); return len(p), nil }
