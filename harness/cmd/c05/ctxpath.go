package main

// C05 - the Go context of a derivation path.
//
// "The events a logger emits carry exactly the ... Go context of its own derivation path", and "whatever hooks and
// object marshalers read through GetCtx is the Go context given to that logger or event, or the background context".
// Reading: the Go context of a path is the argument of the LAST Ctx call on it - the With().Ctx(x) calls of the
// logger steps root-down, then the event's own Ctx(x) calls in call order; a nil argument means "none" (GetCtx then
// gives context.Background()).  Every other derivation step (With() with fields, Level, Sample, Hook, Output,
// UpdateContext) keeps it.  Siblings never see each other's context.
//
// Who reads, and what each reader may see at the moment it runs:
//   - a hook of the derivation (run by the finalizer): exactly the context of the path, the event's last Ctx call
//     included;
//   - a Func callback (it is handed the event itself): exactly the context of the path up to that call;
//   - an object / array marshaler, on the event itself (Object, EmbedObject, Interface, an error that is a
//     marshaler) or on a helper event (Dict(), Arr().Object, a user array marshaler, Fields values, Context.Object /
//     EmbedObject ...): the context of the path up to that call, or the background context (DESIGN.md section 8:
//     helper events may read background) - never an earlier context of the path that a later Ctx call replaced, never
//     a sibling's or another event's;
//   - a marshaler inside Dict().Ctx(d): d or background; after a further .Ctx(nil) on that dict: background.
//
// Contexts are told apart by the value they carry under ctxKey{}; "bg" is context.Background() passed explicitly.
//
// Sweeps (all complete over the listed shapes):
//  A. three positions down one path, each with no Ctx call / With().Ctx(fresh) / With().Ctx(nil) / With().Ctx(shared),
//     one derivation step of a given kind between the positions (7 kinds), three siblings taken at every position
//     (With().Ctx(nil), With().Ctx(shared), With().Ctx(fresh)); every node is read in creation order and, every other
//     one, again in reverse, directly and through a Hook() copy, by a plain event and by events with Ctx calls of
//     their own.
//  B. the event's own Ctx calls: every sequence of 0..3 calls over fresh-1 / fresh-2 / nil / Background, the whole
//     set of readers before the first and after every call, on a logger whose path has no context / a context / a
//     context replaced by nil / a context replaced by another; every entry point and finalizer; plus the entry points
//     that give the caller no event (Print, Printf, Write).
//  C. several Ctx calls inside one With() chain (every pair over fresh / shared / nil / Background, a field and a
//     Context.Object / EmbedObject / Dict / Array / Fields marshaler between and after them), under a parent with and
//     without a context.

import (
	"context"
	"fmt"
	"sort"
	"strings"

	"github.com/rs/zerolog"
	. "verifharness/hlib"
)

type ctxRead struct {
	label string
	val   interface{}
}

// ctxRec: what the readers of one event (or one derivation step) saw, in the order they ran
type ctxRec struct{ reads []ctxRead }

func (r *ctxRec) read(label string, e *zerolog.Event) {
	cx := e.GetCtx()
	if cx == nil {
		r.reads = append(r.reads, ctxRead{label, "<GetCtx returned a nil context>"})
		return
	}
	r.reads = append(r.reads, ctxRead{label, cx.Value(ctxKey{})})
}

type pathObj struct {
	r     *ctxRec
	label string
}

func (p pathObj) MarshalZerologObject(e *zerolog.Event) { p.r.read(p.label, e); e.Str("p", "1") }

type pathHook struct {
	r     *ctxRec
	label string
}

func (h pathHook) Run(e *zerolog.Event, l zerolog.Level, m string) { h.r.read(h.label, e) }

// pathErr: an error that is an object marshaler (the default ErrorMarshalFunc hands it on as it is)
type pathErr struct{ p pathObj }

func (pathErr) Error() string                            { return "probe-error" }
func (x pathErr) MarshalZerologObject(e *zerolog.Event) { x.p.MarshalZerologObject(e) }

// ctxExpect: what the reader with this label may see
type ctxExpect struct {
	label   string
	allowed []interface{} // tags (nil = the background context / no value)
	once    bool          // the reader must have run exactly once (hooks)
	own     string        // a context given to the helper event itself by an earlier Ctx call (Dict().Ctx(own).Ctx(nil))
}

// ctxEnv: the contexts of one program, by name
type ctxEnv struct {
	byName map[string]context.Context
}

func (v *ctxEnv) ctx(a string) context.Context {
	switch a {
	case "nil":
		return nil
	case "bg":
		return context.Background()
	}
	if v.byName == nil {
		v.byName = map[string]context.Context{}
	}
	if c, ok := v.byName[a]; ok {
		return c
	}
	c := context.WithValue(context.Background(), ctxKey{}, a)
	v.byName[a] = c
	return c
}

// tagOf: what a reader sees under ctxKey{} when the last Ctx argument was a ("" = no Ctx call at all)
func tagOf(a string) interface{} {
	if a == "" || a == "nil" || a == "bg" {
		return nil
	}
	return a
}

func ctxArgSrc(a string) string {
	switch a {
	case "nil":
		return "nil"
	case "bg":
		return "context.Background()"
	}
	return "ctx" + a
}

// ---------------------------------------------------------------- logger steps

// cpNode: one logger of the tree.  Via: "root" (zerolog.New(w).Hook(rootProbe)), "With" (From.With()<Calls>.Logger()),
// "With+Update" (the same, then UpdateContext adds a field), "Level", "Output", "Hook", "Sample".
// Calls (With only): "ctx:<arg>" Ctx(arg); "str" a field; "obj" / "embed" / "dict" / "array" / "fields" a marshaler
// reading GetCtx given to the Context.
type cpNode struct {
	From  int      `json:"from"`
	Via   string   `json:"via"`
	Calls []string `json:"with_calls,omitempty"`
}

type cpTree struct {
	nodes []cpNode
	path  []string // per node: the argument of the last Ctx call on its path ("" none)
	src   []string
}

func (t *cpTree) add(n cpNode) int {
	i := len(t.nodes)
	p := ""
	if n.From >= 0 {
		p = t.path[n.From]
	}
	var calls []string
	for _, c := range n.Calls {
		if strings.HasPrefix(c, "ctx:") {
			p = c[4:]
			calls = append(calls, ".Ctx("+ctxArgSrc(p)+")")
		} else if c == "str" {
			calls = append(calls, fmt.Sprintf(".Str(\"k%d\", \"v\")", i))
		} else {
			calls = append(calls, "."+map[string]string{"obj": "Object(k, m)", "embed": "EmbedObject(m)", "dict": "Dict(k, Dict().Object(k, m))", "array": "Array(k, Arr().Object(m))", "fields": "Fields([]interface{}{k, m})"}[c])
		}
	}
	var s string
	switch n.Via {
	case "root":
		s = "n0 := zerolog.New(w).Hook(rootProbe)"
	case "With":
		s = fmt.Sprintf("n%d := n%d.With()%s.Logger()", i, n.From, strings.Join(calls, ""))
	case "With+Update":
		s = fmt.Sprintf("n%d := n%d.With()%s.Logger(); n%d.UpdateContext(func(c) { return c.Str(\"u\", \"w\") })", i, n.From, strings.Join(calls, ""), i)
	case "Level":
		s = fmt.Sprintf("n%d := n%d.Level(-128)", i, n.From)
	case "Output":
		s = fmt.Sprintf("n%d := n%d.Output(w)", i, n.From)
	case "Hook":
		s = fmt.Sprintf("n%d := n%d.Hook()", i, n.From)
	case "Sample":
		s = fmt.Sprintf("n%d := n%d.Sample(nil)", i, n.From)
	}
	t.nodes = append(t.nodes, n)
	t.path = append(t.path, p)
	t.src = append(t.src, s)
	return i
}

// build derives every logger on the real code; returns them, and what the marshalers given to Context methods saw
// against what they may see
func (t *cpTree) build(w zerolog.LevelWriter, env *ctxEnv, rec *ctxRec) (ls []zerolog.Logger, exp []ctxExpect) {
	for i, n := range t.nodes {
		var l zerolog.Logger
		switch n.Via {
		case "root":
			l = zerolog.New(w).Hook(pathHook{rec, "hook:root"})
		case "With", "With+Update":
			cx := ls[n.From].With()
			cur := t.path[n.From]
			for j, c := range n.Calls {
				label := fmt.Sprintf("n%d.With() call %d: Context.%s", i, j, c)
				m := pathObj{rec, label}
				lenient := func() { exp = append(exp, ctxExpect{label: label, allowed: []interface{}{tagOf(cur), nil}}) }
				switch {
				case strings.HasPrefix(c, "ctx:"):
					cur = c[4:]
					cx = cx.Ctx(env.ctx(cur))
				case c == "str":
					cx = cx.Str(fmt.Sprintf("k%d", i), "v")
				case c == "obj":
					cx = cx.Object("co", m)
					lenient()
				case c == "embed":
					cx = cx.EmbedObject(m)
					lenient()
				case c == "dict":
					cx = cx.Dict("cd", zerolog.Dict().Object("o", m))
					lenient()
				case c == "array":
					cx = cx.Array("ca", zerolog.Arr().Object(m))
					lenient()
				case c == "fields":
					cx = cx.Fields([]interface{}{"cf", m})
					lenient()
				}
			}
			l = cx.Logger()
			if n.Via == "With+Update" {
				l.UpdateContext(func(c zerolog.Context) zerolog.Context { return c.Str("u", "w") })
			}
		case "Level":
			l = ls[n.From].Level(zerolog.Level(wide))
		case "Output":
			l = ls[n.From].Output(w)
		case "Hook":
			l = ls[n.From].Hook()
		case "Sample":
			l = ls[n.From].Sample(nil)
		}
		ls = append(ls, l)
	}
	return
}

// ---------------------------------------------------------------- events

// evProg: one event.  Entry: "Info" "Log" "WithLevel" "Err" (events the caller holds), "Print" "Printf" "Write" (no
// event in the caller's hands: no Ctx calls, no readers but the hooks).  Calls: the arguments of the event's own Ctx
// calls; Readers: 0 none but the hooks, 1 a Func callback and an Object marshaler before the first and after every Ctx
// call, 2 every kind of reader there.
type evProg struct {
	Entry   string   `json:"entry"`
	Calls   []string `json:"ctx_calls"`
	Readers int      `json:"readers"`
	Fin     int      `json:"finalizer"` // 0 Msg 1 Send 2 Msgf 3 MsgFunc
}

var finNames = []string{`Msg("m")`, "Send()", `Msgf("%s", "m")`, `MsgFunc(func() string { return "m" })`}

func (ev evProg) src(node string) string {
	rd := []string{"", ".<Func, Object>", ".<every reader>"}[ev.Readers]
	switch ev.Entry {
	case "Print":
		return node + `.Print("m")`
	case "Printf":
		return node + `.Printf("%s", "m")`
	case "Write":
		return node + `.Write([]byte("m\n"))`
	}
	s := node + "." + ev.Entry + "()"
	switch ev.Entry {
	case "WithLevel":
		s = node + ".WithLevel(zerolog.WarnLevel)"
	case "Err":
		s = node + ".Err(errors.New(\"x\"))"
	}
	s += rd
	for _, a := range ev.Calls {
		s += ".Ctx(" + ctxArgSrc(a) + ")" + rd
	}
	return s + "." + finNames[ev.Fin]
}

// run sends the event through l (whose derivation path has the Go context named path); the readers write to rec
func (ev evProg) run(l zerolog.Logger, path string, env *ctxEnv, rec *ctxRec, hookLabels []string) (exp []ctxExpect) {
	cur := path
	hooks := func() {
		for _, h := range hookLabels {
			exp = append(exp, ctxExpect{label: h, allowed: []interface{}{tagOf(cur)}, once: true})
		}
	}
	switch ev.Entry {
	case "Print":
		l.Print("m")
		hooks()
		return
	case "Printf":
		l.Printf("%s", "m")
		hooks()
		return
	case "Write":
		l.Write([]byte("m\n"))
		hooks()
		return
	}
	var e *zerolog.Event
	switch ev.Entry {
	case "Info":
		e = l.Info()
	case "Log":
		e = l.Log()
	case "WithLevel":
		e = l.WithLevel(zerolog.WarnLevel)
	default:
		e = l.Err(fmt.Errorf("x"))
	}
	readers := func(at int) {
		if ev.Readers == 0 {
			return
		}
		lab := func(kind string) string { return fmt.Sprintf("after %d Ctx call(s) of the event: %s", at, kind) }
		strict := func(label string) {
			exp = append(exp, ctxExpect{label: label, allowed: []interface{}{tagOf(cur)}})
		}
		lenient := func(label string, more ...interface{}) pathObj {
			exp = append(exp, ctxExpect{label: label, allowed: append([]interface{}{tagOf(cur), nil}, more...)})
			return pathObj{rec, label}
		}
		key := func(k string) string { return fmt.Sprintf("%s%d", k, at) }
		fl := lab("Func(callback)")
		strict(fl)
		e.Func(func(e *zerolog.Event) { rec.read(fl, e) })
		e.Object(key("o"), lenient(lab("Object(k, m)")))
		if ev.Readers < 2 {
			return
		}
		e.EmbedObject(lenient(lab("EmbedObject(m)")))
		e.Interface(key("i"), lenient(lab("Interface(k, m)")))
		e.AnErr(key("e"), pathErr{lenient(lab("AnErr(k, an error that is a marshaler)"))})
		e.Dict(key("d"), zerolog.Dict().Object("o", lenient(lab("Dict(k, Dict().Object(k, m))"))))
		dl := lab("Dict(k, Dict().Func(callback))")
		exp = append(exp, ctxExpect{label: dl, allowed: []interface{}{tagOf(cur), nil}})
		e.Dict(key("df"), zerolog.Dict().Func(func(d *zerolog.Event) { rec.read(dl, d) }))
		e.Array(key("a"), zerolog.Arr().Object(lenient(lab("Array(k, Arr().Object(m))"))))
		e.Array(key("u"), userArr{obj: lenient(lab("Array(k, a user array marshaler calling a.Object(m))"))})
		e.Array(key("ad"), zerolog.Arr().Dict(zerolog.Dict().Object("o", lenient(lab("Array(k, Arr().Dict(Dict().Object(k, m)))")))))
		e.Fields([]interface{}{key("f"), lenient(lab("Fields([]interface{}{k, m})"))})
		e.Fields(map[string]interface{}{key("fm"): lenient(lab("Fields(map[string]interface{}{k: m})"))})
		// a dict given a Go context of its own, then none
		own := fmt.Sprintf("D%d", at)
		l1, l2 := lab("Dict().Ctx(ctx"+own+").Object(k, m)"), lab("Dict().Ctx(ctx"+own+").Object(..).Ctx(nil).Object(k, m)")
		exp = append(exp, ctxExpect{label: l1, allowed: []interface{}{own, nil}}, ctxExpect{label: l2, allowed: []interface{}{nil}, own: own})
		var none context.Context
		e.Dict(key("dc"), zerolog.Dict().Ctx(env.ctx(own)).Object("o", pathObj{rec, l1}).Ctx(none).Object("o2", pathObj{rec, l2}))
	}
	readers(0)
	for j, a := range ev.Calls {
		e.Ctx(env.ctx(a))
		cur = a
		readers(j + 1)
	}
	hooks()
	switch ev.Fin {
	case 1:
		e.Send()
	case 2:
		e.Msgf("%s", "m")
	case 3:
		e.MsgFunc(func() string { return "m" })
	default:
		e.Msg("m")
	}
	return
}

// ---------------------------------------------------------------- the monitor

type ctxPathMon struct {
	c        *Ctx
	reported map[string]int
	reads    int
	events   int
}

// check compares what the readers saw with what they may see.  A reader that sees a context named by a Ctx call of
// its own path (or event) other than the one that counts has seen a "stale" one; seeing nothing where the path has a
// context is "lost"; anything else is another logger's or event's context ("foreign").
func (m *ctxPathMon) check(rec *ctxRec, exp []ctxExpect, sweep string, prog func() map[string]interface{}) {
	want := map[string]ctxExpect{}
	for _, x := range exp {
		want[x.label] = x
	}
	count := map[string]int{}
	report := func(key, desc string, label string, got interface{}, allowed interface{}) {
		id := key + "/" + sweep + "/" + kindOf(label)
		m.reported[id]++
		if m.reported[id] > 1 {
			return
		}
		cs := prog()
		cs["reader"] = label
		m.c.Violate(Violation{Key: key, Monitor: "path-go-context", Desc: desc, Case: cs, Observed: fmt.Sprint(got), Expected: fmt.Sprint(allowed)})
	}
	for _, r := range rec.reads {
		m.reads++
		count[r.label]++
		x, ok := want[r.label]
		if !ok {
			continue // a reader of an earlier step (cannot happen: the recorder is emptied before every step)
		}
		good := false
		for _, a := range x.allowed {
			if a == r.val {
				good = true
			}
		}
		if good {
			continue
		}
		m.c.Hist("path_go_context", "wrong")
		show := func(v interface{}) string {
			if v == nil {
				return "the background context (no value)"
			}
			return fmt.Sprintf("the context carrying %v", v)
		}
		var al []string
		for _, a := range x.allowed {
			al = append(al, show(a))
		}
		key := "path-ctx-foreign"
		why := "a context that is not on this path at all"
		if r.val == nil {
			key, why = "path-ctx-lost", "the Go context of the derivation path was lost"
		} else if s, isStr := r.val.(string); isStr {
			cs := prog()
			if onPath, _ := cs["contexts_named_on_the_path"].([]string); contains(onPath, s) {
				key, why = "path-ctx-stale", "a context that a later Ctx call on the path replaced"
			} else if s == x.own {
				key, why = "helper-ctx-stale", "the context an earlier Ctx call gave this dict, which a later Ctx(nil) on the dict replaced"
			}
		}
		report(key, fmt.Sprintf("[%s] read %s through GetCtx; the Go context of its derivation path (the argument of the last Ctx call on the path, logger steps first, then the event's own calls; nil = none) allows %s: %s", r.label, show(r.val), strings.Join(al, " or "), why), r.label, r.val, al)
	}
	for _, x := range exp {
		if x.once && count[x.label] != 1 {
			report("hook-lost", fmt.Sprintf("[%s] ran %d times for one enabled event of a logger on whose derivation path it was registered once", x.label, count[x.label]), x.label, count[x.label], 1)
		}
	}
}

func kindOf(label string) string {
	if i := strings.LastIndex(label, ": "); i >= 0 {
		return label[i+2:]
	}
	return label
}

func contains(xs []string, s string) bool {
	for _, x := range xs {
		if x == s {
			return true
		}
	}
	return false
}

// named: every context named by the Ctx calls of node x's path and of the event (a reader that sees one of them
// although it is not allowed to has seen a context that a later Ctx call replaced)
func (t *cpTree) named(x int, ev *evProg) []string {
	var out []string
	for i := x; i >= 0; i = t.nodes[i].From {
		for _, c := range t.nodes[i].Calls {
			if strings.HasPrefix(c, "ctx:") && tagOf(c[4:]) != nil {
				out = append(out, c[4:])
			}
		}
	}
	if ev != nil {
		for _, a := range ev.Calls {
			if tagOf(a) != nil {
				out = append(out, a)
			}
		}
	}
	return out
}

// runTree builds the tree, checks the marshalers given to Context methods, then sends the listed events
func (m *ctxPathMon) runTree(t *cpTree, sweep string, reads []struct {
	x  int
	ev evProg
}) {
	w := &lastWriter{}
	env := &ctxEnv{}
	rec := &ctxRec{}
	ls, exp := t.build(zerolog.LevelWriterAdapter{Writer: w}, env, rec)
	m.check(rec, exp, sweep, func() map[string]interface{} {
		var on []string
		for i := range t.nodes {
			on = append(on, t.named(i, nil)...)
		}
		return map[string]interface{}{"kind": "go-context-of-path", "sweep": sweep, "derivation": t.src, "contexts_named_on_the_path": on,
			"while": "deriving the loggers (m is a marshaler reading e.GetCtx().Value(key); ctxX = context.WithValue(context.Background(), key, \"X\"))"}
	})
	for _, rd := range reads {
		rd := rd
		for via := 0; via < 2; via++ {
			l := ls[rd.x]
			hooks := []string{"hook:root"}
			node := fmt.Sprintf("n%d", rd.x)
			if via == 1 {
				l = l.Hook(pathHook{rec, "hook:leaf"})
				hooks = append(hooks, "hook:leaf")
				node += ".Hook(leafProbe)"
			}
			rec.reads = rec.reads[:0]
			w.last = nil
			exp := rd.ev.run(l, t.path[rd.x], env, rec, hooks)
			m.events++
			m.check(rec, exp, sweep, func() map[string]interface{} {
				return map[string]interface{}{"kind": "go-context-of-path", "sweep": sweep, "derivation": t.src, "logger": fmt.Sprintf("n%d", rd.x), "event": rd.ev,
					"event_source": rd.ev.src(node), "go_context_of_the_loggers_path": map[bool]string{true: "none", false: "ctx" + t.path[rd.x]}[tagOf(t.path[rd.x]) == nil],
					"contexts_named_on_the_path": t.named(rd.x, &rd.ev),
					"legend":                        "rootProbe / leafProbe: hooks reading e.GetCtx().Value(key); m: a marshaler doing the same; <...>: the readers run at that point; ctxX = context.WithValue(context.Background(), key, \"X\")"}
			})
			if w.last == nil {
				m.reported["unwritten"]++
				if m.reported["unwritten"] == 1 {
					m.c.Violate(Violation{Key: "level-of-path-wrong", Monitor: "path-go-context", Desc: "an enabled event of a wide-open logger was not written: " + rd.ev.src(node), Case: map[string]interface{}{"derivation": t.src, "event_source": rd.ev.src(node)}})
				}
			}
		}
	}
}

type nodeRead = struct {
	x  int
	ev evProg
}

func ctxPathSweep(c *Ctx) {
	zerolog.SetGlobalLevel(zerolog.Level(-128))
	defer zerolog.SetGlobalLevel(zerolog.DebugLevel)
	m := &ctxPathMon{c: c, reported: map[string]int{}}
	// the events with Ctx calls of their own that sweep A rotates through
	evCalls := [][]string{{"nil"}, {"E1"}, {"bg"}, {"E1", "nil"}, {"nil", "E1"}, {"E1", "E2"}, {"S"}, {"nil", "nil"}}
	entries := []string{"Info", "Log", "WithLevel", "Err"}

	// (the small trees first, so that the first witness of a failure is a short program)
	// ---- B: the event's own Ctx calls ----
	var seqs [][]string
	var rec func(s []string, n int)
	rec = func(s []string, n int) {
		seqs = append(seqs, append([]string{}, s...))
		if n == 0 {
			return
		}
		for _, a := range []string{"E1", "E2", "nil", "bg"} {
			rec(append(s, a), n-1)
		}
	}
	rec(nil, 3)
	sort.SliceStable(seqs, func(i, j int) bool { return len(seqs[i]) < len(seqs[j]) }) // short events first
	progsB := 0
	for li, lc := range [][]string{nil, {"P"}, {"P", "nil"}, {"P", "Q"}, {"nil", "P"}} {
		t := &cpTree{}
		cur := t.add(cpNode{From: -1, Via: "root"})
		for _, a := range lc {
			cur = t.add(cpNode{From: cur, Via: "With", Calls: []string{"str", "ctx:" + a}})
		}
		var reads []nodeRead
		for si, s := range seqs {
			for ei, en := range entries {
				if len(s) == 3 && (si+ei+li)%4 != 0 {
					continue // the longest sequences visit the entry points in rotation
				}
				reads = append(reads, nodeRead{cur, evProg{Entry: en, Calls: s, Readers: 2, Fin: (si + ei) % 4}})
			}
		}
		for _, en := range []string{"Print", "Printf", "Write"} {
			reads = append(reads, nodeRead{cur, evProg{Entry: en}})
		}
		m.runTree(t, "B: the event's own Ctx calls", reads)
		progsB += len(reads)
	}

	// ---- C: several Ctx calls inside one With() chain ----
	progsC := 0
	args := []string{"A", "S", "nil", "bg"}
	marsh := []string{"obj", "embed", "dict", "array", "fields"}
	for _, parent := range []string{"", "P", "nil"} {
		for ai, a := range args {
			for bi, b := range args {
				t := &cpTree{}
				cur := t.add(cpNode{From: -1, Via: "root"})
				if parent != "" {
					cur = t.add(cpNode{From: cur, Via: "With", Calls: []string{"ctx:" + parent}})
				}
				m1, m2, m3 := marsh[(ai+bi)%5], marsh[(ai+2*bi+1)%5], marsh[(2*ai+bi+3)%5]
				n1 := t.add(cpNode{From: cur, Via: "With", Calls: []string{m1, "ctx:" + a, m2, "str", "ctx:" + b, m3}})
				n2 := t.add(cpNode{From: cur, Via: "With", Calls: []string{"ctx:" + a, "ctx:" + b}})
				n3 := t.add(cpNode{From: n1, Via: "With", Calls: []string{m3, "str"}})
				n4 := t.add(cpNode{From: n2, Via: "Output"})
				var reads []nodeRead
				for i, x := range []int{n1, n2, n3, n4, cur, n1} {
					reads = append(reads, nodeRead{x, evProg{Entry: entries[(i+ai)%4], Readers: 2, Fin: (i + bi) % 4}})
					reads = append(reads, nodeRead{x, evProg{Entry: entries[(i+bi)%4], Calls: evCalls[(i+ai+3*bi)%len(evCalls)], Readers: 1, Fin: i % 4}})
				}
				m.runTree(t, "C: several Ctx calls in one With() chain", reads)
				progsC++
			}
		}
	}
	// ---- A: the logger steps ----
	kinds := []string{"", "With", "Level", "Output", "Hook", "Sample", "With+Update"}
	progsA := 0
	k := 0
	for _, kind := range kinds {
		for code := 0; code < 64; code++ {
			t := &cpTree{}
			cur := t.add(cpNode{From: -1, Via: "root"})
			nodes := []int{cur}
			for pos := 0; pos < 3; pos++ {
				switch kind {
				case "":
				case "With", "With+Update":
					cur = t.add(cpNode{From: cur, Via: kind, Calls: []string{"str"}})
				default:
					cur = t.add(cpNode{From: cur, Via: kind})
				}
				switch (code >> (2 * uint(pos))) & 3 {
				case 1:
					cur = t.add(cpNode{From: cur, Via: "With", Calls: []string{fmt.Sprintf("ctx:A%d", pos)}})
				case 2:
					cur = t.add(cpNode{From: cur, Via: "With", Calls: []string{"ctx:nil"}})
				case 3:
					cur = t.add(cpNode{From: cur, Via: "With", Calls: []string{"ctx:S"}})
				}
				nodes = append(nodes, cur)
				nodes = append(nodes, t.add(cpNode{From: cur, Via: "With", Calls: []string{"ctx:nil"}}))
				nodes = append(nodes, t.add(cpNode{From: cur, Via: "With", Calls: []string{"str", "ctx:S"}}))
				nodes = append(nodes, t.add(cpNode{From: cur, Via: "With", Calls: []string{fmt.Sprintf("ctx:B%d", pos), "str"}}))
			}
			var reads []nodeRead
			for _, x := range nodes {
				k++
				reads = append(reads, nodeRead{x, evProg{Entry: entries[k%4], Readers: 1 + k%2, Fin: k % 4}})
				reads = append(reads, nodeRead{x, evProg{Entry: entries[(k/4)%4], Calls: evCalls[k%len(evCalls)], Readers: 1, Fin: (k / 3) % 4}})
			}
			for i := len(nodes) - 1; i >= 0; i -= 2 {
				k++
				reads = append(reads, nodeRead{nodes[i], evProg{Entry: []string{"Print", "Info", "Write", "Log", "Printf"}[k%5], Fin: k % 4}})
			}
			m.runTree(t, "A: With().Ctx at three positions, siblings", reads)
			progsA++
		}
	}

	c.Hist("path_go_context", fmt.Sprintf("sweeps done, %d kinds of wrong reads", len(m.reported)))
	c.Res.Evaluations += m.events
	c.Res.ExtraCoverage["go_context_path_trees"] = progsA + 5 + progsC
	c.Res.ExtraCoverage["go_context_event_ctx_sequences"] = progsB
	c.Res.ExtraCoverage["go_context_events"] = m.events
	c.Res.ExtraCoverage["go_context_getctx_reads"] = m.reads
}
