package main

// C05 - what the pools hand out next.
//
// Two directed sweeps over the pooled helper objects of zerolog (the *Event behind
// Dict() / Arr().Object / Fields / Context.Object ..., the *Array behind Arr()):
//
//  1. Go contexts (staleCtxSweep): every way an event that was GIVEN a Go context can
//     end its life ("leavers": logger events finished with Msg/Send, a logger with
//     With().Ctx, Dict().Ctx(c) handed to Event.Dict / Array.Dict / Context.Dict / a
//     disabled logger's nil event / another dict, a marshaler calling e.Ctx(c) on the
//     helper event it is given) x 1..3 such events open at once x every way a helper or
//     logger event of a logger WITHOUT Go context can run a marshaler or hook that
//     reads GetCtx ("takers", the helper taken before or after its logger event).
//     The reader must see the background context - never the leaver's.
//
//  2. Objects handed out twice (openAtOnceSweep): every derivation step / event method
//     that takes a pooled *Array or *Event and gives it back ("actions"), followed by a
//     sibling or unrelated logger that keeps several arrays / dicts / events open at
//     once and fills them alternately.  Every line must carry exactly what was put into
//     its own arrays, dicts and event.
//
// Under the race detector sync.Pool.Put drops one object in four at random: every
// combination is repeated a few times.  Neither sweep can fail on a correct tree
// whatever the pool does (a pool that hands out fresh objects only is fine too).

import (
	"context"
	"errors"
	"fmt"
	"runtime"
	"strings"

	"github.com/rs/zerolog"
	. "verifharness/hlib"
)

// linesWriter keeps every line
type linesWriter struct{ lines []string }

func (w *linesWriter) Write(p []byte) (int, error) {
	w.lines = append(w.lines, string(p))
	return len(p), nil
}

// ctxSetter: an object marshaler that gives the event it is handed a Go context
type ctxSetter struct{ c context.Context }

func (s ctxSetter) MarshalZerologObject(e *zerolog.Event) { e.Ctx(s.c).Str("set", "1") }

// probeErr: an error that ErrorMarshalFunc (set during the sweep) turns into the probing object marshaler
type probeErr struct{ p probeObj }

func (probeErr) Error() string { return "probe-error" }

// userArr: a user type implementing LogArrayMarshaler (not a *zerolog.Array)
type userArr struct {
	vals []string
	obj  zerolog.LogObjectMarshaler
}

func (u userArr) MarshalZerologArray(a *zerolog.Array) {
	for _, v := range u.vals {
		a.Str(v)
	}
	if u.obj != nil {
		a.Object(u.obj)
	}
}

// strObj: a user type implementing LogObjectMarshaler
type strObj struct{ k, v string }

func (o strObj) MarshalZerologObject(e *zerolog.Event) { e.Str(o.k, o.v) }

// neverSampler rejects every event
type neverSampler struct{}

func (neverSampler) Sample(zerolog.Level) bool { return false }

type leaverT struct {
	name string
	run  func(b zerolog.Logger, c context.Context, k int)
}

type takerT struct {
	name string
	mine bool // the logger or event concerned was given the context "MINE": MINE or background may be read
	run  func(b zerolog.Logger, p probeObj, mine context.Context)
}

func staleCtxSweep(c *Ctx) {
	w := &lastWriter{}
	base := zerolog.New(w)
	mineCtx := context.WithValue(context.Background(), ctxKey{}, "MINE")
	key := func(i int) string { return fmt.Sprintf("d%d", i) }
	dicts := func(cx context.Context, k int) []*zerolog.Event {
		var ds []*zerolog.Event
		for i := 0; i < k; i++ {
			ds = append(ds, zerolog.Dict().Ctx(cx).Str("a", "b"))
		}
		return ds
	}
	leavers := []leaverT{
		{"logger events Info().Ctx(c), finished with Msg", func(b zerolog.Logger, cx context.Context, k int) {
			var evs []*zerolog.Event
			for i := 0; i < k; i++ {
				evs = append(evs, b.Info().Ctx(cx))
			}
			for _, e := range evs {
				e.Msg("x")
			}
		}},
		{"logger events Log().Ctx(c), finished with Send", func(b zerolog.Logger, cx context.Context, k int) {
			var evs []*zerolog.Event
			for i := 0; i < k; i++ {
				evs = append(evs, b.Log().Ctx(cx))
			}
			for i := len(evs) - 1; i >= 0; i-- {
				evs[i].Send()
			}
		}},
		{"events of a logger built with With().Ctx(c)", func(b zerolog.Logger, cx context.Context, k int) {
			l := b.With().Ctx(cx).Logger()
			var evs []*zerolog.Event
			for i := 0; i < k; i++ {
				evs = append(evs, l.WithLevel(zerolog.FatalLevel))
			}
			for _, e := range evs {
				e.Msgf("x%d", 1)
			}
		}},
		{"Dict().Ctx(c) given to Event.Dict", func(b zerolog.Logger, cx context.Context, k int) {
			ds := dicts(cx, k)
			e := b.Info()
			for i, d := range ds {
				e.Dict(key(i), d)
			}
			e.Msg("")
		}},
		{"Dict().Ctx(c) given to Array.Dict", func(b zerolog.Logger, cx context.Context, k int) {
			ds := dicts(cx, k)
			a := zerolog.Arr()
			for _, d := range ds {
				a.Dict(d)
			}
			b.Info().Array("a", a).Msg("")
		}},
		{"Dict().Ctx(c) given to Context.Dict", func(b zerolog.Logger, cx context.Context, k int) {
			ds := dicts(cx, k)
			x := b.With()
			for i, d := range ds {
				x = x.Dict(key(i), d)
			}
			_ = x.Logger()
		}},
		{"Dict().Ctx(c) given to the nil event of a disabled logger", func(b zerolog.Logger, cx context.Context, k int) {
			ds := dicts(cx, k)
			off := b.Level(zerolog.Disabled)
			e := off.Info()
			for i, d := range ds {
				e.Dict(key(i), d)
			}
			e.Msg("")
		}},
		{"Dict().Ctx(c) nested in another dict", func(b zerolog.Logger, cx context.Context, k int) {
			ds := dicts(cx, k)
			outer := zerolog.Dict()
			for i, d := range ds {
				outer.Dict(key(i), d)
			}
			b.Info().Dict("outer", outer).Msg("")
		}},
		{"a marshaler calling e.Ctx(c) on the helper event of Arr().Object", func(b zerolog.Logger, cx context.Context, k int) {
			a := zerolog.Arr()
			for i := 0; i < k; i++ {
				a.Object(ctxSetter{cx})
			}
			b.Info().Array("a", a).Msg("")
		}},
		{"a marshaler calling e.Ctx(c) on the helper event of With().Object / Fields", func(b zerolog.Logger, cx context.Context, k int) {
			x := b.With()
			for i := 0; i < k; i++ {
				x = x.Object(key(i), ctxSetter{cx})
			}
			_ = x.Logger()
			b.Info().Fields([]interface{}{"f", ctxSetter{cx}}).Msg("")
		}},
	}
	takers := []takerT{
		{"Info().Dict(k, Dict().Object(o, m))", false, func(b zerolog.Logger, p probeObj, _ context.Context) {
			b.Info().Dict("d", zerolog.Dict().Object("o", p)).Msg("")
		}},
		{"d := Dict().Object(o, m); then Info().Dict(k, d)", false, func(b zerolog.Logger, p probeObj, _ context.Context) {
			d := zerolog.Dict().Object("o", p)
			b.Info().Dict("d", d).Msg("")
		}},
		{"Info().Array(k, Arr().Object(m))", false, func(b zerolog.Logger, p probeObj, _ context.Context) {
			b.Info().Array("a", zerolog.Arr().Object(p)).Msg("")
		}},
		{"a := Arr().Object(m).Object(m); then Info().Array(k, a)", false, func(b zerolog.Logger, p probeObj, _ context.Context) {
			a := zerolog.Arr().Object(p).Object(p)
			b.Info().Array("a", a).Msg("")
		}},
		{"a := Arr().Dict(Dict().Object(o, m)); then Info().Array(k, a)", false, func(b zerolog.Logger, p probeObj, _ context.Context) {
			a := zerolog.Arr().Dict(zerolog.Dict().Object("o", p))
			b.Info().Array("a", a).Msg("")
		}},
		{"Info().Array(k, userArrayMarshaler{m})", false, func(b zerolog.Logger, p probeObj, _ context.Context) {
			b.Info().Array("a", userArr{vals: []string{"u"}, obj: p}).Msg("")
		}},
		{"a := Arr().Err(errWithObjectMarshaler); then Info().Array(k, a)", false, func(b zerolog.Logger, p probeObj, _ context.Context) {
			a := zerolog.Arr().Err(probeErr{p})
			b.Info().Array("a", a).Msg("")
		}},
		{"Info().Fields([]interface{}{k, m})", false, func(b zerolog.Logger, p probeObj, _ context.Context) {
			b.Info().Fields([]interface{}{"f", p}).Msg("")
		}},
		{"Info().Fields(map[string]interface{}{k: m, k2: errWithObjectMarshaler})", false, func(b zerolog.Logger, p probeObj, _ context.Context) {
			b.Info().Fields(map[string]interface{}{"f": p, "g": error(probeErr{p})}).Msg("")
		}},
		{"Info().Errs(k, []error{errWithObjectMarshaler})", false, func(b zerolog.Logger, p probeObj, _ context.Context) {
			b.Info().Errs("errs", []error{probeErr{p}}).Msg("")
		}},
		{"With().Object(k, m).Logger()", false, func(b zerolog.Logger, p probeObj, _ context.Context) {
			l := b.With().Object("co", p).Logger()
			l.Info().Msg("")
		}},
		{"With().EmbedObject(m).Logger()", false, func(b zerolog.Logger, p probeObj, _ context.Context) {
			l := b.With().EmbedObject(p).Logger()
			l.Info().Msg("")
		}},
		{"With().Interface(k, m).Logger()", false, func(b zerolog.Logger, p probeObj, _ context.Context) {
			_ = b.With().Interface("ci", p).Logger()
		}},
		{"With().Fields([]interface{}{k, m}).Logger()", false, func(b zerolog.Logger, p probeObj, _ context.Context) {
			_ = b.With().Fields([]interface{}{"cf", p}).Logger()
		}},
		{"With().Dict(k, Dict().Object(o, m)).Logger()", false, func(b zerolog.Logger, p probeObj, _ context.Context) {
			_ = b.With().Dict("cd", zerolog.Dict().Object("o", p)).Logger()
		}},
		{"With().Array(k, Arr().Object(m)).Logger()", false, func(b zerolog.Logger, p probeObj, _ context.Context) {
			_ = b.With().Array("ca", zerolog.Arr().Object(p)).Logger()
		}},
		{"With().Array(k, userArrayMarshaler{m}).Logger()", false, func(b zerolog.Logger, p probeObj, _ context.Context) {
			_ = b.With().Array("ca", userArr{obj: p}).Logger()
		}},
		{"With().Errs(k, []error{errWithObjectMarshaler}).Logger()", false, func(b zerolog.Logger, p probeObj, _ context.Context) {
			_ = b.With().Errs("ce", []error{probeErr{p}}).Logger()
		}},
		{"UpdateContext(func(c) { return c.Object(k, m) }) on a With() child", false, func(b zerolog.Logger, p probeObj, _ context.Context) {
			l := b.With().Str("kid", "1").Logger()
			l.UpdateContext(func(x zerolog.Context) zerolog.Context { return x.Object("uo", p) })
		}},
		{"Info().Object(k, m) / EmbedObject(m) / Interface(k, m) / Err(errWithObjectMarshaler) on the logger event itself", false, func(b zerolog.Logger, p probeObj, _ context.Context) {
			b.Info().Object("o", p).EmbedObject(p).Interface("i", p).Err(probeErr{p}).Msg("")
		}},
		{"a hook of the logger", false, func(b zerolog.Logger, p probeObj, _ context.Context) {
			l := b.Hook(probeHook{p.seen})
			l.Info().Msg("h")
			lo := l.Output(w)
			lo.Log().Msg("h")
		}},
		{"Info().Ctx(mine).Object(k, m) and its nested Dict().Object / Arr().Object", true, func(b zerolog.Logger, p probeObj, mine context.Context) {
			b.Info().Ctx(mine).Object("o", p).Dict("d", zerolog.Dict().Object("o", p)).Array("a", zerolog.Arr().Object(p)).Msg("")
		}},
		{"With().Ctx(mine).Object(k, m).Logger(), then Info().Object(k, m)", true, func(b zerolog.Logger, p probeObj, mine context.Context) {
			l := b.With().Ctx(mine).Object("co", p).Logger()
			l.Info().Object("o", p).Fields([]interface{}{"f", p}).Msg("")
		}},
		{"Info().Dict(k, Dict().Ctx(mine).Object(o, m))", true, func(b zerolog.Logger, p probeObj, mine context.Context) {
			b.Info().Dict("d", zerolog.Dict().Ctx(mine).Object("o", p)).Msg("")
		}},
	}
	oldEMF := zerolog.ErrorMarshalFunc
	zerolog.ErrorMarshalFunc = func(err error) interface{} {
		var pe probeErr
		if errors.As(err, &pe) {
			return pe.p
		}
		return err
	}
	defer func() { zerolog.ErrorMarshalFunc = oldEMF }()
	rounds := 3
	runs, reads := 0, 0
	reported := map[string]bool{}
	for k := 1; k <= 3; k++ { // fewest events first, so that the first witness of a failure is a small one
		for li, lv := range leavers {
			for ti, tk := range takers {
				for round := 0; round < rounds; round++ {
					tag := fmt.Sprintf("STALE(leaver %d, %d open)", li, k)
					stale := context.WithValue(context.Background(), ctxKey{}, tag)
					lv.run(base, stale, k)
					var seen []interface{}
					tk.run(base, probeObj{&seen}, mineCtx)
					runs++
					reads += len(seen)
					c.Hist("getctx_taker_reads", fmt.Sprint(len(seen) > 0))
					for _, v := range seen {
						if v == nil || (tk.mine && v == "MINE") {
							continue
						}
						id := fmt.Sprintf("%d/%d", li, ti)
						if reported[id] {
							continue
						}
						reported[id] = true
						exp := "the background context"
						if tk.mine {
							exp = "the context given to that logger/event (MINE) or the background context"
						}
						c.Violate(Violation{Key: "getctx-stale", Monitor: "getctx-probe",
							Desc: fmt.Sprintf("a marshaler/hook reached through [%s] on a logger without Go context read through GetCtx the value %v: a context left behind by another event (just before: %d x [%s], c carrying %q)", tk.name, v, k, lv.name, tag),
							Case: map[string]interface{}{"kind": "stale-ctx", "leaver": lv.name, "leaver_index": li, "open_at_once": k, "taker": tk.name, "taker_index": ti,
								"program": fmt.Sprintf("base := zerolog.New(w); %d x { %s } with c = context.WithValue(Background, key, %q); then on base (no Go context): %s, m reading e.GetCtx().Value(key)", k, lv.name, tag, tk.name)},
							Observed: fmt.Sprint(v), Expected: exp})
					}
				}
			}
		}
	}
	c.Res.Evaluations += runs
	c.Res.ExtraCoverage["getctx_leavers"] = len(leavers)
	c.Res.ExtraCoverage["getctx_takers"] = len(takers)
	c.Res.ExtraCoverage["getctx_sweep_runs"] = runs
	c.Res.ExtraCoverage["getctx_sweep_reads"] = reads
}

// ---------------------------------------------------------------- objects handed out twice

type actionT struct {
	name string
	run  func(parent zerolog.Logger)
}

type openCheckT struct {
	name string
	run  func(sib, other zerolog.Logger) // emits lines through the loggers' writer
	want []string
}

func openAtOnceSweep(c *Ctx) {
	w := &linesWriter{}
	root := zerolog.New(w)
	parent := root.With().Str("svc", "api").Logger()
	sib := parent.With().Str("node", "sibling").Logger()
	other := zerolog.New(w).With().Str("unrelated", "yes").Logger()
	off := parent.Level(zerolog.Disabled)
	boom := errors.New("boom")
	const sibCtx = `{"svc":"api","node":"sibling"`
	const othCtx = `{"unrelated":"yes"`
	names := []string{"x", "y", "z"}

	actions := []actionT{
		{"nothing", func(p zerolog.Logger) {}},
		{"child := parent.With().Array(k, userArrayMarshaler).Logger()", func(p zerolog.Logger) {
			_ = p.With().Array("tags", userArr{vals: []string{"t1", "t2"}}).Logger()
		}},
		{"child := parent.With().Array(k, userArrayMarshaler with an object element).Logger()", func(p zerolog.Logger) {
			_ = p.With().Array("tags", userArr{vals: []string{"t1"}, obj: strObj{"o", "v"}}).Logger()
		}},
		{"child := parent.With().Array(k, Arr().Str(..)).Logger()", func(p zerolog.Logger) {
			_ = p.With().Array("tags", zerolog.Arr().Str("t1").Str("t2")).Logger()
		}},
		{"child := parent.With().Array(k, empty userArrayMarshaler).Array(k2, Arr()).Logger()", func(p zerolog.Logger) {
			_ = p.With().Array("e1", userArr{}).Array("e2", zerolog.Arr()).Logger()
		}},
		{"child := parent.With().Dict(k, Dict().Str(..)).Logger()", func(p zerolog.Logger) {
			_ = p.With().Dict("d", zerolog.Dict().Str("a", "b")).Logger()
		}},
		{"child := parent.With().Object(k, m).EmbedObject(m).Interface(k, m).Logger()", func(p zerolog.Logger) {
			_ = p.With().Object("o", strObj{"a", "b"}).EmbedObject(strObj{"c", "d"}).Interface("i", strObj{"e", "f"}).Logger()
		}},
		{"child := parent.With().Fields([]interface{}{k, m, k2, err}).Errs(k, errs).Err(err).Logger()", func(p zerolog.Logger) {
			_ = p.With().Fields([]interface{}{"f", strObj{"a", "b"}, "g", boom}).Errs("es", []error{boom, nil}).Err(boom).Logger()
		}},
		{"UpdateContext(func(c) { return c.Array(k, userArrayMarshaler).Dict(k2, Dict()) }) on a With() child", func(p zerolog.Logger) {
			l := p.With().Str("kid", "1").Logger()
			l.UpdateContext(func(x zerolog.Context) zerolog.Context {
				return x.Array("tags", userArr{vals: []string{"t"}}).Dict("d", zerolog.Dict().Int("n", 1))
			})
		}},
		{"parent.Info().Array(k, userArrayMarshaler).Msg", func(p zerolog.Logger) {
			p.Info().Array("tags", userArr{vals: []string{"t1", "t2"}, obj: strObj{"o", "v"}}).Msg("a")
		}},
		{"parent.Info().Array(k, Arr().Object(m).Dict(Dict()).Err(err)).Msg", func(p zerolog.Logger) {
			p.Info().Array("tags", zerolog.Arr().Object(strObj{"o", "v"}).Dict(zerolog.Dict().Str("a", "b")).Err(boom)).Msg("a")
		}},
		{"parent.Info().Dict(k, Dict().Dict(k2, Dict())).Fields(..).Errs(..).Msg", func(p zerolog.Logger) {
			p.Info().Dict("d", zerolog.Dict().Dict("in", zerolog.Dict().Str("a", "b"))).Fields(map[string]interface{}{"f": strObj{"a", "b"}}).Errs("es", []error{boom}).Msg("a")
		}},
		{"a disabled logger: off.Info().Array(k, Arr()).Array(k2, userArrayMarshaler).Dict(k3, Dict()).Msg (nil event)", func(p zerolog.Logger) {
			off.Info().Array("a", zerolog.Arr().Str("x")).Array("b", userArr{vals: []string{"t"}}).Dict("d", zerolog.Dict().Str("a", "b")).Msg("never")
		}},
		{"a level-filtered event: parent.Level(Warn).Debug().Array(k, Arr()).Dict(k2, Dict()).Msg (nil event)", func(p zerolog.Logger) {
			l := p.Level(zerolog.WarnLevel)
			l.Debug().Array("a", zerolog.Arr().Int(1)).Dict("d", zerolog.Dict().Int("n", 1)).Send()
		}},
		{"a discarded event: parent.Info().Array(k, Arr()).Discard().Msg", func(p zerolog.Logger) {
			p.Info().Array("a", zerolog.Arr().Int(1)).Discard().Msg("never")
		}},
		{"two children derived one after the other with Array/Dict/Object, events from both", func(p zerolog.Logger) {
			a := p.With().Array("tags", userArr{vals: []string{"a"}}).Logger()
			b := p.With().Array("tags", zerolog.Arr().Str("b")).Dict("d", zerolog.Dict()).Logger()
			a.Info().Msg("a")
			b.Info().Msg("b")
		}},
	}
	// every way an event can end its life without being written (rejected by the hooks of its derivation
	// path - one hook, several hooks of one path added at different nodes or in one call, a hook rejecting
	// twice - discarded by the caller, once or twice, before or after fields were added, finished with
	// Msg / Msgf / Send / MsgFunc; a recovered Panic(); rejected by a sampler), x every finisher
	drop := zerolog.HookFunc(func(e *zerolog.Event, l zerolog.Level, m string) { e.Discard() })
	drop2 := zerolog.HookFunc(func(e *zerolog.Event, l zerolog.Level, m string) { e.Discard(); e.Discard() })
	addf := zerolog.HookFunc(func(e *zerolog.Event, l zerolog.Level, m string) { e.Str("hooked", "1") })
	finishers := []struct {
		name string
		fin  func(e *zerolog.Event)
	}{
		{"Msg", func(e *zerolog.Event) { e.Msg("never") }},
		{"Send", func(e *zerolog.Event) { e.Send() }},
		{"Msgf", func(e *zerolog.Event) { e.Msgf("never %d", 1) }},
		{"MsgFunc", func(e *zerolog.Event) { e.MsgFunc(func() string { return "never" }) }},
	}
	enders := []struct {
		name string
		mk   func(p zerolog.Logger) *zerolog.Event // the event, ready to be finished
	}{
		{"an event rejected by one hook: parent.Hook(drop).Info()", func(p zerolog.Logger) *zerolog.Event {
			l := p.Hook(drop)
			return l.Info().Str("a", "b")
		}},
		{"an event rejected by two hooks of its derivation path: parent.Hook(drop).With().Str(..).Logger().Hook(drop).Info()", func(p zerolog.Logger) *zerolog.Event {
			l := p.Hook(drop).With().Str("kid", "1").Logger().Hook(drop)
			return l.Info().Str("a", "b")
		}},
		{"an event rejected by two hooks given in one call: parent.Hook(drop, drop).Debug()", func(p zerolog.Logger) *zerolog.Event {
			l := p.Hook(drop, drop)
			return l.Debug()
		}},
		{"an event rejected by the first and the last of three hooks (the middle one adds a field): parent.Hook(drop).Level(..).Hook(add).Output(w).Hook(drop).Warn()", func(p zerolog.Logger) *zerolog.Event {
			l := p.Hook(drop).Level(zerolog.DebugLevel).Hook(addf).Output(w).Hook(drop)
			return l.Warn().Array("a", zerolog.Arr().Int(1)).Dict("d", zerolog.Dict().Int("n", 1))
		}},
		{"an event rejected twice by one hook (the hook calls e.Discard() twice)", func(p zerolog.Logger) *zerolog.Event {
			l := p.Hook(drop2)
			return l.Info()
		}},
		{"an event discarded by the caller and finished all the same: e := parent.Info(); e.Discard(); e...", func(p zerolog.Logger) *zerolog.Event {
			e := p.Info().Str("a", "b")
			e.Discard()
			return e
		}},
		{"an event discarded twice by the caller and finished all the same: e := parent.Info(); e.Discard(); e.Discard(); e...", func(p zerolog.Logger) *zerolog.Event {
			e := p.Info()
			e.Discard()
			e.Str("late", "field")
			e.Discard()
			return e
		}},
		{"an event discarded by the caller and rejected by a hook of the logger as well", func(p zerolog.Logger) *zerolog.Event {
			l := p.Hook(drop)
			e := l.Info()
			e.Discard()
			return e
		}},
	}
	for _, en := range enders {
		for _, fi := range finishers {
			en, fi := en, fi
			actions = append(actions, actionT{en.name + ", finished with " + fi.name, func(p zerolog.Logger) { fi.fin(en.mk(p)) }})
		}
	}
	actions = append(actions,
		actionT{"an event discarded in a chain: parent.Info().Str(..).Discard().Msg (Msg on the nil result)", func(p zerolog.Logger) {
			p.Info().Str("a", "b").Discard().Msg("never")
			p.Info().Discard().Discard().Send()
		}},
		actionT{"a Panic() event written, the panic recovered", func(p zerolog.Logger) {
			defer func() { _ = recover() }()
			p.Panic().Str("a", "b").Msg("recovered")
		}},
		actionT{"a Panic() event rejected by two hooks, the panic recovered", func(p zerolog.Logger) {
			defer func() { _ = recover() }()
			l := p.Hook(drop).Hook(drop)
			l.Panic().Msg("recovered")
		}},
		actionT{"an event rejected by the sampler: parent.Sample(never).Info().Array(..).Dict(..).Msg", func(p zerolog.Logger) {
			l := p.Sample(neverSampler{})
			l.Info().Array("a", zerolog.Arr().Int(1)).Dict("d", zerolog.Dict().Int("n", 1)).Msg("never")
		}},
		actionT{"a hook that logs through another logger while its own event is open, then rejects its event", func(p zerolog.Logger) {
			var l zerolog.Logger
			l = p.Hook(zerolog.HookFunc(func(e *zerolog.Event, lv zerolog.Level, m string) {
				other.Log().Str("from", "hook").Send()
				e.Discard()
			})).Hook(drop)
			l.Info().Msg("never")
		}},
	)

	checks := []openCheckT{
		{"two arrays open at once, filled alternately, both in one event of the sibling", func(s, o zerolog.Logger) {
			ids, nm := zerolog.Arr(), zerolog.Arr()
			for i := 0; i < 3; i++ {
				ids.Int(i)
				nm.Str(names[i])
			}
			s.Log().Array("ids", ids).Array("names", nm).Msg("batch")
		}, []string{sibCtx + `,"ids":[0,1,2],"names":["x","y","z"],"message":"batch"}` + "\n"}},
		{"three arrays open at once, attached in reverse order to the events of two loggers", func(s, o zerolog.Logger) {
			a1, a2, a3 := zerolog.Arr(), zerolog.Arr(), zerolog.Arr()
			for i := 0; i < 2; i++ {
				a1.Int(i)
				a2.Str(names[i])
				a3.Bool(i == 0)
			}
			o.Log().Array("c", a3).Msg("o")
			s.Log().Array("b", a2).Array("a", a1).Msg("s")
		}, []string{othCtx + `,"c":[true,false],"message":"o"}` + "\n", sibCtx + `,"b":["x","y"],"a":[0,1],"message":"s"}` + "\n"}},
		{"two dicts open at once, filled alternately", func(s, o zerolog.Logger) {
			d1, d2 := zerolog.Dict(), zerolog.Dict()
			d1.Int("a", 1)
			d2.Str("b", "x")
			d1.Int("c", 2)
			d2.Str("d", "y")
			s.Log().Dict("p", d1).Dict("q", d2).Msg("dicts")
		}, []string{sibCtx + `,"p":{"a":1,"c":2},"q":{"b":"x","d":"y"},"message":"dicts"}` + "\n"}},
		{"the events of two loggers open at once, filled alternately, finished in reverse order", func(s, o zerolog.Logger) {
			e1, e2 := s.Log(), o.Log()
			e1.Str("a", "1")
			e2.Str("b", "2")
			e1.Int("c", 3)
			e2.Int("d", 4)
			e2.Msg("two")
			e1.Msg("one")
		}, []string{othCtx + `,"b":"2","d":4,"message":"two"}` + "\n", sibCtx + `,"a":"1","c":3,"message":"one"}` + "\n"}},
		{"an array, a dict and an event open at once, the array holding object and dict elements", func(s, o zerolog.Logger) {
			a := zerolog.Arr()
			d := zerolog.Dict()
			e := s.Log()
			a.Object(strObj{"o", "1"})
			d.Str("k", "v")
			e.Str("own", "field")
			a.Dict(zerolog.Dict().Int("n", 2))
			d.Array("inner", zerolog.Arr().Int(7).Int(8))
			e.Array("arr", a).Dict("dict", d).Msg("mixed")
		}, []string{sibCtx + `,"own":"field","arr":[{"o":"1"},{"n":2}],"dict":{"k":"v","inner":[7,8]},"message":"mixed"}` + "\n"}},
		{"two children derived alternately, each with an array and a dict of its own", func(s, o zerolog.Logger) {
			c1 := s.With()
			a1, d1 := zerolog.Arr(), zerolog.Dict()
			c2 := o.With()
			a2, d2 := zerolog.Arr(), zerolog.Dict()
			for i := 0; i < 2; i++ {
				a1.Int(i)
				a2.Str(names[i])
				d1.Int(names[i], i)
				d2.Str(names[i], names[i])
			}
			l1 := c1.Array("ids", a1).Dict("m", d1).Logger()
			l2 := c2.Array("names", a2).Dict("m", d2).Logger()
			l2.Log().Send()
			l1.Log().Send()
			s.Log().Send()
		}, []string{othCtx + `,"names":["x","y"],"m":{"x":"x","y":"y"}}` + "\n", sibCtx + `,"ids":[0,1],"m":{"x":0,"y":1}}` + "\n", sibCtx + "}\n"}},
		{"two user array marshalers in one event, then two arrays open at once", func(s, o zerolog.Logger) {
			s.Log().Array("u1", userArr{vals: []string{"a", "b"}}).Array("u2", userArr{vals: []string{"c"}, obj: strObj{"o", "v"}}).Send()
			a1, a2 := zerolog.Arr(), zerolog.Arr()
			a1.Str("l")
			a2.Str("r")
			a1.Str("l")
			a2.Str("r")
			o.Log().Array("left", a1).Array("right", a2).Send()
		}, []string{sibCtx + `,"u1":["a","b"],"u2":["c",{"o":"v"}]}` + "\n", othCtx + `,"left":["l","l"],"right":["r","r"]}` + "\n"}},
	}

	rounds := 4
	runs := 0
	reported := map[string]bool{}
	for ai, act := range actions {
		// what earlier actions left in the pools is dropped (two collections empty a sync.Pool), so that a
		// failure is reported against the action that causes it
		runtime.GC()
		runtime.GC()
		for ci, ck := range checks {
			for round := 0; round < rounds; round++ {
				w.lines = nil
				act.run(parent)
				w.lines = nil
				ck.run(sib, other)
				runs++
				got := append([]string{}, w.lines...)
				if strings.Join(got, "") == strings.Join(ck.want, "") && len(got) == len(ck.want) {
					continue
				}
				id := fmt.Sprintf("%d/%d", ai, ci)
				if reported[id] {
					continue
				}
				reported[id] = true
				c.Violate(Violation{Key: "pooled-object-shared", Monitor: "open-at-once",
					Desc: fmt.Sprintf("after [%s], a sibling/unrelated logger doing [%s] emitted %q; what it put into its own arrays, dicts and events says %q", act.name, ck.name, got, ck.want),
					Case: map[string]interface{}{"kind": "open-at-once", "action": act.name, "action_index": ai, "check": ck.name, "check_index": ci, "round": round,
						"program": "root := zerolog.New(w); parent := root.With().Str(svc, api).Logger(); sibling := parent.With().Str(node, sibling).Logger(); other := zerolog.New(w).With().Str(unrelated, yes).Logger(); then the action on parent, then the check on sibling/other"},
					Observed: got, Expected: ck.want})
			}
		}
	}
	c.Res.Evaluations += runs
	c.Res.ExtraCoverage["open_at_once_actions"] = len(actions)
	c.Res.ExtraCoverage["open_at_once_checks"] = len(checks)
	c.Res.ExtraCoverage["open_at_once_runs"] = runs
}
