package main

// The real decoder runs in a child process (this same binary started with
// C17_WORKER=1) under an address-space limit, so that a hostile length, a
// runaway recursion or a hang cannot take the check down: the parent sees the
// child die or time out and reports it as an observation.

import (
	"bufio"
	"bytes"
	"encoding/binary"
	"errors"
	"fmt"
	"io"
	"os"
	"os/exec"
	"runtime"
	"runtime/metrics"
	"strings"
	"syscall"
	"time"

	"github.com/rs/zerolog"
)

const (
	entMany     = 0
	entIfBinary = 1
	entObject   = 2
)

// observation classes (the codes of Harness/C17H.v final_code)
const (
	clsOk          = 0
	clsUnknownErr  = 99
	clsMakeSlice   = 100
	clsIndexRange  = 101
	clsOtherRT     = 102 // another runtime.Error
	clsNonErrPanic = 103 // a panic value that is not an error (r.(error) fails)
	clsFatal       = 250 // the child process died
	clsHang        = 251 // no answer within the time limit
)

func classifyErr(msg string) int {
	switch {
	case strings.HasPrefix(msg, "Tried to Read 1 Byte.."):
		return 1
	case strings.HasPrefix(msg, "Tried to Read"):
		return 2
	case msg == "EOF":
		return 3
	case strings.HasPrefix(msg, "Invalid length"):
		return 4
	case strings.HasPrefix(msg, "Invalid Additional Type"):
		return 5
	case strings.HasPrefix(msg, "Major type is"), strings.HasPrefix(msg, "Incorrect Major type"):
		return 6
	case strings.HasPrefix(msg, "float16 is not supported"):
		return 7
	case strings.HasPrefix(msg, "Unsupported Additional Tag Type"):
		return 8
	case strings.HasPrefix(msg, "Unsupported Additional Type"):
		return 9
	case strings.HasPrefix(msg, "Unsupported embedded Type"):
		return 10
	case strings.HasPrefix(msg, "Unexpected Network Address length"):
		return 11
	case strings.HasPrefix(msg, "IP Prefix is NOT"):
		return 12
	case strings.HasPrefix(msg, "TS format"):
		return 13
	case strings.HasPrefix(msg, "Invalid Float precision"):
		return 14
	}
	return clsUnknownErr
}

func classifyPanic(r interface{}) (int, string) {
	if re, ok := r.(runtime.Error); ok {
		m := re.Error()
		switch {
		case strings.Contains(m, "makeslice"):
			return clsMakeSlice, m
		case strings.Contains(m, "index out of range"):
			return clsIndexRange, m
		}
		return clsOtherRT, m
	}
	if e, ok := r.(error); ok {
		return classifyErr(e.Error()), e.Error()
	}
	return clsNonErrPanic, fmt.Sprint(r)
}

// decodeReal runs one entry point of the real decoder under recover.
func decodeReal(entry byte, in []byte) (out []byte, cls int, msg string) {
	var b bytes.Buffer
	defer func() {
		if r := recover(); r != nil {
			if entry == entMany {
				out = b.Bytes()
			}
			cls, msg = classifyPanic(r)
		}
	}()
	switch entry {
	case entMany:
		err := zerolog.VerifCbor2JsonManyObjects(bytes.NewReader(in), &b)
		out = b.Bytes()
		if err != nil {
			cls, msg = classifyErr(err.Error()), err.Error()
		}
	case entIfBinary:
		out = zerolog.VerifDecodeIfBinaryToBytes(in)
	case entObject:
		out = []byte(zerolog.VerifDecodeObjectToStr(in))
	}
	return
}

var allocSample = []metrics.Sample{{Name: "/gc/heap/allocs:bytes"}}

func heapAllocs() uint64 {
	metrics.Read(allocSample)
	return allocSample[0].Value.Uint64()
}

func workerMain() {
	// 6 GiB of address space: enough for the Go runtime and any proportionate
	// allocation, far below what a bogus 2^31..2^63 length would ask for
	lim := syscall.Rlimit{Cur: 6 << 30, Max: 6 << 30}
	syscall.Setrlimit(syscall.RLIMIT_AS, &lim)
	in := bufio.NewReaderSize(os.Stdin, 1<<20)
	out := bufio.NewWriterSize(os.Stdout, 1<<20)
	hdr := make([]byte, 5)
	for {
		if _, err := io.ReadFull(in, hdr); err != nil {
			return
		}
		n := binary.LittleEndian.Uint32(hdr[1:])
		buf := make([]byte, n)
		if _, err := io.ReadFull(in, buf); err != nil {
			return
		}
		a0 := heapAllocs()
		o, cls, msg := decodeReal(hdr[0], buf)
		a1 := heapAllocs()
		var resp [17]byte
		resp[0] = byte(cls)
		binary.LittleEndian.PutUint64(resp[1:], a1-a0)
		binary.LittleEndian.PutUint32(resp[9:], uint32(len(o)))
		binary.LittleEndian.PutUint32(resp[13:], uint32(len(msg)))
		out.Write(resp[:])
		out.Write(o)
		out.WriteString(msg)
		out.Flush()
	}
}

type obs struct {
	Out   []byte
	Cls   int
	Msg   string
	Alloc uint64
}

type worker struct {
	cmd     *exec.Cmd
	stdin   io.WriteCloser
	stdout  *bufio.Reader
	stderr  *bytes.Buffer
	Deaths  int
	Timeout time.Duration
}

func (w *worker) start() error {
	w.cmd = exec.Command(os.Args[0])
	w.cmd.Env = append(os.Environ(), "C17_WORKER=1")
	var err error
	if w.stdin, err = w.cmd.StdinPipe(); err != nil {
		return err
	}
	so, err := w.cmd.StdoutPipe()
	if err != nil {
		return err
	}
	w.stdout = bufio.NewReaderSize(so, 1<<20)
	w.stderr = &bytes.Buffer{}
	w.cmd.Stderr = w.stderr
	return w.cmd.Start()
}

func (w *worker) stop() {
	if w.cmd != nil {
		w.stdin.Close()
		w.cmd.Process.Kill()
		w.cmd.Wait()
		w.cmd = nil
	}
}

var errWorker = errors.New("worker died")

func (w *worker) roundTrip(entry byte, in []byte) (obs, error) {
	var hdr [5]byte
	hdr[0] = entry
	binary.LittleEndian.PutUint32(hdr[1:], uint32(len(in)))
	if _, err := w.stdin.Write(append(hdr[:], in...)); err != nil {
		return obs{}, errWorker
	}
	var resp [17]byte
	if _, err := io.ReadFull(w.stdout, resp[:]); err != nil {
		return obs{}, errWorker
	}
	o := obs{Cls: int(resp[0]), Alloc: binary.LittleEndian.Uint64(resp[1:])}
	o.Out = make([]byte, binary.LittleEndian.Uint32(resp[9:]))
	msg := make([]byte, binary.LittleEndian.Uint32(resp[13:]))
	if _, err := io.ReadFull(w.stdout, o.Out); err != nil {
		return obs{}, errWorker
	}
	if _, err := io.ReadFull(w.stdout, msg); err != nil {
		return obs{}, errWorker
	}
	o.Msg = string(msg)
	return o, nil
}

// decode runs the real decoder on in (in the child) and never fails: a dead
// or hung child is an observation.
func (w *worker) decode(entry byte, in []byte) obs {
	if w.cmd == nil {
		if err := w.start(); err != nil {
			panic(err)
		}
	}
	type res struct {
		o   obs
		err error
	}
	ch := make(chan res, 1)
	go func() {
		o, err := w.roundTrip(entry, in)
		ch <- res{o, err}
	}()
	select {
	case r := <-ch:
		if r.err != nil {
			msg := w.stderr.String()
			if len(msg) > 400 {
				msg = msg[:400]
			}
			w.stop()
			w.Deaths++
			return obs{Cls: clsFatal, Msg: msg}
		}
		return r.o
	case <-time.After(w.Timeout):
		w.stop()
		w.Deaths++
		return obs{Cls: clsHang, Msg: "no answer within " + w.Timeout.String()}
	}
}
