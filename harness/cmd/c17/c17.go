package main

// C17 - the CBOR decoder is total: errors not crashes; truncation costs only
// the last event.
//
// Correspondence: the real decoder (Cbor2JsonManyObjects, DecodeIfBinaryToBytes,
// DecodeObjectToStr) runs in a child process under recover(), an allocation
// meter, a time limit and an address-space limit; the Coq model
// (Enc/CborDec.v) must predict the bytes written and the outcome class for
// every input.  Oracle answers (strconv float text, time formatting) for every
// position of the input that could be a float / timestamp payload are computed
// here with the Go standard library and shipped with the case.
//
// Monitors (independent of the model): no runtime panic, no fatal error, no
// hang; allocation proportionate to the input; DecodeIfBinaryToBytes agrees
// with Cbor2JsonManyObjects; for valid streams produced by the real encoder
// every cut point decodes exactly the wholly contained events and reports an
// error iff the cut is inside an event.

import (
	"bytes"
	"encoding/binary"
	"encoding/json"
	"errors"
	"fmt"
	"math"
	"net"
	"os"
	"sort"
	"strconv"
	"strings"
	"time"

	"github.com/rs/zerolog"
	"verifharness/cborref"
	"verifharness/hlib"
	. "verifharness/hlib"
)

func main() {
	if os.Getenv("C17_WORKER") == "1" {
		workerMain()
		return
	}
	hlib.Main(map[string]func(*hlib.Ctx){"C17": runC17})
}

// ---------------------------------------------------------------- Gallina printers
func cz(z int64) string  { return fmt.Sprintf("(%d)%%Z", z) }
func cn(n uint64) string { return fmt.Sprintf("%d%%N", n) }
func cbs(b []byte) string {
	if len(b) == 0 {
		return "(@nil N)"
	}
	return CoqBytes(b)
}

var finalCoq = map[int]string{0: "FOk", 1: "(FErr EEofRead1)", 2: "(FErr EEofReadN)", 3: "(FErr EEofPeek)", 4: "(FErr EInvalidLength)",
	5: "(FErr EBadAdditional)", 6: "(FErr EBadMajor)", 7: "(FErr EFloat16)", 8: "(FErr EUnsupportedTag)", 9: "(FErr EUnsupportedTagAdditional)",
	10: "(FErr EUnsupportedEmbedded)", 11: "(FErr EBadNetAddrLen)", 12: "(FErr EBadPrefixShape)", 13: "(FErr ETSFormat)", 14: "(FErr EFloatPrecision)",
	clsMakeSlice: "(FRuntimePanic PMakeSliceNeg)", clsIndexRange: "(FRuntimePanic PIndexRange)"}

// classes the model has no constructor for are printed as FOutOfFuel: the case then mismatches
func finalTerm(cls int) string {
	if s, ok := finalCoq[cls]; ok {
		return s
	}
	return "FOutOfFuel"
}

// ---------------------------------------------------------------- oracles
type tables struct {
	f32 map[uint32][]byte
	f64 map[uint64][]byte
	tsi map[int64][]byte
	tsf map[[2]uint64][]byte // {1 if float32, bits}
}

func newTables() *tables {
	return &tables{map[uint32][]byte{}, map[uint64][]byte{}, map[int64][]byte{}, map[[2]uint64][]byte{}}
}

var oracleMaxLen = map[string]int{}

func noteLen(kind string, n int) {
	if n > oracleMaxLen[kind] {
		oracleMaxLen[kind] = n
	}
}

func fmtTimeInt(n int64) []byte {
	return time.Unix(n, 0).In(time.UTC).AppendFormat(nil, time.RFC3339)
}

// the float branch of decodeTimeStamp, restated
func fmtTimeFloat(v float64) []byte {
	secs := int64(v)
	v -= float64(secs)
	v *= float64(1e9)
	return time.Unix(secs, int64(v)).In(time.UTC).AppendFormat(nil, time.RFC3339Nano)
}

func f32val(bits uint32) float64 { return float64(math.Float32frombits(bits)) }

// scan adds the oracle answers for every position of in that could be a
// float32 / float64 / timestamp payload.
func (tb *tables) scan(in []byte) {
	for i := 0; i < len(in); i++ {
		switch in[i] {
		case 0xfa:
			if i+5 <= len(in) {
				bits := binary.BigEndian.Uint32(in[i+1:])
				v := f32val(bits)
				if !math.IsNaN(v) && !math.IsInf(v, 0) {
					if _, ok := tb.f32[bits]; !ok {
						tb.f32[bits] = strconv.AppendFloat(nil, v, 'f', -1, 32)
						noteLen("f32", len(tb.f32[bits]))
					}
				}
				if i > 0 && in[i-1] == 0xc1 {
					k := [2]uint64{1, uint64(bits)}
					if _, ok := tb.tsf[k]; !ok {
						tb.tsf[k] = fmtTimeFloat(v)
						noteLen("ts", len(tb.tsf[k]))
					}
				}
			}
		case 0xfb:
			if i+9 <= len(in) {
				bits := binary.BigEndian.Uint64(in[i+1:])
				v := math.Float64frombits(bits)
				if !math.IsNaN(v) && !math.IsInf(v, 0) {
					if _, ok := tb.f64[bits]; !ok {
						tb.f64[bits] = strconv.AppendFloat(nil, v, 'f', -1, 64)
						noteLen("f64", len(tb.f64[bits]))
					}
				}
				if i > 0 && in[i-1] == 0xc1 {
					k := [2]uint64{0, bits}
					if _, ok := tb.tsf[k]; !ok {
						tb.tsf[k] = fmtTimeFloat(v)
						noteLen("ts", len(tb.tsf[k]))
					}
				}
			}
		case 0xc1:
			if i+1 < len(in) {
				b := in[i+1]
				if b>>5 <= 1 {
					minor := b & 0x1f
					var val int64
					ok := true
					switch {
					case minor <= 23:
						val = int64(minor)
					case minor <= 27:
						k := 1 << (minor - 24)
						if i+2+k <= len(in) {
							for _, x := range in[i+2 : i+2+k] {
								val = val*256 + int64(x)
							}
						} else {
							ok = false
						}
					default:
						ok = false
					}
					if ok {
						if b>>5 == 1 {
							val = -1 - val
						}
						if _, have := tb.tsi[val]; !have {
							tb.tsi[val] = fmtTimeInt(val)
							noteLen("ts", len(tb.tsi[val]))
						}
					}
				}
			}
		}
	}
}

func (tb *tables) coq() string {
	var a, b, c, d []string
	for k, v := range tb.f32 {
		a = append(a, fmt.Sprintf("(%s,%s)", cn(uint64(k)), cbs(v)))
	}
	for k, v := range tb.f64 {
		b = append(b, fmt.Sprintf("(%s,%s)", cn(k), cbs(v)))
	}
	for k, v := range tb.tsi {
		c = append(c, fmt.Sprintf("(%s,%s)", cz(k), cbs(v)))
	}
	for k, v := range tb.tsf {
		d = append(d, fmt.Sprintf("(%s,%s,%s)", CoqBool(k[0] == 1), cn(k[1]), cbs(v)))
	}
	sort.Strings(a)
	sort.Strings(b)
	sort.Strings(c)
	sort.Strings(d)
	if len(a)+len(b)+len(c)+len(d) == 0 {
		return "T0"
	}
	return fmt.Sprintf("(mkT %s %s %s %s)", CoqList(a), CoqList(b), CoqList(c), CoqList(d))
}

// ---------------------------------------------------------------- running one input
type runner struct {
	c        *Ctx
	w        *worker
	maxRatio float64
	classes  map[int]int
}

func hexs(b []byte) string {
	if len(b) > 96 {
		return fmt.Sprintf("%x...(%d bytes)", b[:96], len(b))
	}
	return fmt.Sprintf("%x", b)
}

// the allocation the property tolerates: proportionate to the input
// (the runtime's allocation counter is flushed per span, so single readings jitter by tens of KiB)
func allocBound(n int) uint64 { return 64*uint64(n) + 1<<20 }

// monitors on one observation of Cbor2JsonManyObjects
func (r *runner) monitor(entry byte, in []byte, o obs, origin string) {
	c := r.c
	cs := map[string]interface{}{"entry": entry, "input_hex": hexs(in), "len": len(in), "origin": origin}
	switch o.Cls {
	case clsMakeSlice, clsIndexRange, clsOtherRT:
		c.Violate(Violation{Key: "decoder-runtime-panic", Monitor: "no-runtime-panic", Desc: "decoding panicked with a runtime error: " + o.Msg, Case: cs, Observed: o.Msg})
	case clsNonErrPanic:
		if entry == entMany || entry == entIfBinary {
			c.Violate(Violation{Key: "decoder-nonerror-panic", Monitor: "no-runtime-panic", Desc: "decoder panicked with a value that is not an error (the recover's r.(error) fails): " + o.Msg, Case: cs, Observed: o.Msg})
		}
	case clsFatal:
		c.Violate(Violation{Key: "decoder-fatal", Monitor: "no-fatal-error", Desc: "the process running the decoder died (fatal error: out of memory / stack overflow): " + o.Msg, Case: cs, Observed: o.Msg})
	case clsHang:
		c.Violate(Violation{Key: "decoder-hang", Monitor: "terminates", Desc: "the decoder did not return: " + o.Msg, Case: cs})
	case clsUnknownErr:
		c.Note("unclassified decoder error text %q on %s", o.Msg, hexs(in))
	}
	if o.Cls < clsFatal && o.Alloc > allocBound(len(in)) {
		c.Violate(Violation{Key: "decoder-alloc-disproportionate", Monitor: "allocation-meter", Desc: fmt.Sprintf("decoding %d bytes allocated %d bytes (bound 64*len+1MiB = %d)", len(in), o.Alloc, allocBound(len(in))), Case: cs, Observed: o.Alloc, Expected: allocBound(len(in))})
	}
	if len(in) > 0 {
		if q := float64(o.Alloc) / float64(len(in)+1024); q > r.maxRatio {
			r.maxRatio = q
		}
	}
	r.classes[o.Cls]++
}

func (r *runner) addCase(tb *tables, entry byte, in []byte, o obs) {
	ent := []string{"EMany", "EIfBinary", "EObject"}[entry]
	term := fmt.Sprintf("((%s, (%s, %s)), (%s, %s))", tb.coq(), ent, cbs(in), cbs(o.Out), finalTerm(o.Cls))
	r.c.AddCase(term, map[string]interface{}{"entry": ent, "input_hex": fmt.Sprintf("%x", truncB(in, 8192)), "out": string(truncB(o.Out, 2048)), "class": o.Cls, "msg": o.Msg})
}

func minInt(a, b int) int {
	if a < b {
		return a
	}
	return b
}

func truncB(b []byte, n int) []byte {
	if len(b) > n {
		return b[:n]
	}
	return b
}

// one input through Cbor2JsonManyObjects (+ optionally the other entry points), as a model case
func (r *runner) one(in []byte, origin string, others bool) obs {
	tb := newTables()
	tb.scan(in)
	o := r.w.decode(entMany, in)
	r.monitor(entMany, in, o, origin)
	r.addCase(tb, entMany, in, o)
	r.c.Count(string(in), o.Cls != 1 && o.Cls != 3 || len(o.Out) > 0)
	r.c.Hist("origin", origin)
	r.c.Hist("class", fmt.Sprintf("%d", o.Cls))
	r.c.Hist("input_len", lenBucket(len(in)))
	if others {
		ob := r.w.decode(entIfBinary, in)
		r.monitor(entIfBinary, in, ob, origin)
		// DecodeIfBinaryToBytes = input itself unless the first byte is > 0x7f; then the output of the stream decoder, error dropped
		want := in
		if len(in) > 0 && in[0] > 0x7f {
			want = o.Out
		}
		if ob.Cls == clsOk && o.Cls < clsMakeSlice && !bytes.Equal(ob.Out, want) {
			r.c.Violate(Violation{Key: "decode-if-binary-differs", Monitor: "entry-points-agree", Desc: "DecodeIfBinaryToBytes differs from Cbor2JsonManyObjects on the same input", Case: map[string]interface{}{"input_hex": hexs(in)}, Observed: string(truncB(ob.Out, 300)), Expected: string(truncB(want, 300))})
		}
		r.addCase(tb, entIfBinary, in, ob)
		oo := r.w.decode(entObject, in)
		r.monitor(entObject, in, oo, origin)
		if oo.Cls >= 1 && oo.Cls <= 14 {
			r.classes[1000]++ // DecodeObjectToStr panicked with a plain error (it has no recover and no error result)
			oo.Out = nil
		}
		r.addCase(tb, entObject, in, oo)
	}
	return o
}

func lenBucket(n int) string {
	switch {
	case n <= 3:
		return "1-3"
	case n <= 32:
		return "4-32"
	case n <= 512:
		return "33-512"
	case n <= 8192:
		return "513-8192"
	default:
		return "8193-65536"
	}
}

// ---------------------------------------------------------------- digests (exhaustive short inputs)
func digest(out []byte, cls int) uint64 {
	h := uint64(cls) + 1
	for _, b := range out {
		h = (h*257 + uint64(b) + 1) % 4294967291
	}
	return h
}

// all 256 continuations of prefix; returns the digests
func (r *runner) exh(prefix []byte, tb *tables) []uint64 {
	ds := make([]uint64, 256)
	in := append(append([]byte{}, prefix...), 0)
	for b := 0; b < 256; b++ {
		in[len(prefix)] = byte(b)
		tb.scan(in)
		o := r.w.decode(entMany, in)
		r.monitor(entMany, in, o, "exhaustive")
		cls := o.Cls
		if _, ok := finalCoq[cls]; !ok {
			cls = 200
		}
		ds[b] = digest(o.Out, cls)
		r.c.Count(string(in), true)
		r.classes[-1]++
	}
	return ds
}

func cns(xs []uint64) string {
	ys := make([]string, len(xs))
	for i, x := range xs {
		ys[i] = fmt.Sprintf("%d", x)
	}
	return "[" + strings.Join(ys, ";") + "]%N"
}

// ---------------------------------------------------------------- generators
// structure-aware random item: mostly well-formed, with every kind of defect mixed in
func genItem(r *Rng, depth int, b *bytes.Buffer) {
	head := func(major byte, n uint64) {
		mode := r.Intn(12)
		switch {
		case n < 24 && mode < 9:
			b.WriteByte(major<<5 | byte(n))
		case n < 256 && mode < 10:
			b.WriteByte(major<<5 | 24)
			b.WriteByte(byte(n))
		case n < 65536 && mode < 11:
			b.WriteByte(major<<5 | 25)
			b.Write([]byte{byte(n >> 8), byte(n)})
		case n < 1<<32 && mode < 11:
			b.WriteByte(major<<5 | 26)
			b.Write([]byte{byte(n >> 24), byte(n >> 16), byte(n >> 8), byte(n)})
		default:
			b.WriteByte(major<<5 | 27)
			var x [8]byte
			binary.BigEndian.PutUint64(x[:], n)
			b.Write(x[:])
		}
	}
	num := func() uint64 {
		switch r.Intn(6) {
		case 0:
			return uint64(r.Intn(24))
		case 1:
			return uint64(r.Intn(300))
		case 2:
			return []uint64{255, 256, 65535, 65536, 1<<32 - 1, 1 << 32, 1<<63 - 1, 1 << 63, math.MaxUint64}[r.Intn(9)]
		default:
			return r.Next() >> uint(r.Intn(64))
		}
	}
	str := func() []byte {
		n := []int{0, 1, 3, 10, 23, 24, 30, 255, 256, 300}[r.Intn(10)]
		s := make([]byte, n)
		for i := range s {
			switch r.Intn(4) {
			case 0:
				s[i] = byte(r.Intn(256))
			case 1:
				al := []byte("\"\\\n\t\x00\x7f\xc3\xa9\xe2\x82\xac\xf0\x9f\x98\x80\xed\xa0\x80")
				s[i] = al[r.Intn(len(al))]
			default:
				s[i] = byte('a' + r.Intn(26))
			}
		}
		return s
	}
	k := r.Intn(40)
	if depth <= 0 && k >= 22 && k < 30 {
		k = r.Intn(22)
	}
	switch {
	case k < 3:
		head(0, num())
	case k < 6:
		head(1, num())
	case k < 9:
		s := str()
		head(2, uint64(len(s)))
		b.Write(s)
	case k < 13:
		s := str()
		head(3, uint64(len(s)))
		b.Write(s)
	case k < 15: // floats
		if r.Bool() {
			b.WriteByte(0xfa)
			x := []uint32{0, 0x3f800000, 0x7f800000, 0xff800000, 0x7fc00000, 0x7fc00001, 1, 0x7f7fffff, 0xc2f6e979}[r.Intn(9)]
			if r.Bool() {
				x = uint32(r.Next())
			}
			b.Write([]byte{byte(x >> 24), byte(x >> 16), byte(x >> 8), byte(x)})
		} else {
			b.WriteByte(0xfb)
			x := []uint64{0, 0x3ff0000000000000, 0x7ff0000000000000, 0xfff0000000000000, 0x7ff8000000000000, 0x7ff8000000000001, 1, 0x7fefffffffffffff, 0x400921fb54442d18, 0x41d954fc40000000}[r.Intn(10)]
			if r.Bool() {
				x = r.Next()
			}
			var y [8]byte
			binary.BigEndian.PutUint64(y[:], x)
			b.Write(y[:])
		}
	case k < 17: // simple values
		b.WriteByte([]byte{0xf4, 0xf5, 0xf6, 0xf7, 0xe0, 0xf3, 0xf8, 0xf9, 0xfc, 0xfd, 0xfe, 0xff}[r.Intn(12)])
		if r.Chance(30) {
			b.WriteByte(byte(r.Intn(256)))
		}
	case k < 19: // timestamps
		b.WriteByte(0xc1)
		switch r.Intn(4) {
		case 0:
			head(0, []uint64{0, 23, 24, 1700000000, 253402300799, 253402300800, 1 << 40, 1<<63 - 1, 1 << 63, math.MaxUint64}[r.Intn(10)])
		case 1:
			head(1, []uint64{0, 23, 62135596800, 62135596801, 1 << 40, 1<<63 - 1, 1 << 63, math.MaxUint64}[r.Intn(8)])
		case 2:
			b.WriteByte(0xfb)
			x := []float64{0, 1.5, 1700000000.123456, -1.5, 1e18, -1e18, 1e19, 1e300, math.Inf(1), math.NaN(), 253402300799.9999999, 0.9999999999}[r.Intn(12)]
			var y [8]byte
			binary.BigEndian.PutUint64(y[:], math.Float64bits(x))
			b.Write(y[:])
		default:
			genItem(r, depth-1, b)
		}
	case k < 22: // known tags
		switch r.Intn(6) {
		case 0:
			b.Write([]byte{0xd9, 0x01, 0x04})
			s := make([]byte, []int{4, 16, 6, 0, 5, 16}[r.Intn(6)])
			for i := range s {
				if r.Chance(60) {
					s[i] = byte(r.Intn(256))
				}
			}
			if len(s) == 16 && r.Bool() {
				copy(s, []byte{0, 0, 0, 0, 0, 0, 0, 0, 0, 0, 0xff, 0xff})
			}
			head(2, uint64(len(s)))
			b.Write(s)
		case 1:
			b.Write([]byte{0xd9, 0x01, 0x05})
			if r.Chance(85) {
				b.WriteByte(0xa1)
			} else {
				b.WriteByte(byte(r.Intn(256)))
			}
			s := make([]byte, []int{4, 16, 4, 16, 0, 7}[r.Intn(6)])
			for i := range s {
				s[i] = byte(r.Intn(256))
			}
			if len(s) == 16 && r.Bool() {
				copy(s, []byte{0, 0, 0, 0, 0, 0, 0, 0, 0, 0, 0xff, 0xff})
			}
			head(2, uint64(len(s)))
			b.Write(s)
			if r.Chance(85) {
				head(byte(r.Intn(2)), []uint64{0, 8, 24, 32, 33, 64, 96, 97, 120, 128, 129, 255, 1 << 40, math.MaxUint64}[r.Intn(14)])
			} else {
				genItem(r, 0, b)
			}
		case 2:
			b.Write([]byte{0xd9, 0x01, 0x06})
			s := str()
			head(2, uint64(len(s)))
			b.Write(s)
		case 3:
			b.Write([]byte{0xd9, 0x01, 0x07})
			s := str()
			head(2, uint64(len(s)))
			b.Write(s)
		case 4:
			b.Write([]byte{0xd8, 0x3f})
			s := str()
			head(2, uint64(len(s)))
			b.Write(s)
		default:
			head(6, []uint64{0, 2, 24, 63, 64, 259, 260, 264, 65536, 1 << 40}[r.Intn(10)])
			genItem(r, depth-1, b)
		}
	case k < 26: // arrays
		n := r.Intn(5)
		if r.Bool() {
			b.WriteByte(0x9f)
			for i := 0; i < n; i++ {
				genItem(r, depth-1, b)
			}
			if r.Chance(92) {
				b.WriteByte(0xff)
			}
		} else {
			cnt := uint64(n)
			if r.Chance(8) {
				cnt = num()
			}
			head(4, cnt)
			for i := 0; i < n; i++ {
				genItem(r, depth-1, b)
			}
		}
	case k < 30: // maps
		n := r.Intn(4)
		if r.Chance(70) {
			b.WriteByte(0xbf)
			for i := 0; i < n; i++ {
				s := str()
				head(3, uint64(len(s)))
				b.Write(s)
				if r.Chance(95) {
					genItem(r, depth-1, b)
				}
			}
			if r.Chance(92) {
				b.WriteByte(0xff)
			}
		} else {
			cnt := uint64(n)
			if r.Chance(10) {
				cnt = num()
			}
			head(5, cnt)
			for i := 0; i < int(cnt%8)*[]int{1, 2}[r.Intn(2)] && i < 12; i++ {
				genItem(r, depth-1, b)
			}
		}
	case k < 33: // indefinite strings, reserved additional information, hostile lengths
		switch r.Intn(6) {
		case 0:
			b.WriteByte([]byte{0x5f, 0x7f}[r.Intn(2)])
			b.WriteByte(0x41)
			b.WriteByte('x')
			b.WriteByte(0xff)
		case 1:
			b.WriteByte(byte(r.Intn(8))<<5 | byte(28+r.Intn(3)))
		case 2:
			b.WriteByte(byte(2+r.Intn(2))<<5 | 27)
			var y [8]byte
			binary.BigEndian.PutUint64(y[:], []uint64{1 << 63, math.MaxUint64, 1<<63 - 1, 1 << 62, 1 << 40, 1 << 32}[r.Intn(6)])
			b.Write(y[:])
		case 3:
			b.WriteByte(byte(2+r.Intn(2))<<5 | 26)
			b.Write([]byte{0x7f, 0xff, 0xff, 0xff})
		case 4:
			b.Write([]byte{0xd8, 0x3f, 0x5b, 0x7f, 0xff, 0xff, 0xff, 0xff, 0xff, 0xff, 0xff})
		default:
			b.WriteByte(byte(4+r.Intn(2))<<5 | 27)
			var y [8]byte
			binary.BigEndian.PutUint64(y[:], []uint64{1 << 63, math.MaxUint64, 1<<63 - 1, 1 << 40}[r.Intn(4)])
			b.Write(y[:])
		}
	default:
		b.WriteByte(byte(r.Intn(256)))
	}
}

func genStream(r *Rng) []byte {
	var b bytes.Buffer
	n := 1 + r.Intn(4)
	for i := 0; i < n; i++ {
		genItem(r, 3, &b)
	}
	return b.Bytes()
}

type capture struct{ bufs [][]byte }

func (w *capture) Write(p []byte) (int, error) {
	w.bufs = append(w.bufs, append([]byte{}, p...))
	return len(p), nil
}

type strer struct{ s string }

func (s strer) String() string { return s.s }

// a valid binary log stream from the real encoder: the events, one []byte each
func genValidEvents(r *Rng, nev int, big bool) [][]byte {
	w := &capture{}
	l := zerolog.New(w)
	if r.Chance(50) {
		l = l.With().Str("svc", "api").Int("pid", r.Intn(70000)).Logger()
	}
	strs := []string{"", "a", "hello world", "quote\"back\\slash", "ctl\n\t\x01", "é€😀", "bad\xffutf8", strings.Repeat("x", 23), strings.Repeat("y", 24), strings.Repeat("z", 300)}
	for i := 0; i < nev; i++ {
		e := l.WithLevel([]zerolog.Level{zerolog.DebugLevel, zerolog.InfoLevel, zerolog.WarnLevel, zerolog.ErrorLevel}[r.Intn(4)])
		nf := r.Intn(8)
		if big {
			nf = 20 + r.Intn(60)
		}
		for j := 0; j < nf; j++ {
			k := fmt.Sprintf("k%d", j)
			switch r.Intn(24) {
			case 0:
				e = e.Str(k, strs[r.Intn(len(strs))])
			case 1:
				e = e.Int64(k, int64(r.Next())>>uint(r.Intn(64)))
			case 2:
				e = e.Uint64(k, r.Next()>>uint(r.Intn(64)))
			case 3:
				e = e.Float64(k, []float64{0, 1.5, -2.25, 1e21, 1e-7, math.Pi, math.NaN(), math.Inf(-1), math.MaxFloat64, 5e-324}[r.Intn(10)])
			case 4:
				e = e.Float32(k, []float32{0, 1.5, 3.4e38, 1e-45, float32(math.Inf(1))}[r.Intn(5)])
			case 5:
				e = e.Bool(k, r.Bool())
			case 6:
				e = e.Time(k, time.Unix(int64(r.Intn(2000000000))-100000000, int64(r.Intn(2))*int64(r.Intn(1000000000))))
			case 7:
				e = e.Dur(k, time.Duration(r.Next()>>uint(20+r.Intn(40))))
			case 8:
				e = e.Bytes(k, []byte(strs[r.Intn(len(strs))]))
			case 9:
				e = e.Hex(k, []byte(strs[r.Intn(len(strs))]))
			case 10:
				e = e.IPAddr(k, [][]byte{{10, 0, 0, 1}, net.ParseIP("2001:db8::1"), net.ParseIP("::ffff:1.2.3.4"), net.ParseIP("::"), net.ParseIP("1:0:0:2:0:0:0:3")}[r.Intn(5)])
			case 11:
				e = e.IPPrefix(k, net.IPNet{IP: []byte{192, 168, 0, 0}, Mask: net.CIDRMask(r.Intn(33), 32)})
			case 12:
				e = e.MACAddr(k, net.HardwareAddr{0, 1, 2, 0xab, 0xcd, 0xef})
			case 13:
				e = e.RawJSON(k, []byte(`{"x":[1,2,{"y":null}]}`))
			case 14:
				e = e.RawCBOR(k, []byte{0x83, 1, 2, 3})
			case 15:
				e = e.Strs(k, strs[:r.Intn(5)])
			case 16:
				e = e.Ints(k, []int{1, -1, 1000, -70000}[:r.Intn(5)])
			case 17:
				e = e.Dict(k, zerolog.Dict().Str("in", "ner").Int("n", j).Dict("d2", zerolog.Dict().Bool("b", true)))
			case 18:
				e = e.Array(k, zerolog.Arr().Str("s").Int(j).Bool(false).Dict(zerolog.Dict().Float64("f", 0.5)).Time(time.Unix(1700000000, 0)))
			case 19:
				e = e.Err(errors.New(strs[r.Intn(len(strs))]))
			case 20:
				e = e.Interface(k, map[string]interface{}{"a": 1, "b": []int{1, 2}})
			case 21:
				e = e.Stringer(k, nil)
			case 22:
				e = e.IPPrefix(k, net.IPNet{IP: net.ParseIP("2001:db8::"), Mask: net.CIDRMask(r.Intn(129), 128)})
			default:
				e = e.Floats64(k, []float64{1, 2.5, -3}[:r.Intn(4)])
			}
		}
		e.Msg(strs[r.Intn(len(strs))])
	}
	return w.bufs
}

func mutate(r *Rng, in []byte) []byte {
	b := append([]byte{}, in...)
	n := 1 + r.Intn(3)
	for i := 0; i < n && len(b) > 0; i++ {
		p := r.Intn(len(b))
		switch r.Intn(8) {
		case 0, 1, 2:
			b[p] = byte(r.Intn(256))
		case 3:
			b[p] ^= 1 << uint(r.Intn(8))
		case 4:
			b = append(b[:p], b[p+1:]...)
		case 5:
			b = append(b[:p], append([]byte{byte(r.Intn(256))}, b[p:]...)...)
		case 6:
			b[p] = []byte{0x5a, 0x5b, 0x7a, 0x7b, 0x9b, 0xbb, 0xff, 0x9f, 0xbf, 0xc1, 0xd8, 0xd9, 0xfa, 0xfb, 0x1b, 0x3b}[r.Intn(16)]
		default:
			b = b[:p]
		}
	}
	return b
}

// ---------------------------------------------------------------- the run
func runC17(c *Ctx) {
	c.Res.Rule = "inputs: corpus of fixed defects; a directed grid of hostile lengths and counts (2^31-1 .. 2^64-1) at every position a length is read (top level, after every known tag, in arrays and maps); every 1- and 2-byte input (exhaustive, digests) and all 256 continuations of sampled (quick) / all (thorough) 2-byte prefixes; structure-aware random streams (well-formed items of every major type with defects mixed in: reserved additional information, indefinite strings, hostile 2^31..2^64 lengths and counts, odd maps, missing breaks, unknown tags, out-of-range prefix lengths, extreme timestamps); valid streams written by the real encoder under binary_log, byte-mutated (1-3 edits) incl. streams up to 64 KiB; every cut point of valid streams; nesting 65536 deep; all three entry points. non-trivial = anything but an immediate end-of-input error without output; distinct by input bytes"
	r := &runner{c: c, w: &worker{Timeout: 20 * time.Second}, classes: map[int]int{}}
	defer r.w.stop()
	hdr := "From Verif Require Import Base.Prelude Enc.CborEnc Enc.CborDec Harness.C17H.\nOpen Scope N_scope."
	c.OpenShards(hdr, "(tables * (entry * list N)) * (list N * final)", "mismatches c17_run c17_eqb", 400)
	rr := c.R.Fork()

	// ---- corpus first: inputs of the fixed defect ff99b7e (and encoder fixes e480b62, cb46159 seen through the decoder)
	enc := zerolog.VerifC17EncIsCBOR()
	corpus := [][]byte{
		{0x5b, 0xff, 0xff, 0xff, 0xff, 0xff, 0xff, 0xff, 0xff},
		{0x5a, 0x7f, 0xff, 0xff, 0xff},
		{0xd8, 0x3f, 0x5b, 0x7f, 0xff, 0xff, 0xff, 0xff, 0xff, 0xff, 0xff},
		{0x5b, 0x7f, 0xff, 0xff, 0xff, 0xff, 0xff, 0xff, 0xff},
		{0x7b, 0xff, 0xff, 0xff, 0xff, 0xff, 0xff, 0xff, 0xff},
		{0xd9, 0x01, 0x06, 0x5b, 0x80, 0, 0, 0, 0, 0, 0, 0},
		{0x1b, 0x80, 0, 0, 0, 0, 0, 0, 0},                      // Uint(1<<63)
		{0x1b, 0xff, 0xff, 0xff, 0xff, 0xff, 0xff, 0xff, 0xff}, // Uint64(MaxUint64)
		{0x3b, 0xff, 0xff, 0xff, 0xff, 0xff, 0xff, 0xff, 0xff}, // -2^64
		{0x3b, 0x7f, 0xff, 0xff, 0xff, 0xff, 0xff, 0xff, 0xff}, // MinInt64
		append([]byte{0x48}, []byte("a\"b\\c\n\xff")...),       // Bytes("a\"b\\c\n\xff")
		{0xbf, 0x61, 0x6b, 0x48, 'a', '"', 'b', '\\', 'c', '\n', 0xff, 0x00, 0xff},
		{0x9b, 0xff, 0xff, 0xff, 0xff, 0xff, 0xff, 0xff, 0xff},    // array with count -1
		{0xbb, 0xff, 0xff, 0xff, 0xff, 0xff, 0xff, 0xff, 0xff},    // map with count -1
		{0x9b, 0x7f, 0xff, 0xff, 0xff, 0xff, 0xff, 0xff, 0xff, 1}, // array with count 2^63-1
		{0xa1, 0x61, 0x61, 0x01},                                  // definite map: one item per count
		{0xd9, 0x01, 0x05, 0xa1, 0x44, 10, 0, 0, 0, 0x18, 0x21},   // prefix length 33 on IPv4
		{0xd9, 0x01, 0x05, 0xa1, 0x44, 10, 0, 0, 0, 0x20},         // prefix length -1
		{0xd9, 0x01, 0x05, 0xa1, 0x45, 10, 0, 0, 0, 0, 0x08},      // 5-byte address
		{0xd9, 0x01, 0x05, 0xa1, 0x50, 0, 0, 0, 0, 0, 0, 0, 0, 0, 0, 0xff, 0xff, 1, 2, 3, 4, 0x18, 0x78},
		{0xc1, 0x1b, 0x7f, 0xff, 0xff, 0xff, 0xff, 0xff, 0xff, 0xff},
		{0xc1, 0x3b, 0x7f, 0xff, 0xff, 0xff, 0xff, 0xff, 0xff, 0xff},
		{0xc1, 0x1b, 0xff, 0xff, 0xff, 0xff, 0xff, 0xff, 0xff, 0xff},
		{0xc1, 0xfb, 0x7f, 0xf8, 0, 0, 0, 0, 0, 0}, // NaN timestamp
		{0xc1, 0xfb, 0x7f, 0xf0, 0, 0, 0, 0, 0, 0}, // +Inf timestamp
		{0xc1, 0xfb, 0x7f, 0xef, 0xff, 0xff, 0xff, 0xff, 0xff, 0xff},
		{0xc1, 0xfb, 0xff, 0xef, 0xff, 0xff, 0xff, 0xff, 0xff, 0xff},
		{0xc1, 0xfa, 0x7f, 0xc0, 0, 0},
		{0xc1, 0xf9, 0, 0},
		{0xfb, 0x7f, 0xef, 0xff, 0xff, 0xff, 0xff, 0xff, 0xff}, // MaxFloat64: 309 digits
		{0xfb, 0, 0, 0, 0, 0, 0, 0, 1},                         // 5e-324
		{0xfa, 0, 0, 0, 1},
		{0xf9, 0x3c, 0x00},
		{0xf9, 0x80, 0x00}, {0xf9, 0x00, 0x00}, {0xf9, 0x00, 0x01}, {0xf9, 0x7c, 0x00}, {0xf9, 0xfe, 0x00}, // half floats
		{0xbf, 0x61, 0x6b, 0xf9, 0x80, 0x00, 0xff}, {0xc1, 0xf9, 0x80, 0x00}, {0x81, 0xf9, 0x80, 0x00},
		{0xbf, 0x61, 0x61, 0xff}, // break after a key
		{0x9f, 0x01, 0x02},       // missing break
		{0xff},
		{},
		{0x7f},
	}
	for _, in := range corpus {
		r.one(in, "corpus", true)
	}
	// ---- directed grid: every position a length or count is read at (top level, after each
	// tag the decoder knows and one it does not, as array element, map key and map value) x
	// every length-carrying head (byte string, text string, array, map; 4- and 8-byte
	// argument) x hostile values around 2^31, 2^32, 2^63 and 2^64
	{
		contexts := [][]byte{{}, {0xd8, 0x3f}, {0xd9, 0x01, 0x04}, {0xd9, 0x01, 0x05}, {0xd9, 0x01, 0x05, 0xa1}, {0xd9, 0x01, 0x06}, {0xd9, 0x01, 0x07},
			{0xc0}, {0xc1}, {0xd8, 0x40}, {0x81}, {0x9f}, {0xbf}, {0xbf, 0x61, 0x6b}, {0xa1}, {0xa1, 0x61, 0x6b}}
		vals := []uint64{1<<31 - 1, 1 << 31, 1<<32 - 1, 1 << 32, 1 << 40, 1<<62 + 5, 1<<63 - 1, 1 << 63, 1<<63 + 1, math.MaxUint64 - 1, math.MaxUint64}
		grid := 0
		for _, cx := range contexts {
			for major := byte(2); major <= 5; major++ {
				for _, v := range vals {
					in := append([]byte{}, cx...)
					if v < 1<<32 {
						in = append(in, major<<5|26, byte(v>>24), byte(v>>16), byte(v>>8), byte(v))
						r.one(append(in, 'x', 'y'), "length-grid", grid%7 == 0)
						grid++
						in = append([]byte{}, cx...)
					}
					var y [8]byte
					binary.BigEndian.PutUint64(y[:], v)
					in = append(append(in, major<<5|27), y[:]...)
					r.one(append(in, 'x', 'y'), "length-grid", grid%7 == 0)
					grid++
				}
			}
		}
		c.Res.ExtraCoverage["length_grid_inputs"] = grid
	}

	// ---- exhaustive short inputs (digests)
	c.OpenShards(hdr, "(tables * list N) * list N", "mismatches c17_run_exh c17_eqb_exh", 8)
	{
		tb := newTables()
		ds := r.exh(nil, tb)
		c.AddCase(fmt.Sprintf("((%s, (@nil N)), %s)", tb.coq(), cns(ds)), map[string]interface{}{"exhaustive_prefix": ""})
		for b0 := 0; b0 < 256; b0++ {
			tb := newTables()
			ds := r.exh([]byte{byte(b0)}, tb)
			c.AddCase(fmt.Sprintf("((%s, %s), %s)", tb.coq(), cbs([]byte{byte(b0)}), cns(ds)), map[string]interface{}{"exhaustive_prefix": fmt.Sprintf("%02x", b0)})
		}
		c.Res.ExtraCoverage["exhaustive_1_2_byte_inputs"] = 256 + 65536
	}
	// 3-byte inputs: all continuations of 2-byte prefixes
	{
		var prefixes [][]byte
		if c.Thorough() {
			for a := 0; a < 256; a++ {
				for b := 0; b < 256; b++ {
					prefixes = append(prefixes, []byte{byte(a), byte(b)})
				}
			}
			c.Res.Exhaustive = true
		} else {
			firsts := []byte{0x18, 0x19, 0x38, 0x41, 0x42, 0x58, 0x59, 0x61, 0x62, 0x78, 0x81, 0x82, 0x98, 0x9f, 0xa1, 0xa2, 0xb8, 0xbf, 0xc1, 0xd8, 0xd9, 0xf8, 0xf9, 0xfa}
			for _, a := range firsts {
				for j := 0; j < 6; j++ {
					prefixes = append(prefixes, []byte{a, byte(rr.Intn(256))})
				}
			}
			prefixes = append(prefixes, []byte{0xd8, 0x3f}, []byte{0xd9, 0x01}, []byte{0xc1, 0x18}, []byte{0xc1, 0x38}, []byte{0x9f, 0xff}, []byte{0xbf, 0x60})
			// half-precision floats (the decoder rejects them today): zeros, subnormals, one, infinities, NaNs of both signs
			for _, b := range []byte{0x00, 0x80, 0x01, 0x03, 0x83, 0x3c, 0xbc, 0x7b, 0x7c, 0xfc, 0x7e, 0xfe} {
				prefixes = append(prefixes, []byte{0xf9, b})
			}
		}
		for _, p := range prefixes {
			tb := newTables()
			ds := r.exh(p, tb)
			c.AddCase(fmt.Sprintf("((%s, %s), %s)", tb.coq(), cbs(p), cns(ds)), map[string]interface{}{"exhaustive_prefix": fmt.Sprintf("%x", p)})
		}
		c.Res.ExtraCoverage["exhaustive_3_byte_prefixes"] = len(prefixes)
	}

	c.OpenShards(hdr, "(tables * (entry * list N)) * (list N * final)", "mismatches c17_run c17_eqb", 300)
	// ---- structure-aware random streams
	nrand := 2500
	if c.Thorough() {
		nrand = 60000
	}
	for i := 0; i < nrand; i++ {
		g := c.R.Fork()
		r.one(genStream(g), "structured", i%10 == 0)
	}

	// ---- valid streams from the real encoder: whole, mutated, every cut point
	if !enc {
		c.Note("package zerolog was built without -tags binary_log: valid streams, mutations and cut points were skipped")
	} else {
		nvalid, nmut, ncut := 120, 1500, 12
		if c.Thorough() {
			nvalid, nmut, ncut = 1500, 40000, 300
		}
		var streams [][][]byte
		for i := 0; i < nvalid; i++ {
			g := c.R.Fork()
			evs := genValidEvents(g, 1+g.Intn(4), false)
			streams = append(streams, evs)
			in := bytes.Join(evs, nil)
			o := r.one(in, "valid", i%4 == 0)
			// a valid stream decodes without error into one line per event; an independent parser agrees on the framing
			items, perr := cborref.ParseStream(in)
			if perr != nil || len(items) != len(evs) {
				c.Violate(Violation{Key: "encoder-stream-malformed", Monitor: "rfc8949-reference-parser", Desc: "the stream written by the encoder is not a sequence of well-formed items", Case: map[string]interface{}{"input_hex": hexs(in)}})
			}
			if o.Cls != clsOk || bytes.Count(o.Out, []byte("\n")) < len(evs) {
				c.Violate(Violation{Key: "valid-stream-rejected", Monitor: "valid-stream-decodes", Desc: "a stream written by the binary encoder does not decode cleanly: " + o.Msg, Case: map[string]interface{}{"input_hex": hexs(in)}, Observed: string(truncB(o.Out, 300))})
			}
		}
		// directed: valid events whose payloads are around and beyond the buffer sizes of readers and pools
		// (4 KiB bufio.Reader, 64 KiB pooled buffers), followed by an ordinary event
		for li, n := range []int{4095, 4096, 4097, 5000, 9000, 40000, 70000} {
			w := &capture{}
			l := zerolog.New(w)
			pay := strings.Repeat("payload-", n/8+1)[:n]
			switch li % 3 {
			case 0:
				l.Info().Str("s", pay).Int("after", 1).Msg("long")
			case 1:
				l.Info().Bytes("b", []byte(pay)).Msg(pay[:n/2])
			default:
				l.Info().Dict("d", zerolog.Dict().Str("s", pay)).Strs("ss", []string{pay, "x"}).Msg("long")
			}
			l.Warn().Str("k", "v").Msg("next")
			in := bytes.Join(w.bufs, nil)
			o := r.one(in, "valid-long-payload", n <= 9000)
			if o.Cls != clsOk || bytes.Count(o.Out, []byte("\n")) != 2 || !bytes.Contains(o.Out, []byte(`"message":"next"`)) {
				c.Violate(Violation{Key: "valid-stream-rejected", Monitor: "valid-stream-decodes", Desc: fmt.Sprintf("a stream written by the binary encoder (one field of %d bytes, then an ordinary event) does not decode cleanly into two lines: %s", n, o.Msg), Case: map[string]interface{}{"payload_bytes": n, "input_len": len(in)}, Observed: string(truncB(o.Out, 200))})
			}
		}
		// directed: every alignment of multi-byte item arguments (2-, 4- and 8-byte integers, a 2-byte string length, tags
		// 260 and 1, a float64) against the 4096-byte refill boundary of the decoder's bufio.Reader: one padding string of every
		// length 3880..4320 in front of them, then an ordinary event (seeded change C17-5: a short Read at a refill)
		for n := 3880; n <= 4320; n++ {
			w := &capture{}
			l := zerolog.New(w)
			pad := strings.Repeat("p", n)
			l.Info().Str("p", pad).Int("a", 400).Int("b", 70000).Int64("c", 5000000000).Int("d", -400).Str("s", strings.Repeat("x", 300)).
				IPAddr("ip", net.IPv4(10, 1, 2, 3)).Float64("f", 1.5).Time("t", time.Unix(1700000000, 0).UTC()).Uint64("u", 1<<40).Msg("aligned")
			l.Warn().Str("k", "v").Msg("next")
			in := bytes.Join(w.bufs, nil)
			o := r.one(in, "valid-aligned", n%64 == 0)
			lines := bytes.Split(bytes.TrimSuffix(o.Out, []byte("\n")), []byte("\n"))
			bad := o.Cls != clsOk || len(lines) != 2 || !bytes.Contains(o.Out, []byte(`"message":"next"`))
			if !bad {
				for _, ln := range lines {
					if !json.Valid(ln) {
						bad = true
					}
				}
			}
			if bad {
				c.Violate(Violation{Key: "valid-stream-rejected", Monitor: "valid-stream-decodes", Desc: fmt.Sprintf("a stream written by the binary encoder (a %d-byte string, then integers/strings/tags whose multi-byte arguments lie around stream offset 4096, then an ordinary event) does not decode cleanly into two JSON lines: %s", n, o.Msg), Case: map[string]interface{}{"padding_bytes": n, "stream_len": len(in)}, Observed: string(truncB(o.Out[minInt(len(o.Out), n):], 400))})
				break
			}
		}
		for i := 0; i < nmut; i++ {
			g := c.R.Fork()
			evs := streams[g.Intn(len(streams))]
			r.one(mutate(g, bytes.Join(evs, nil)), "mutated", i%25 == 0)
		}
		// large streams up to 64 KiB and their mutations (monitors on all; a few as model cases)
		nbig := 4
		if c.Thorough() {
			nbig = 40
		}
		for i := 0; i < nbig; i++ {
			g := c.R.Fork()
			var in []byte
			for len(in) < 50000 {
				for _, e := range genValidEvents(g, 2, true) {
					if len(in)+len(e) <= 65536 {
						in = append(in, e...)
					}
				}
			}
			for j := 0; j < 40; j++ {
				m := mutate(g, in)
				tb := newTables()
				tb.scan(m)
				o := r.w.decode(entMany, m)
				r.monitor(entMany, m, o, "mutated-64k")
				c.Count(string(m), true)
				c.Hist("origin", "mutated-64k")
				c.Hist("input_len", lenBucket(len(m)))
				if j == 0 && i < 3 {
					r.addCase(tb, entMany, m, o)
				}
			}
		}
		// prefix stability against the decoder's refill boundaries (align.go)
		r.alignSweep()
		// every cut point
		cuts := 0
		for i := 0; i < ncut && i < len(streams); i++ {
			evs := streams[i]
			in := bytes.Join(evs, nil)
			full := r.w.decode(entMany, in)
			if full.Cls != clsOk {
				continue
			}
			lines := bytes.SplitAfter(full.Out, []byte("\n"))
			bounds := []int{0}
			for _, e := range evs {
				bounds = append(bounds, bounds[len(bounds)-1]+len(e))
			}
			for k := 0; k <= len(in); k++ {
				cuts++
				whole := sort.SearchInts(bounds, k+1) - 1 // number of events wholly inside in[:k]
				atBoundary := bounds[whole] == k
				var o obs
				if len(in) <= 700 {
					o = r.one(in[:k], "cut", false)
				} else {
					o = r.w.decode(entMany, in[:k])
					r.monitor(entMany, in[:k], o, "cut")
					c.Count(string(in[:k]), true)
				}
				want := bytes.Join(lines[:whole], nil)
				cs := map[string]interface{}{"stream_hex": hexs(in), "cut": k, "events": len(evs), "whole_events": whole}
				if !bytes.HasPrefix(o.Out, want) {
					c.Violate(Violation{Key: "decoder-prefix-unstable", Monitor: "prefix-stability", Desc: "a prefix of a valid stream does not decode the wholly contained events as in the full stream", Case: cs, Observed: string(truncB(o.Out, 300)), Expected: string(truncB(want, 300))})
				}
				if atBoundary && (o.Cls != clsOk || !bytes.Equal(o.Out, want)) {
					c.Violate(Violation{Key: "decoder-prefix-boundary-error", Monitor: "prefix-stability", Desc: "a cut at an event boundary reports an error or extra output", Case: cs, Observed: o.Msg})
				}
				if !atBoundary && o.Cls == clsOk {
					c.Violate(Violation{Key: "decoder-torn-tail-not-reported", Monitor: "prefix-stability", Desc: "a cut inside an event is not reported as an error", Case: cs, Observed: string(truncB(o.Out, 300))})
				}
			}
		}
		c.Res.ExtraCoverage["cut_points"] = cuts
	}

	// ---- deep nesting
	{
		deep := bytes.Repeat([]byte{0x9f}, 65536)
		o := r.w.decode(entMany, deep)
		r.monitor(entMany, deep, o, "deep-nesting")
		c.Count("deep65536", true)
		if !bytes.Equal(o.Out, bytes.Repeat([]byte{'['}, 65536)) || o.Cls != 3 {
			c.Note("deep nesting 65536: class %d, output length %d", o.Cls, len(o.Out))
		}
		// the model is evaluated on a 3000-deep instance (its continuation stack makes deep nesting quadratic under vm_compute)
		d3 := bytes.Repeat([]byte{0x9f}, 3000)
		o3 := r.w.decode(entMany, d3)
		r.monitor(entMany, d3, o3, "deep-nesting")
		if bytes.Equal(o3.Out, bytes.Repeat([]byte{'['}, 3000)) {
			c.AddCase(fmt.Sprintf("((%s, (EMany, repN 3000 159)), (repN 3000 91, %s))", newTables().coq(), finalTerm(o3.Cls)), map[string]interface{}{"input": "9f x 3000", "class": o3.Cls})
		} else {
			r.addCase(newTables(), entMany, d3, o3)
		}
		deepm := bytes.Repeat([]byte{0xbf, 0x61, 0x61}, 21845)
		o = r.w.decode(entMany, deepm)
		r.monitor(entMany, deepm, o, "deep-nesting")
		c.Count("deepmap", true)
		// beyond the property's 64 KiB: how deep before the Go stack limit (recorded, not a violation)
		for _, n := range []int{1 << 20, 4 << 20, 16 << 20} {
			if !c.Thorough() && n > 4<<20 {
				break
			}
			big := bytes.Repeat([]byte{0x9f}, n)
			t0 := time.Now()
			o := r.w.decode(entMany, big)
			c.Res.ExtraCoverage[fmt.Sprintf("nesting_%dMiB_class", n>>20)] = fmt.Sprintf("class=%d alloc=%d dt=%s %s", o.Cls, o.Alloc, time.Since(t0).Round(time.Millisecond), strings.SplitN(o.Msg, "\n", 2)[0])
		}
	}

	// oracle hypotheses of the allocation theorem: lengths of the Go library's answers
	for k, bound := range map[string]int{"f32": 64, "f64": 400, "ts": 64} {
		if oracleMaxLen[k] > bound {
			c.Violate(Violation{Key: "oracle-text-too-long", Monitor: "oracle-hypothesis", Desc: fmt.Sprintf("a %s text of the Go library has %d bytes, the allocation theorem assumes <= %d", k, oracleMaxLen[k], bound), Case: k})
		}
	}
	c.Res.ExtraCoverage["oracle_max_text_len"] = oracleMaxLen
	c.Res.ExtraCoverage["max_alloc_per_input_byte(+1KiB)"] = fmt.Sprintf("%.1f", r.maxRatio)
	c.Res.ExtraCoverage["worker_deaths"] = r.w.Deaths
	cl := map[string]int{}
	for k, v := range r.classes {
		cl[fmt.Sprint(k)] = v
	}
	c.Res.ExtraCoverage["outcome_classes"] = cl
	c.Res.ExtraCoverage["DecodeObjectToStr_error_panics"] = r.classes[1000]
	if r.classes[1000] > 0 {
		c.Note("DecodeObjectToStr (no recover, no error result) panicked with a plain error value on %d malformed inputs; not a runtime error, recorded only", r.classes[1000])
	}
}
