package main

// C17, directed: prefix stability against where the decoder's reads fall.
//
// The decoder reads through a bufio.Reader (4096 bytes) that it refills whenever it runs empty.  "For any
// prefix of a valid binary log stream, every event wholly contained in the prefix is decoded exactly as in
// the full stream": what an event decodes to must not depend on what FOLLOWS it in the stream.  A handler
// that keeps bytes of the reader's buffer across a further read decodes every ordinary event correctly and
// goes wrong only for the item whose bytes end (or are split) exactly at a refill boundary, with enough
// stream behind it to overwrite the buffer - and decodes it correctly again when the stream is cut right
// after the event.
//
// Sweep: a block of every tagged / multi-byte item kind (tags 260 / 261 / 262 / 263, MAC addresses, hex,
// timestamps integer and float, long and escaped strings, byte strings, 8-byte integers, floats, nested
// Array / Dict with tagged items in them, typed slices) behind a padding string of EVERY length of a window
// that moves each byte of the block across stream offsets B-1, B, B+1 for B = 4096 and 8192; the padding in
// the same event or in an event of its own; followed by 0 / ~100 / ~5000 bytes of further events.
// Monitor: for every event boundary b at or after the block, decode(stream[:b]) is byte-for-byte the first
// lines of decode(stream) (one line per event), without an error.

import (
	"bytes"
	"fmt"
	"math"
	"net"
	"strings"
	"time"

	"github.com/rs/zerolog"
	. "verifharness/hlib"
)

var (
	c17alT  = time.Unix(1700000000, 123456000).UTC()
	c17alT0 = time.Unix(1700000000, 0).UTC()
)

func c17AlignValues(e *zerolog.Event) *zerolog.Event {
	return e.
		IPPrefix("p4", net.IPNet{IP: net.IP{10, 20, 30, 40}, Mask: net.CIDRMask(24, 32)}).
		IPPrefix("p4s", net.IPNet{IP: net.IP{192, 168, 0, 0}, Mask: net.CIDRMask(16, 32)}).
		IPPrefix("p4h", net.IPNet{IP: net.IP{203, 0, 113, 7}, Mask: net.CIDRMask(32, 32)}).
		IPPrefix("p6", net.IPNet{IP: net.ParseIP("2001:db8:85a3::"), Mask: net.CIDRMask(48, 128)}).
		IPPrefix("p6l", net.IPNet{IP: net.ParseIP("2001:db8::1"), Mask: net.CIDRMask(128, 128)}).
		IPAddr("i4", net.IP{203, 0, 113, 9}).
		IPAddr("i6", net.ParseIP("2001:db8::ff00:42:8329")).
		MACAddr("m", net.HardwareAddr{0xde, 0xad, 0xbe, 0xef, 0x00, 0x01}).
		Hex("h", []byte("\x00\x01\x7f\x80\xfe\xff0123456789abcd")).
		RawJSON("j", []byte(`{"k":[1e5,-0.5,"é"]}`)).
		RawCBOR("c", []byte{0x83, 1, 2, 3}).
		Bytes("b", []byte("a\"b\\c\n\xff\x00 z")).
		Bytes("bl", bytes.Repeat([]byte{0xc3, 0x28, 'q'}, 40)).
		Str("s", "q\"uote \\ \n é € \U0001d11e x").
		Str("sl", strings.Repeat("long-string/", 25)).
		Time("t", c17alT).
		Time("t0", c17alT0).
		Dur("d", 1500*time.Millisecond).
		Float64("f", 0.1).
		Float32("g", 2.5).
		Int64("n", math.MinInt64).
		Uint64("u", math.MaxUint64).
		Int("w", 1<<40).
		Int("x", 70000).
		Int("y", -400).
		Bool("z", true).
		Array("a", zerolog.Arr().IPPrefix(net.IPNet{IP: net.IP{172, 16, 0, 0}, Mask: net.CIDRMask(12, 32)}).IPAddr(net.ParseIP("2001:db8::1")).MACAddr(net.HardwareAddr{0, 1, 2, 3, 4, 5}).Hex([]byte{0xca, 0xfe}).Str("e").
			Time(c17alT).Bytes([]byte("in\"array")).Dict(zerolog.Dict().IPPrefix("p", net.IPNet{IP: net.IP{10, 9, 8, 7}, Mask: net.CIDRMask(32, 32)}).Time("t", c17alT0))).
		Dict("o", zerolog.Dict().IPPrefix("p", net.IPNet{IP: net.ParseIP("2001:db8:85a3::"), Mask: net.CIDRMask(48, 128)}).MACAddr("m", net.HardwareAddr{0xff, 0xff, 0xff, 0xff, 0xff, 0xff}).RawJSON("j", []byte(`[1,2,"x"]`)).
			Array("aa", zerolog.Arr().IPPrefix(net.IPNet{IP: net.IP{198, 51, 100, 0}, Mask: net.CIDRMask(25, 32)}).RawJSON([]byte(`{"r":1}`)))).
		Ints64("is", []int64{1 << 62, -(1 << 62)}).
		Floats64("fs", []float64{0.1, 1e21}).
		Times("ts", []time.Time{c17alT, c17alT0}).
		Strs("ss", []string{"é", "q\"", ""})
}

type c17Align struct {
	form  string // "one-event": padding and block in one event; "two-events": the padding in an event of its own
	pad   int
	tail  int // bytes of further events, roughly
	bound int
}

// build returns the events of the stream and the index of the event that holds the block
func (a c17Align) build() (evs [][]byte, blockEv int) {
	w := &capture{}
	l := zerolog.New(w)
	pad := strings.Repeat("p", a.pad)
	if a.form == "two-events" {
		l.Info().Str("pad", pad).Send()
		c17AlignValues(l.Info()).Send()
		blockEv = 1
	} else {
		c17AlignValues(l.Info().Str("pad", pad)).Send()
	}
	switch {
	case a.tail >= 1000:
		for i := 0; i < a.tail/1000; i++ {
			l.Warn().Int("i", i).Str("tail", strings.Repeat("y", 960)).Msg("after")
		}
	case a.tail > 0:
		l.Warn().Str("tail", strings.Repeat("y", a.tail-30)).Msg("after")
	}
	return w.bufs, blockEv
}

// blockSpan: stream offsets [start, end) of the block for a padding of n bytes
func c17BlockSpan(form string, n int) (start, end int) {
	evs, be := c17Align{form: form, pad: n}.build()
	if form == "two-events" {
		return len(evs[0]), len(evs[0]) + len(evs[1])
	}
	i := bytes.Index(evs[be], []byte("\x62p4")) // the key of the first item of the block
	return i, len(evs[be])
}

func (r *runner) alignSweep() {
	c := r.c
	n, decodes := 0, 0
	stop := false
	for _, form := range []string{"one-event", "two-events"} {
		const ref = 3000
		s0, e0 := c17BlockSpan(form, ref)
		if s0 < 0 {
			c.Violate(Violation{Key: "harness-align-block-not-found", Monitor: "prefix-stability (alignment sweep)", Desc: "the first key of the block was not found in the encoder's output", Case: form})
			return
		}
		for _, bound := range []int{4096, 8192} {
			lo, hi := ref+(bound-1-e0), ref+(bound+1-s0) // the block's last byte at bound-1 .. its first byte at bound+1
			if lo < 300 {
				lo = 300 // the padding's own head keeps its size (3 bytes) down to 256
			}
			for L := lo; L <= hi && !stop; L++ {
				for ti, tail := range []int{0, 100, 5000} {
					if form == "two-events" && tail == 100 && L%2 == 0 {
						continue
					}
					a := c17Align{form: form, pad: L, tail: tail, bound: bound}
					evs, be := a.build()
					in := bytes.Join(evs, nil)
					full := r.w.decode(entMany, in)
					decodes++
					n++
					r.monitor(entMany, in, full, "aligned-prefix")
					c.Count(fmt.Sprintf("aligned-prefix %s %d %d", form, L, tail), true)
					c.Hist("origin", "aligned-prefix")
					cs := map[string]interface{}{"scenario": "alignment sweep", "form": form, "padding_bytes": L, "further_events_bytes": tail, "refill_boundary": bound,
						"block_offsets": []int{s0 + L - ref, e0 + L - ref}, "events": len(evs), "stream_len": len(in), "block": "c17AlignValues (harness/cmd/c17/align.go)"}
					lines := bytes.SplitAfter(full.Out, []byte("\n"))
					if full.Cls != clsOk || len(lines) != len(evs)+1 {
						cs["stream_hex"] = hexs(in)
						c.Violate(Violation{Key: "valid-stream-rejected", Monitor: "valid-stream-decodes", Desc: fmt.Sprintf("a stream written by the binary encoder (%d events) does not decode cleanly into one line per event: %s", len(evs), full.Msg), Case: cs, Observed: len(lines) - 1})
						stop = true
						break
					}
					// every event boundary at or after the block, except the end of the stream (that is `full`);
					// all of them for one padding in eight, otherwise the one right after the block
					off := 0
					for i, e := range evs {
						off += len(e)
						if i < be || i == len(evs)-1 || (i > be && (L+ti)%8 != 0) {
							continue
						}
						o := r.w.decode(entMany, in[:off])
						decodes++
						want := bytes.Join(lines[:i+1], nil)
						if o.Cls == clsOk && bytes.Equal(o.Out, want) {
							continue
						}
						pl := bytes.SplitAfter(o.Out, []byte("\n"))
						diffEv := -1
						for j := 0; j <= i && j < len(pl); j++ {
							if !bytes.Equal(pl[j], lines[j]) {
								diffEv = j
								break
							}
						}
						cs["prefix_len"] = off
						cs["prefix_events"] = i + 1
						cs["stream_hex"] = hexs(in)
						obsv := map[string]interface{}{"prefix_outcome": o.Msg, "first_differing_event": diffEv + 1}
						var exp interface{}
						if diffEv >= 0 {
							x, y := firstDiff(pl[diffEv], lines[diffEv])
							obsv["in_the_prefix_decoding"] = x
							exp = map[string]interface{}{"in_the_full_stream_decoding": y}
						}
						c.Violate(Violation{Key: "decoder-prefix-unstable", Monitor: "prefix-stability (alignment sweep)",
							Desc: fmt.Sprintf("the first %d event(s) of a valid stream (%d of %d bytes) decode differently alone and as part of the full stream: event %d differs (padding %d bytes, block at stream offsets %d..%d around the refill boundary %d, %d bytes of events after it)",
								i+1, off, len(in), diffEv+1, L, s0+L-ref, e0+L-ref, bound, len(in)-off),
							Case: cs, Observed: obsv, Expected: exp})
						stop = true
						break
					}
					if stop {
						break
					}
				}
			}
		}
	}
	c.Res.ExtraCoverage["aligned_prefix_streams"] = n
	c.Res.ExtraCoverage["aligned_prefix_decodes"] = decodes
}

// firstDiff: the surroundings of the first byte in which a and b differ
func firstDiff(a, b []byte) (string, string) {
	i := 0
	for i < len(a) && i < len(b) && a[i] == b[i] {
		i++
	}
	lo := i - 40
	if lo < 0 {
		lo = 0
	}
	cut := func(x []byte) string {
		hi := i + 60
		if hi > len(x) {
			hi = len(x)
		}
		if lo > len(x) {
			return ""
		}
		return string(x[lo:hi])
	}
	return cut(a), cut(b)
}
