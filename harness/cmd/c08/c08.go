package main

// C08 - the binary (CBOR) build decodes to the same event the JSON build emits.
//
// The SAME seeded programs (verifharness/cborgen) are executed twice: this
// driver is built once with -tags "verif binary_log" (main run) and once with
// -tags verif (variant "json"; its -out directory is a sub-directory of the
// main run's).  Main run: writes each program's binary line, passes it through
// the bundled decoder and records both; model shards: Enc/CborEnc.v must
// predict the binary bytes, Enc/CborDec.v the decoder's text.  Variant run:
// writes each program's JSON line; model shard: Enc/JsonEv.v must predict it;
// then the independent monitor compares, program by program, the decoded text
// with the JSON build's line, both parsed with harness/oracle's JSON parser:
// same keys in the same order, equal values (integers as exact decimal text,
// other numbers as the same float64, strings equal, timestamps the same
// instant within 1 microsecond at the precision the JSON layout carries).

import (
	"bufio"
	"bytes"
	"encoding/hex"
	"encoding/json"
	"errors"
	"fmt"
	"math"
	"net"
	"os"
	"path/filepath"
	"sort"
	"strconv"
	"time"

	"github.com/rs/zerolog"
	"verifharness/cborgen"
	"verifharness/cborref"
	"verifharness/hlib"
	. "verifharness/hlib"
	"verifharness/oracle"
)

func main() { hlib.Main(map[string]func(*hlib.Ctx){"C08": runC08}) }

func cbs(b []byte) string {
	if len(b) == 0 {
		return "(@nil N)"
	}
	return CoqBytes(b)
}

type capture struct{ bufs [][]byte }

func (w *capture) Write(p []byte) (int, error) {
	w.bufs = append(w.bufs, append([]byte{}, p...))
	return len(p), nil
}

type lineRec struct {
	I    int    `json:"i"`
	Bin  string `json:"bin"`
	Dec  string `json:"dec"`
	Err  string `json:"err,omitempty"`
	Kind string `json:"kind,omitempty"`
}

type strer struct{ s string }

func (s strer) String() string { return s.s }

type emptyObj struct{}

func (emptyObj) MarshalZerologObject(e *zerolog.Event) {}

// corpus: the inputs of the defects fixed by e480b62 and cb46159, and the C01 corpus shapes
func corpus() []*cborgen.Prog {
	raw := []byte("a\"b\\c\n\xff")
	ea, eb := errors.New("a"), errors.New("b\"q")
	return []*cborgen.Prog{
		cborgen.Fixed("Uint(1<<63)", nil, func(e *zerolog.Event) *zerolog.Event { return e.Uint("u", 1<<63) },
			nil, func() []cborgen.KV { return []cborgen.KV{cborgen.KUint("u", 1<<63)} }),
		cborgen.Fixed("Uint64(MaxUint64)", nil, func(e *zerolog.Event) *zerolog.Event { return e.Uint64("u", math.MaxUint64) },
			nil, func() []cborgen.KV { return []cborgen.KV{cborgen.KUint("u", math.MaxUint64)} }),
		cborgen.Fixed("Bytes(quote backslash newline ff)", nil, func(e *zerolog.Event) *zerolog.Event { return e.Bytes("b", raw) },
			nil, func() []cborgen.KV { return []cborgen.KV{cborgen.KBytes("b", raw)} }),
		cborgen.Fixed("Fields with []error", nil, func(e *zerolog.Event) *zerolog.Event {
			return e.Fields([]interface{}{"e", []error{ea, eb}, "s", "x"})
		}, nil, func() []cborgen.KV {
			return []cborgen.KV{cborgen.KArr("e", cborgen.KStr("", "a"), cborgen.KStr("", "b\"q")), cborgen.KStr("s", "x")}
		}),
		// payloads around and beyond the buffer sizes of readers and pools (4 KiB bufio.Reader, 64 KiB pooled buffers)
		longProg("Str 4095", 4095, 0), longProg("Str 4096", 4096, 0), longProg("Str 4097", 4097, 0), longProg("Str 5000 with escapes", 5000, 2),
		longProg("Str 9000", 9000, 0), longProg("Str 70000", 70000, 0),
		cborgen.Fixed("Bytes 4500 / Hex 2100 / Msg 4200", nil, func(e *zerolog.Event) *zerolog.Event {
			return e.Bytes("b", longBytes(4500, 2)).Hex("h", longBytes(2100, 1))
		}, nil, func() []cborgen.KV {
			return []cborgen.KV{cborgen.KBytes("b", longBytes(4500, 2)), cborgen.KHex("h", longBytes(2100, 1))}
		}),
		cborgen.Fixed("context: Str, EmbedObject(field-less), EmbedObject(nil), Str",
			func(c zerolog.Context) zerolog.Context {
				return c.Str("a", "b").EmbedObject(emptyObj{}).EmbedObject(nil).Str("c", "d")
			},
			func(e *zerolog.Event) *zerolog.Event { return e.Int("n", 1) },
			func() []cborgen.KV { return []cborgen.KV{cborgen.KStr("a", "b"), cborgen.KStr("c", "d")} },
			func() []cborgen.KV { return []cborgen.KV{cborgen.KUint("n", 1)} }),
	}
}

// ---- directed: Interface / Any values over the scalar kinds ----
// Interface() documents "marshaled with InterfaceMarshalFunc": whatever the dynamic type, both builds carry
// what the marshaler answers (or its error text).  The typed methods have their own conventions for some
// scalars (non-finite floats are the strings NaN/+Inf/-Inf there, encoding/json refuses them), so every
// scalar kind is sent through every entry point that ends in AppendInterface, grouped by kind.
type namedF64 float64
type namedInt int
type namedStr string

type valErr struct{ v interface{} }

func (valErr) Error() string { return "valErr" }

func ifaceGroups() map[string][]interface{} {
	nz := math.Copysign(0, -1)
	nan32, inf32 := float32(math.NaN()), float32(math.Inf(1))
	f := 2.5
	return map[string][]interface{}{
		"nil-bool-string":   {nil, true, false, "", "plain", "q\"uote \\ \n \t \u00e9 \x7f", namedStr("named")},
		"signed":            {0, -1, 23, 24, -24, -25, int8(-128), int8(127), int16(-32768), int32(math.MinInt32), int64(math.MinInt64), int64(math.MaxInt64), int(1) << 53, namedInt(-7)},
		"unsigned":          {uint(0), uint8(255), uint16(65535), uint32(math.MaxUint32), uint64(1) << 63, uint64(math.MaxUint64), uint(1<<63 + 1), uintptr(9)},
		"float64-finite":    {0.0, nz, 1.5, -2.5, 0.1, 1e21, 1e20, 1e-6, 1e-7, 5e-324, math.MaxFloat64, -math.MaxFloat64, float64(1 << 53), namedF64(0.25)},
		"float64-nonfinite": {math.NaN(), math.Inf(1), math.Inf(-1), math.Float64frombits(0xfff8000000000001), namedF64(math.NaN()), namedF64(math.Inf(-1))},
		"float32-finite":    {float32(0), float32(nz), float32(1.5), float32(0.1), float32(16777216), float32(math.MaxFloat32), float32(math.SmallestNonzeroFloat32), float32(1e21), float32(1e-7)},
		"float32-nonfinite": {nan32, inf32, -inf32, math.Float32frombits(0xffc00001)},
		"composite":         {[]float64{1, math.NaN()}, map[string]float64{"x": math.Inf(1)}, []float32{inf32}, &f, struct{ F float64 }{math.NaN()}, []interface{}{nil, 1, "s", 2.5, true}, [2]bool{true, false}, complex(1, 2)},
	}
}

func ifaceSweep() []*cborgen.Prog {
	var ps []*cborgen.Prog
	groups := ifaceGroups()
	var names []string
	for n := range groups {
		names = append(names, n)
	}
	sort.Strings(names)
	key := func(i int) string { return fmt.Sprintf("v%d", i) }
	for _, gn := range names {
		vals := groups[gn]
		members := func() []cborgen.KV {
			out := make([]cborgen.KV, len(vals))
			for i, v := range vals {
				out[i] = cborgen.KIface(key(i), v)
			}
			return out
		}
		elems := func() []cborgen.KV {
			out := make([]cborgen.KV, len(vals))
			for i, v := range vals {
				out[i] = cborgen.KIface("", v)
			}
			return out
		}
		tail := cborgen.KUint("after", 1)
		ps = append(ps,
			cborgen.Fixed("Interface over "+gn, nil, func(e *zerolog.Event) *zerolog.Event {
				for i, v := range vals {
					e = e.Interface(key(i), v)
				}
				return e.Int("after", 1)
			}, nil, func() []cborgen.KV { return append(members(), tail) }),
			cborgen.Fixed("Any over "+gn, nil, func(e *zerolog.Event) *zerolog.Event {
				for i, v := range vals {
					e = e.Any(key(i), v)
				}
				return e.Int("after", 1)
			}, nil, func() []cborgen.KV { return append(members(), tail) }),
			cborgen.Fixed("Context.Interface / Context.Any over "+gn, func(c zerolog.Context) zerolog.Context {
				for i, v := range vals {
					if i%2 == 0 {
						c = c.Interface(key(i), v)
					} else {
						c = c.Any(key(i), v)
					}
				}
				return c
			}, func(e *zerolog.Event) *zerolog.Event { return e.Int("after", 1) }, members, func() []cborgen.KV { return []cborgen.KV{tail} }),
			cborgen.Fixed("Arr().Interface over "+gn, func(c zerolog.Context) zerolog.Context {
				a := zerolog.Arr()
				for _, v := range vals {
					a = a.Interface(v)
				}
				return c.Array("ca", a)
			}, func(e *zerolog.Event) *zerolog.Event {
				a := zerolog.Arr()
				for _, v := range vals {
					a = a.Interface(v)
				}
				return e.Array("a", a).Int("after", 1)
			}, func() []cborgen.KV { return []cborgen.KV{cborgen.KArr("ca", elems()...)} },
				func() []cborgen.KV { return []cborgen.KV{cborgen.KArr("a", elems()...), tail} }),
			cborgen.Fixed("Dict().Interface over "+gn, nil, func(e *zerolog.Event) *zerolog.Event {
				d := zerolog.Dict()
				for i, v := range vals {
					d = d.Interface(key(i), v)
				}
				return e.Dict("d", d).Int("after", 1)
			}, nil, func() []cborgen.KV { return []cborgen.KV{cborgen.KDict("d", members()...), tail} }),
			// an error whose ErrorMarshalFunc answer is the value: AnErr / Err / Fields send it to Interface
			cborgen.Fixed("AnErr + Fields(error) with ErrorMarshalFunc answering a value of "+gn, nil, func(e *zerolog.Event) *zerolog.Event {
				old := zerolog.ErrorMarshalFunc
				defer func() { zerolog.ErrorMarshalFunc = old }()
				zerolog.ErrorMarshalFunc = func(err error) interface{} {
					if x, ok := err.(valErr); ok {
						return x.v
					}
					return err
				}
				for i, v := range vals {
					if v == nil || isStringish(v) {
						continue
					}
					e = e.AnErr(key(i), valErr{v}).Fields([]interface{}{key(i) + "f", valErr{v}})
				}
				return e.Int("after", 1)
			}, nil, func() []cborgen.KV {
				var out []cborgen.KV
				for i, v := range vals {
					if v == nil || isStringish(v) {
						continue
					}
					out = append(out, cborgen.KIface(key(i), v), cborgen.KIface(key(i)+"f", v))
				}
				return append(out, tail)
			}),
		)
	}
	// the typed twins: the same non-finite floats through the typed methods and the Fields type switch keep
	// the typed convention in both builds
	nan, inf := math.NaN(), math.Inf(1)
	ps = append(ps, cborgen.Fixed("Float64/Float32/Fields typed non-finite", nil, func(e *zerolog.Event) *zerolog.Event {
		return e.Float64("a", nan).Float64("b", inf).Float64("c", -inf).Float32("d", float32(nan)).Float32("e", float32(-inf)).
			Fields([]interface{}{"f", nan, "g", float32(inf)})
	}, nil, func() []cborgen.KV {
		return []cborgen.KV{cborgen.KF64("a", nan), cborgen.KF64("b", inf), cborgen.KF64("c", -inf), cborgen.KF32("d", float32(nan)), cborgen.KF32("e", float32(-inf)),
			cborgen.KF64("f", nan), cborgen.KF32("g", float32(inf))}
	}))
	return ps
}

// strings answered by ErrorMarshalFunc are written as text, not through Interface
func isStringish(v interface{}) bool {
	_, ok := v.(string)
	return ok
}

func longBytes(n, mode int) []byte {
	b := make([]byte, n)
	alphabet := []byte("a\"b\\c\n\xff\x00\xc3\xa9 ")
	for i := range b {
		switch mode {
		case 0:
			b[i] = byte('a' + i%26)
		case 1:
			b[i] = byte(i * 7)
		default:
			b[i] = alphabet[(i*i+i/7)%len(alphabet)]
		}
	}
	return b
}

func longProg(name string, n, mode int) *cborgen.Prog {
	v := string(longBytes(n, mode))
	return cborgen.Fixed(name, nil, func(e *zerolog.Event) *zerolog.Event { return e.Str("s", v).Int("after", 1) },
		nil, func() []cborgen.KV { return []cborgen.KV{cborgen.KStr("s", v), cborgen.KUint("after", 1)} })
}

// clip shortens a very long text for a report (head and tail kept)
func clip(s string) string {
	if len(s) <= 200000 {
		return s
	}
	return s[:1500] + fmt.Sprintf(" ...(%d bytes in all)... ", len(s)) + s[len(s)-300:]
}

func classify(err error) string {
	if err == nil {
		return ""
	}
	return err.Error()
}

// decodeReal runs the bundled decoder under recover.
func decodeReal(in []byte) (out []byte, errText string) {
	var b bytes.Buffer
	defer func() {
		if r := recover(); r != nil {
			out = b.Bytes()
			errText = fmt.Sprintf("panic: %v", r)
		}
	}()
	err := zerolog.VerifC08Decode(bytes.NewReader(in), &b)
	return b.Bytes(), classify(err)
}

func programs(c *Ctx) []*cborgen.Prog {
	ps := append(corpus(), ifaceSweep()...)
	n := 1200
	if c.Thorough() {
		n = 20000
	}
	for i := 0; i < n; i++ {
		ps = append(ps, cborgen.Gen(c.R.Fork(), true))
	}
	return append(ps, sliceSweep(c, c.R.Fork())...)
}

// sliceSweep: typed slices with element counts around and beyond the widths of the array header's count
// (0..23 inline, 1 byte up to 255, 2 bytes up to 65535, then 4 bytes), and counts whose low byte / low 16
// bits are small again (256..279, 512..535, 65536..65559): the random generator stops at 25 elements.
// Every definite-length slice method at 256 and at one further count, as event field and in the context;
// the two cheapest element types (bool, uint8) at every boundary count.
func sliceSweep(c *Ctx, r *Rng) []*cborgen.Prog {
	var ps []*cborgen.Prog
	further := []int{257, 279, 280, 512, 535, 536, 1024, 255}
	all := []int{23, 24, 255, 256, 257, 279, 280, 511, 512, 535, 536} // the 2-/4-byte boundary: bigSlices (Go-side only)
	for i, kind := range cborgen.SliceKinds {
		if c.Thorough() {
			for j, n := range all {
				ps = append(ps, cborgen.SliceProg(r, kind, n, (i+j)%2 == 1))
			}
			continue
		}
		ps = append(ps, cborgen.SliceProg(r, kind, 256, i%2 == 1), cborgen.SliceProg(r, kind, further[i%len(further)], i%2 == 0))
	}
	if !c.Thorough() {
		for j, n := range all {
			ps = append(ps, cborgen.SliceProg(r, "Bools", n, j%2 == 1), cborgen.SliceProg(r, "Uints8", n, j%2 == 0))
		}
	}
	c.Res.ExtraCoverage["slice_sweep_programs"] = len(ps)
	return ps
}

// bigSlices: element counts on both sides of the 2-/4-byte width of the array header's count (65535 /
// 65536) and counts whose low 16 bits are small again (65536..65559).  Go-side only (no model shard: the
// model's cost grows with the element count): the binary line is checked by the reference parser and its
// decoded text is compared with the JSON build's line by the same decode-equivalence monitor as every
// other program.  The cheapest element types at every count; one count each for four further methods.
func bigSlices(c *Ctx, r *Rng) []*cborgen.Prog {
	var ps []*cborgen.Prog
	for j, n := range []int{65535, 65536, 65537, 65559} {
		ps = append(ps, cborgen.SliceProg(r, "Bools", n, j%2 == 0), cborgen.SliceProg(r, "Uints8", n, j%2 == 1))
	}
	ps = append(ps, cborgen.SliceProg(r, "Ints", 65536, false), cborgen.SliceProg(r, "Strs", 65537, true),
		cborgen.SliceProg(r, "Floats32", 65559, false), cborgen.SliceProg(r, "Uints64", 65536, true))
	if c.Thorough() {
		for i, kind := range cborgen.SliceKinds {
			ps = append(ps, cborgen.SliceProg(r, kind, []int{65536, 65559, 65537, 131072}[i%4], i%2 == 0))
		}
	}
	c.Res.ExtraCoverage["big_slice_programs"] = len(ps)
	return ps
}

const hdrBin = "From Verif Require Import Base.Prelude Base.CborSpec Enc.CborEnc Harness.C09H.\nOpen Scope N_scope."
const hdrDec = "From Verif Require Import Base.Prelude Enc.CborEnc Enc.CborDec Harness.C17H.\nOpen Scope N_scope."
const hdrJson = "From Verif Require Import Base.Prelude Enc.CborEnc Harness.C09H Harness.C08H.\nOpen Scope N_scope."

func runC08(c *Ctx) {
	c.Res.Rule = "a case is one logging program of the shared generator (every field method of Event / Context / Array, Dict / Object / EmbedObject / Fields nesting <= 3, context layers, level, message; values restricted to what the property quantifies over: 4/16-byte IPs, 6-byte MACs, canonical prefixes, embedded JSON that is JSON; all times of a program in one location), executed under both build tags from the same seed; plus directed programs: every definite-length typed slice method with 256 and more elements (counts around the 1-/2-byte header widths and counts whose low byte is below 24 with model shards; counts around the 2-/4-byte width, 65535..65559, Go-side only), an alignment sweep (one event / a three-event stream carrying every tagged and multi-byte value kind behind a padding string of EVERY length of the windows that move the value block across stream offsets 4096, 8192 and 12288, followed by 4200 more bytes; the same event through readers delivering 4 .. 512 bytes per Read at every offset; every generated line through readers delivering 1 .. 4095 bytes per Read and all lines as one stream), each decoded text compared with the JSON build's line; and a grid of fractional instants (seconds x nanoseconds, up to years 1066 and 9999 and both sides of the int64-nanosecond range) through Time, Times, Context.Time and Timestamp; programs that assign the configuration globals at RUN TIME and restore them (InterfaceMarshalFunc = encoding/json.Marshal / a wrapper object / a redacting / constant / failing / stateful marshaller x 10 entry points ending in Interface (Event / Context / Arr / Dict Interface and Any, Fields slice and map, Stringer(nil), errors and stacks answering a value) x assigned before the logger exists / between the events of one logger / replaced by a second function / inside Func, Object or a hook of the event being built; ErrorMarshalFunc, ErrorStackMarshaler, LevelFieldMarshalFunc, Level*Value, the field names, TimestampFunc, CallerMarshalFunc, DurationFieldUnit / DurationFieldInteger and RFC 3339 TimeFieldFormats changing between the events of one logger), each a stream of 1 .. 42 events compared event by event (Go-side only); corpus first (Uint(1<<63), Uint64(MaxUint64), Bytes with quote/backslash/newline/0xff, Fields with []error, field-less EmbedObject in a context); non-trivial = at least one field besides the level; distinct by the field-list term"
	ps := programs(c)
	big := bigSlices(c, c.R.Fork())
	if zerolog.VerifC08EncIsCBOR() {
		runBinary(c, ps, big)
	} else {
		runJSON(c, ps, big)
	}
}

// ---------------------------------------------------------------- main run: binary build
func runBinary(c *Ctx, ps, big []*cborgen.Prog) {
	f, err := os.Create(filepath.Join(c.Out, "lines_bin.jsonl"))
	if err != nil {
		panic(err)
	}
	defer f.Close()
	wr := bufio.NewWriter(f)
	defer wr.Flush()
	type decCase struct {
		term string
		j    interface{}
	}
	var decs []decCase
	var chIdx []int
	var chBins, chDecs [][]byte
	var chErrs []string
	c.OpenShards(hdrBin, "(tables * (list (list N * cval) * list (list N * cval) * list (list N * cval))) * list N", "mismatches c09_run_event c09_eqb", 80)
	for i, p := range ps {
		w := &capture{}
		p.Run(w)
		in := map[string]interface{}{"program": i, "desc": p.Desc}
		if len(w.bufs) != 1 {
			c.Violate(Violation{Key: "event-writes", Monitor: "one-write", Desc: fmt.Sprintf("binary build: event produced %d writes", len(w.bufs)), Case: in})
			continue
		}
		bin := w.bufs[0]
		// the binary line is one well-formed item (independent parser)
		if _, rest, err := cborref.ParseItem(bin); err != nil || len(rest) != 0 {
			c.Violate(Violation{Key: "cbor-event-malformed", Monitor: "rfc8949-reference-parser", Desc: "binary build: the event is not exactly one well-formed CBOR item", Case: in, Observed: hex.EncodeToString(bin)})
		}
		dec, derr := decodeReal(bin)
		rec := lineRec{I: i, Bin: hex.EncodeToString(bin), Dec: hex.EncodeToString(dec), Err: derr}
		b, _ := json.Marshal(rec)
		wr.Write(b)
		wr.WriteByte('\n')
		chIdx, chBins, chDecs, chErrs = append(chIdx, i), append(chBins, bin), append(chDecs, append([]byte{}, dec...)), append(chErrs, derr)
		// model: the binary bytes
		c.AddCase(fmt.Sprintf("((%s, %s), %s)", p.Tb, p.FieldsCoq(), cbs(bin)), map[string]interface{}{"program": in, "binary_hex": rec.Bin})
		// model: the decoder's text (oracle answers for every float / timestamp position of the line)
		tb := cborgen.NewDecTables()
		tb.Scan(bin)
		fin := "FOk"
		if derr != "" {
			fin = "FOutOfFuel" // any error here is a mismatch: valid lines decode without error
		}
		decs = append(decs, decCase{fmt.Sprintf("((%s, (EMany, %s)), (%s, %s))", tb.Coq(), cbs(bin), cbs(dec), fin),
			map[string]interface{}{"program": in, "binary_hex": rec.Bin, "decoded": string(dec), "err": derr}})
		c.Count(p.FieldsCoq(), len(p.All()) > 1)
		c.Hist("fields", fmt.Sprintf("%d", len(p.All())/4*4))
		for _, k := range p.Kinds {
			c.Hist("field_kind", k)
		}
		if i < 3 {
			c.Sample(map[string]interface{}{"program": in, "binary_hex": rec.Bin, "decoded": string(dec)})
		}
	}
	c.OpenShards(hdrDec, "(tables * (entry * list N)) * (list N * final)", "mismatches c17_run c17_eqb", 80)
	for _, d := range decs {
		c.AddCase(d.term, d.j)
	}
	c.Res.ExtraCoverage["programs"] = len(ps)
	c.Res.ExtraCoverage["build"] = "binary_log"
	// directed: where the decoder's reads fall (align.go)
	chunkedDecodes(c, chIdx, chBins, chDecs, chErrs)
	alignBinary(c)
	// directed: the configuration globals assigned at run time (globals.go)
	globalsBinary(c)
	// the big slices (Go-side only): reference parser here, the comparison with the JSON build's line in the variant run
	if fb, err := os.Create(filepath.Join(c.Out, "lines_big.jsonl")); err == nil {
		wb := bufio.NewWriter(fb)
		for i, p := range big {
			w := &capture{}
			p.Run(w)
			in := map[string]interface{}{"big_slice_program": i, "desc": p.Desc}
			if len(w.bufs) != 1 {
				c.Violate(Violation{Key: "event-writes", Monitor: "one-write", Desc: fmt.Sprintf("binary build: event produced %d writes", len(w.bufs)), Case: in})
				continue
			}
			bin := w.bufs[0]
			if _, rest, err := cborref.ParseItem(bin); err != nil || len(rest) != 0 {
				c.Violate(Violation{Key: "cbor-event-malformed", Monitor: "rfc8949-reference-parser", Desc: "binary build: the event is not exactly one well-formed CBOR item", Case: in, Observed: hex.EncodeToString(bin[:64]) + "..."})
			}
			dec, derr := decodeReal(bin)
			b, _ := json.Marshal(lineRec{I: i, Bin: hex.EncodeToString(bin), Dec: hex.EncodeToString(dec), Err: derr})
			wb.Write(b)
			wb.WriteByte('\n')
			c.Hist("big_slice_elements", fmt.Sprintf("%v", p.Desc["elements"]))
		}
		wb.Flush()
		fb.Close()
	} else {
		panic(err)
	}
	// directed: fractional instants on a grid of seconds x nanoseconds, judged against the instant
	// that was logged ("the same instant within one microsecond"; the JSON build prints it exactly
	// under TimeFieldFormat = RFC3339Nano).  Far from the epoch the float64 seconds of CBOR tag 1
	// cannot carry a microsecond (Properties/C08.v, C08_time_far_refuted): those land on the
	// known-finding key, everything else on decoded-time-differs.
	probe := map[string]string{}
	grid, far := 0, 0
	// the instants: powers of two of seconds around 2^31..2^37, calendar years far from the epoch (1066, 1500,
	// 2300, 2500, 9999) and both sides of the range a count of nanoseconds in an int64 spans (1677-09-21 ..
	// 2262-04-11, +-9223372036.854775807 s)
	secsGrid := []int64{0, 1, 1700000000, 1<<31 - 1, 1 << 31, 1<<32 + 7, 1<<33 - 1, -1, -1700000000, -(1<<33 - 1), 1 << 33, 1<<33 + 12345, 1 << 34, 1 << 36, 1 << 37, 253402300000, -(1 << 33), -(1 << 35),
		9223372035, 9223372036, 9223372037, 9223372038, -9223372035, -9223372036, -9223372037, -9223372038,
		time.Date(2300, 1, 1, 0, 0, 0, 0, time.UTC).Unix(), time.Date(2500, 3, 4, 3, 6, 7, 0, time.UTC).Unix(),
		time.Date(1500, 6, 15, 12, 0, 0, 0, time.UTC).Unix(), time.Date(1066, 10, 14, 9, 0, 0, 0, time.UTC).Unix(), time.Date(1, 1, 1, 0, 0, 1, 0, time.UTC).Unix()}
	// entry points that end in the timestamp encoder; get returns the decoded texts that stand for t
	type tEntry struct {
		name string
		all  bool // every nanosecond value of the grid (otherwise two of them)
		run  func(w *capture, t time.Time)
		get  func(m map[string]interface{}) ([]interface{}, bool)
	}
	one := func(k string) func(m map[string]interface{}) ([]interface{}, bool) {
		return func(m map[string]interface{}) ([]interface{}, bool) { v, ok := m[k]; return []interface{}{v}, ok }
	}
	tEntries := []tEntry{
		{"Log().Time(\"t\", T).Send()", true, func(w *capture, t time.Time) { lg := zerolog.New(w); lg.Log().Time("t", t).Send() }, one("t")},
		{"Log().Times(\"t\", []time.Time{T, T}).Send()", false, func(w *capture, t time.Time) { lg := zerolog.New(w); lg.Log().Times("t", []time.Time{t, t}).Send() },
			func(m map[string]interface{}) ([]interface{}, bool) {
				a, ok := m["t"].([]interface{})
				return a, ok && len(a) == 2
			}},
		{"With().Time(\"t\", T).Logger().Log().Send()", false, func(w *capture, t time.Time) { lg := zerolog.New(w).With().Time("t", t).Logger(); lg.Log().Send() }, one("t")},
		{"TimestampFunc = func() time.Time { return T }; Log().Timestamp().Send()", false, func(w *capture, t time.Time) {
			old := zerolog.TimestampFunc
			defer func() { zerolog.TimestampFunc = old }()
			zerolog.TimestampFunc = func() time.Time { return t }
			lg := zerolog.New(w)
			lg.Log().Timestamp().Send()
		}, one(zerolog.TimestampFieldName)},
		{"Log().Fields(map[string]interface{}{\"t\": T}).Send()", false, func(w *capture, t time.Time) {
			lg := zerolog.New(w)
			lg.Log().Fields(map[string]interface{}{"t": t}).Send()
		}, one("t")},
	}
	for _, secs := range secsGrid {
		for _, ns := range []int64{1, 999, 1000, 123456789, 500000000, 999999000, 999999999} {
			for _, en := range tEntries {
				if !en.all && ns != 123456789 && ns != 500000000 {
					continue
				}
				w := &capture{}
				t := time.Unix(secs, ns).UTC()
				en.run(w, t)
				if len(w.bufs) != 1 {
					continue
				}
				dec, derr := decodeReal(w.bufs[0])
				var m map[string]interface{}
				grid++
				cs := map[string]interface{}{"program": en.name + fmt.Sprintf(" with T = time.Unix(%d, %d).UTC()", secs, ns), "instant": t.Format(time.RFC3339Nano), "binary_hex": hex.EncodeToString(w.bufs[0])}
				if derr != "" || json.Unmarshal(dec, &m) != nil {
					c.Violate(Violation{Key: "decoded-not-json", Monitor: "time-grid", Desc: "the decoded line of a Time field is not a JSON object: " + derr, Case: cs, Observed: string(dec)})
					continue
				}
				texts, ok := en.get(m)
				if !ok {
					c.Violate(Violation{Key: "decoded-value-differs", Monitor: "time-grid", Desc: "the decoded line does not carry the timestamp(s) under the key they were logged with", Case: cs, Observed: string(dec)})
					continue
				}
				for _, tx := range texts {
					txt, isStr := tx.(string)
					if !isStr {
						c.Violate(Violation{Key: "decoded-not-json", Monitor: "time-grid", Desc: "the decoded line of a Time field is not a JSON object of strings", Case: cs, Observed: string(dec)})
						break
					}
					td, err := time.Parse(time.RFC3339Nano, txt)
					if err != nil {
						c.Violate(Violation{Key: "decoded-time-differs", Monitor: "time-grid", Desc: "the decoded timestamp does not parse: " + err.Error(), Case: cs, Observed: txt})
						break
					}
					d := td.Sub(t)
					if d < 0 {
						d = -d
					}
					if d <= time.Microsecond {
						continue
					}
					// More than 1 us off.  Beyond 2^33 s the float64 seconds of CBOR tag 1 cannot carry a
					// microsecond: one unit in the last place of the carried number bounds what that explains
					// (rounding of secs + nanos*1e-9 is half a unit, the decoder's split adds nanoseconds).
					// Anything further away is not a precision effect.
					a := math.Abs(float64(secs)) + 1
					ulp := time.Duration((math.Nextafter(a, math.Inf(1))-a)*1e9) + 1
					key := "decoded-time-differs"
					what := ""
					if (secs >= 1<<33 || secs <= -(1<<33)) && d <= ulp {
						key = "binary-time-float64-precision"
						far++
						if len(probe) < 6 {
							probe[t.Format(time.RFC3339Nano)] = txt
						}
					} else if secs >= 1<<33 || secs <= -(1<<33) {
						what = fmt.Sprintf("; float64 seconds resolve %v at this distance from the epoch, so this is not a precision effect", ulp)
					}
					c.Violate(Violation{Key: key, Monitor: "time-grid", Desc: fmt.Sprintf("%s: T = %s decodes to %s: %v away from the logged instant (the JSON build with TimeFieldFormat=RFC3339Nano prints the logged instant exactly)%s", en.name, t.Format(time.RFC3339Nano), txt, d, what),
						Case: cs, Observed: txt, Expected: t.Format(time.RFC3339Nano)})
					break
				}
			}
		}
	}
	c.Res.ExtraCoverage["time_grid_cases"] = grid
	c.Res.ExtraCoverage["time_grid_beyond_2^33s_off_by_more_than_1us"] = far
	c.Res.ExtraCoverage["fractional_time_far_from_epoch"] = probe
}

// ---------------------------------------------------------------- variant run: JSON build + the comparison
func cleanupExp(t []byte) []byte { // internal/json appendFloat: e-09 -> e-9
	n := len(t)
	if n >= 4 && t[n-4] == 'e' && t[n-3] == '-' && t[n-2] == '0' {
		return append(append([]byte{}, t[:n-2]...), t[n-1])
	}
	return t
}

func isIntText(s string) bool {
	if s == "" {
		return false
	}
	for i, ch := range s {
		if ch == '-' && i == 0 {
			continue
		}
		if ch < '0' || ch > '9' {
			return false
		}
	}
	return true
}

// cmp compares the decoded value d with the JSON build's value j; "" if equal
func cmp(path string, d, j oracle.Value) (key, msg string) {
	if d.Kind != j.Kind {
		return "decoded-value-differs", fmt.Sprintf("%s: kinds %c vs %c", path, d.Kind, j.Kind)
	}
	switch d.Kind {
	case '#':
		if isIntText(d.Num) && isIntText(j.Num) {
			if d.Num != j.Num && !(d.Num == "-0" && j.Num == "0") && !(d.Num == "0" && j.Num == "-0") {
				return "decoded-value-differs", fmt.Sprintf("%s: integer %s vs %s", path, d.Num, j.Num)
			}
			return "", ""
		}
		a, e1 := strconv.ParseFloat(d.Num, 64)
		b, e2 := strconv.ParseFloat(j.Num, 64)
		if e1 != nil || e2 != nil || a != b {
			return "decoded-value-differs", fmt.Sprintf("%s: number %s vs %s", path, d.Num, j.Num)
		}
	case 's':
		if d.Str == j.Str {
			return "", ""
		}
		// timestamps: the decoder prints UTC with the float's precision, the JSON build the layout's
		td, e1 := time.Parse(time.RFC3339Nano, d.Str)
		tj, e2 := time.Parse(time.RFC3339, j.Str)
		if e1 == nil && e2 == nil {
			// exists an instant x within 1us of the decoded one whose second is the JSON build's second
			lo, hi := td.Add(-time.Microsecond), td.Add(time.Microsecond)
			if !hi.Before(tj) && lo.Before(tj.Add(time.Second)) {
				return "", ""
			}
			return "decoded-time-differs", fmt.Sprintf("%s: instant %s vs %s", path, d.Str, j.Str)
		}
		return "decoded-value-differs", fmt.Sprintf("%s: string %q vs %q", path, d.Str, j.Str)
	case 'a':
		if len(d.Arr) != len(j.Arr) {
			return "decoded-value-differs", fmt.Sprintf("%s: %d vs %d elements", path, len(d.Arr), len(j.Arr))
		}
		for i := range d.Arr {
			if k, m := cmp(fmt.Sprintf("%s[%d]", path, i), d.Arr[i], j.Arr[i]); k != "" {
				return k, m
			}
		}
	case 'o':
		if len(d.Members) != len(j.Members) {
			return "decoded-key-order", fmt.Sprintf("%s: %d vs %d members", path, len(d.Members), len(j.Members))
		}
		for i := range d.Members {
			if d.Members[i].Key != j.Members[i].Key {
				return "decoded-key-order", fmt.Sprintf("%s: member %d is %q vs %q", path, i, d.Members[i].Key, j.Members[i].Key)
			}
			if k, m := cmp(path+"."+d.Members[i].Key, d.Members[i].Val, j.Members[i].Val); k != "" {
				return k, m
			}
		}
	}
	return "", ""
}

func runJSON(c *Ctx, ps, big []*cborgen.Prog) {
	// the main run's lines
	bin := map[int]lineRec{}
	parent := filepath.Dir(filepath.Clean(c.Out))
	if fh, err := os.Open(filepath.Join(parent, "lines_bin.jsonl")); err == nil {
		sc := bufio.NewScanner(fh)
		sc.Buffer(make([]byte, 1<<20), 1<<26)
		for sc.Scan() {
			var r lineRec
			if json.Unmarshal(sc.Bytes(), &r) == nil {
				bin[r.I] = r
			}
		}
		fh.Close()
	} else {
		c.Note("no lines_bin.jsonl in %s: the binary run's lines are not available, the comparison was skipped", parent)
	}
	c.OpenShards(hdrJson, "((jtables * tables) * (list (list N * cval) * list (list N * cval) * list (list N * cval))) * list N", "mismatches c08_run_json c09_eqb", 80)
	compared, floats := 0, 0
	// compare: the decode-equivalence monitor on one program (r = the binary run's record, line = this build's line)
	compare := func(cs map[string]interface{}, r lineRec, dec, line []byte) {
		if r.Err != "" {
			c.Violate(Violation{Key: "decoded-not-json", Monitor: "decode-equivalence", Desc: "the decoder reported an error on a line of the binary build: " + r.Err, Case: cs})
			return
		}
		if bytes.Count(dec, []byte("\n")) != 1 || !bytes.HasSuffix(dec, []byte("\n")) {
			c.Violate(Violation{Key: "decoded-not-json", Monitor: "decode-equivalence", Desc: "the decoded text is not one line", Case: cs})
			return
		}
		dv, err := oracle.ParseJSON(bytes.TrimSuffix(dec, []byte("\n")))
		if err != nil || dv.Kind != 'o' {
			c.Violate(Violation{Key: "decoded-not-json", Monitor: "decode-equivalence", Desc: fmt.Sprintf("the decoded text is not one JSON object: %v", err), Case: cs})
			return
		}
		jv, err := oracle.CheckEventLine(line)
		if err != nil {
			c.Violate(Violation{Key: "json-line-invalid", Monitor: "decode-equivalence", Desc: "the JSON build's line is not one JSON object on one line: " + err.Error(), Case: cs})
			return
		}
		if k, m := cmp("$", dv, jv); k != "" {
			c.Violate(Violation{Key: k, Monitor: "decode-equivalence", Desc: "binary build decoded vs JSON build: " + m, Case: cs, Observed: clip(string(dec)), Expected: clip(string(line))})
		}
	}
	// directed: the alignment sweep (align.go), first so that its witnesses are the ones kept
	alignJSON(c, parent, compare)
	// directed: the configuration globals assigned at run time (globals.go)
	globalsJSON(c, parent, compare)
	chunkRecs, _ := readRecs(filepath.Join(parent, "lines_chunk.jsonl"))
	chunkCompared := 0
	for i, p := range ps {
		w := &capture{}
		p.Run(w)
		in := map[string]interface{}{"program": i, "desc": p.Desc}
		if len(w.bufs) != 1 {
			c.Violate(Violation{Key: "event-writes", Monitor: "one-write", Desc: fmt.Sprintf("JSON build: event produced %d writes", len(w.bufs)), Case: in})
			continue
		}
		line := w.bufs[0]
		// decodes of the same binary line through other readers that were not byte-identical to the plain one (align.go)
		for _, cr := range chunkRecs[i] {
			chunkCompared++
			d := cr.decoded()
			compare(map[string]interface{}{"program": i, "desc": p.Desc, "binary_hex": bin[i].Bin, "decoded_through": cr.Reader, "decoded": string(d), "json_line": string(line)}, lineRec{I: i, Err: cr.Err}, d, line)
		}
		c.AddCase(fmt.Sprintf("(((%s, %s), %s), %s)", p.JT.Coq(), p.Tb, p.FieldsCoq(), cbs(line)), map[string]interface{}{"program": in, "json_line": string(line)})
		c.Count(p.FieldsCoq(), len(p.All()) > 1)
		// oracle hypotheses of the theorem: strconv's 'f' and (cleaned) 'e' texts denote the same number
		for _, t := range p.JT.FloatTexts() {
			floats++
			a, e1 := strconv.ParseFloat(string(t[0]), 64)
			b, e2 := strconv.ParseFloat(string(cleanupExp(t[1])), 64)
			if e1 != nil || e2 != nil || (a != b && !(math.IsNaN(a) && math.IsNaN(b))) {
				c.Violate(Violation{Key: "strconv-f-e-differ", Monitor: "oracle-hypothesis", Desc: "strconv's 'f' and 'e' texts of one float do not denote the same number", Case: map[string]string{"f": string(t[0]), "e": string(t[1])}})
			}
		}
		r, ok := bin[i]
		if !ok {
			continue
		}
		compared++
		dec, _ := hex.DecodeString(r.Dec)
		compare(map[string]interface{}{"program": i, "desc": p.Desc, "binary_hex": r.Bin, "decoded": string(dec), "json_line": string(line)}, r, dec, line)
		if i < 2 {
			c.Sample(map[string]interface{}{"program": in, "json_line": string(line), "decoded": string(dec)})
		}
	}
	// the big slices (Go-side only): the same monitor, against the binary run's lines_big.jsonl
	bigCompared := 0
	if fh, err := os.Open(filepath.Join(parent, "lines_big.jsonl")); err == nil {
		recs := map[int]lineRec{}
		sc := bufio.NewScanner(fh)
		sc.Buffer(make([]byte, 1<<20), 1<<28)
		for sc.Scan() {
			var r lineRec
			if json.Unmarshal(sc.Bytes(), &r) == nil {
				recs[r.I] = r
			}
		}
		fh.Close()
		for i, p := range big {
			r, ok := recs[i]
			if !ok {
				continue
			}
			w := &capture{}
			p.Run(w)
			in := map[string]interface{}{"big_slice_program": i, "desc": p.Desc}
			if len(w.bufs) != 1 {
				c.Violate(Violation{Key: "event-writes", Monitor: "one-write", Desc: fmt.Sprintf("JSON build: event produced %d writes", len(w.bufs)), Case: in})
				continue
			}
			line := w.bufs[0]
			dec, _ := hex.DecodeString(r.Dec)
			bigCompared++
			compare(map[string]interface{}{"big_slice_program": i, "desc": p.Desc, "binary_hex": clip(r.Bin), "decoded": clip(string(dec)), "json_line": clip(string(line))}, r, dec, line)
		}
	} else if len(bin) > 0 {
		c.Note("no lines_big.jsonl in %s: the big-slice comparison was skipped", parent)
	}
	c.Res.ExtraCoverage["compared_chunked_decodes_that_differed"] = chunkCompared
	c.Res.ExtraCoverage["compared_big_slice_programs"] = bigCompared
	c.Res.ExtraCoverage["compared_programs"] = compared
	c.Res.ExtraCoverage["floats_checked_f_vs_e"] = floats
	c.Res.ExtraCoverage["build"] = "json"
	_ = net.IP{}
}
