package main

// C08, directed: where the decoder's reads fall.
//
// The bundled decoder reads its input through a bufio.Reader (4096 bytes) that it refills whenever it runs empty.
// What a value decodes to must not depend on where in the stream the value lies, nor on how the stream reaches the
// reader (one buffer handed over by ConsoleWriter / journald, a log file, a pipe delivering a few bytes per Read).
// A handler that keeps bytes of the reader's buffer across a further read - or assumes that a value lies in one
// buffer - decodes every ordinary event correctly and goes wrong only for the value whose bytes end (or are split)
// exactly at a refill boundary, with enough input behind it to overwrite the buffer.
//
//   (a) alignment sweep: one event  Str("pad", L x 'p') . <every value kind> . Str("tail", 4200 x 't')  for EVERY L
//       of a window that moves each byte of the value block (tagged prefixes / addresses / hex / embedded JSON and
//       CBOR, byte and text strings with escapes and multi-byte characters, timestamps, floats, 8-byte integers,
//       nested Array / Dict with tagged values, typed slices) across stream offset 4096*k, k = 1, 2, 3, decoded from
//       one buffer; for k = 1 also as a stream of three events (padding event, value event, 4200-byte event).
//   (b) the same event with a short tail read through readers that deliver C bytes per Read, C in 4 .. 512, for
//       every L in 0 .. C-1: every refill boundary at every offset of every value.
//   (c) every generated program's line decoded through readers delivering 1 .. 4095 bytes per Read, and all lines of
//       the run concatenated into one stream (a log file) decoded in one go.
//
// Judged by the decode-equivalence monitor of the variant run: the decoded text of the binary build against the line
// the JSON build writes for the same program (for (b), (c): the plain decode always, a chunked / whole-file decode
// whenever its text is not byte-identical to the plain one).

import (
	"bufio"
	"bytes"
	"encoding/hex"
	"encoding/json"
	"fmt"
	"io"
	"math"
	"net"
	"os"
	"path/filepath"
	"strings"
	"time"
	"unicode/utf8"

	"github.com/rs/zerolog"
	. "verifharness/hlib"
)

// chunkReader delivers at most n bytes per Read (a pipe, a socket, a slow file)
type chunkReader struct {
	b []byte
	n int
}

func (r *chunkReader) Read(p []byte) (int, error) {
	if len(r.b) == 0 {
		return 0, io.EOF
	}
	k := r.n
	if k > len(p) {
		k = len(p)
	}
	if k > len(r.b) {
		k = len(r.b)
	}
	copy(p, r.b[:k])
	r.b = r.b[k:]
	return k, nil
}

// decodeFrom runs the bundled decoder on a reader under recover.
func decodeFrom(rd io.Reader) (out []byte, errText string) {
	var b bytes.Buffer
	defer func() {
		if r := recover(); r != nil {
			out = b.Bytes()
			errText = fmt.Sprintf("panic: %v", r)
		}
	}()
	err := zerolog.VerifC08Decode(rd, &b)
	return b.Bytes(), classify(err)
}

var chunkSizes = []int{1, 2, 3, 5, 8, 13, 16, 17, 32, 64, 255, 4095}

// alignRec is one decoded text of the binary run, handed to the variant run
type alignRec struct {
	I      int    `json:"i"`
	Reader string `json:"reader"`
	Text   string `json:"text,omitempty"` // the decoded text when it is valid UTF-8
	Dec    string `json:"dec,omitempty"`  // hex otherwise
	Err    string `json:"err,omitempty"`
}

func mkAlignRec(i int, reader string, dec []byte, errText string) alignRec {
	r := alignRec{I: i, Reader: reader, Err: errText}
	if utf8.Valid(dec) {
		r.Text = string(dec)
	} else {
		r.Dec = hex.EncodeToString(dec)
	}
	return r
}

func (r alignRec) decoded() []byte {
	if r.Dec != "" {
		b, _ := hex.DecodeString(r.Dec)
		return b
	}
	return []byte(r.Text)
}

type recWriter struct {
	f *os.File
	w *bufio.Writer
}

func newRecWriter(dir, name string) *recWriter {
	f, err := os.Create(filepath.Join(dir, name))
	if err != nil {
		panic(err)
	}
	return &recWriter{f, bufio.NewWriterSize(f, 1<<20)}
}

func (w *recWriter) put(r alignRec) {
	b, _ := json.Marshal(r)
	w.w.Write(b)
	w.w.WriteByte('\n')
}

func (w *recWriter) close() { w.w.Flush(); w.f.Close() }

func readRecs(path string) (map[int][]alignRec, bool) {
	fh, err := os.Open(path)
	if err != nil {
		return nil, false
	}
	defer fh.Close()
	out := map[int][]alignRec{}
	sc := bufio.NewScanner(fh)
	sc.Buffer(make([]byte, 1<<20), 1<<26)
	for sc.Scan() {
		var r alignRec
		if json.Unmarshal(sc.Bytes(), &r) == nil {
			out[r.I] = append(out[r.I], r)
		}
	}
	return out, true
}

// ---------------------------------------------------------------- the value block
const alignValuesSrc = `IPPrefix("p4", 10.1.2.0/24).IPPrefix("p4s", 192.168.0.0/16).IPPrefix("p6", 2001:db8:85a3::/48).IPPrefix("p6l", 2001:db8::1/128).IPPrefix("pm", ::ffff:1.2.3.0/120).` +
	`IPAddr("i4", 203.0.113.9).IPAddr("i6", 2001:db8::ff00:42:8329).MACAddr("m", de:ad:be:ef:00:01).Hex("h", 20 bytes).RawJSON("j", {"k":[1e5,-0.5,"é"]}).RawCBOR("c", 83010203).` +
	`Bytes("b", a"b\c\n\xff\x00 z).Str("s", text with quote, backslash, newline, 2-/3-/4-byte characters).Time("t", 2023-11-14T22:13:20.123456Z).Time("t0", 2023-11-14T22:13:20Z).Dur("d", 1.5s).` +
	`Float64("f", 0.1).Float32("g", 2.5).Int64("n", MinInt64).Uint64("u", MaxUint64).Int("w", 1<<40).Int("x", 70000).Int("y", -400).Bool("z", true).` +
	`Array("a", Arr().IPPrefix(172.16.0.0/12).IPAddr(2001:db8::1).MACAddr(00:01:02:03:04:05).Hex(cafe).Str("e")).Dict("o", Dict().IPPrefix("p", 2001:db8:85a3::/48).MACAddr("m", ff:ff:ff:ff:ff:ff).RawJSON("j", [1,2,"x"])).` +
	`Ints64("is", [1<<62, -(1<<62)]).Floats64("fs", [0.1, 1e21]).Times("ts", [t, t0]).Strs("ss", ["é", "q\"", ""])`

var (
	alT  = time.Unix(1700000000, 123456000).UTC()
	alT0 = time.Unix(1700000000, 0).UTC()
)

func alignValues(e *zerolog.Event) *zerolog.Event {
	return e.
		IPPrefix("p4", net.IPNet{IP: net.IP{10, 1, 2, 0}, Mask: net.CIDRMask(24, 32)}).
		IPPrefix("p4s", net.IPNet{IP: net.IP{192, 168, 0, 0}, Mask: net.CIDRMask(16, 32)}).
		IPPrefix("p6", net.IPNet{IP: net.ParseIP("2001:db8:85a3::"), Mask: net.CIDRMask(48, 128)}).
		IPPrefix("p6l", net.IPNet{IP: net.ParseIP("2001:db8::1"), Mask: net.CIDRMask(128, 128)}).
		IPPrefix("pm", net.IPNet{IP: net.ParseIP("::ffff:1.2.3.0"), Mask: net.CIDRMask(120, 128)}).
		IPAddr("i4", net.IP{203, 0, 113, 9}).
		IPAddr("i6", net.ParseIP("2001:db8::ff00:42:8329")).
		MACAddr("m", net.HardwareAddr{0xde, 0xad, 0xbe, 0xef, 0x00, 0x01}).
		Hex("h", []byte("\x00\x01\x7f\x80\xfe\xff0123456789abcd")).
		RawJSON("j", []byte(`{"k":[1e5,-0.5,"é"]}`)).
		RawCBOR("c", []byte{0x83, 1, 2, 3}).
		Bytes("b", []byte("a\"b\\c\n\xff\x00 z")).
		Str("s", "q\"uote \\ \n é € \U0001d11e x").
		Time("t", alT).
		Time("t0", alT0).
		Dur("d", 1500*time.Millisecond).
		Float64("f", 0.1).
		Float32("g", 2.5).
		Int64("n", math.MinInt64).
		Uint64("u", math.MaxUint64).
		Int("w", 1<<40).
		Int("x", 70000).
		Int("y", -400).
		Bool("z", true).
		Array("a", zerolog.Arr().IPPrefix(net.IPNet{IP: net.IP{172, 16, 0, 0}, Mask: net.CIDRMask(12, 32)}).IPAddr(net.ParseIP("2001:db8::1")).MACAddr(net.HardwareAddr{0, 1, 2, 3, 4, 5}).Hex([]byte{0xca, 0xfe}).Str("e")).
		Dict("o", zerolog.Dict().IPPrefix("p", net.IPNet{IP: net.ParseIP("2001:db8:85a3::"), Mask: net.CIDRMask(48, 128)}).MACAddr("m", net.HardwareAddr{0xff, 0xff, 0xff, 0xff, 0xff, 0xff}).RawJSON("j", []byte(`[1,2,"x"]`))).
		Ints64("is", []int64{1 << 62, -(1 << 62)}).
		Floats64("fs", []float64{0.1, 1e21}).
		Times("ts", []time.Time{alT, alT0}).
		Strs("ss", []string{"é", "q\"", ""})
}

// alignCase: one program of the sweep (the same list, in the same order, under both builds)
type alignCase struct {
	form   string // "event" (one event) or "stream" (three events)
	pad    int
	tail   int
	chunk  int // 0: decoded from one buffer; otherwise also through a reader delivering chunk bytes per Read
	bound  int // the refill boundary the window is built around (stream offset)
	events []string
}

func (a *alignCase) run(w io.Writer) {
	l := zerolog.New(w)
	pad, tail := strings.Repeat("p", a.pad), strings.Repeat("t", a.tail)
	if a.form == "stream" {
		l.Info().Str("pad", pad).Send()
		alignValues(l.Info()).Send()
		l.Info().Str("tail", tail).Send()
		return
	}
	alignValues(l.Info().Str("pad", pad)).Str("tail", tail).Send()
}

func (a *alignCase) desc(i int) map[string]interface{} {
	m := map[string]interface{}{"align_case": i, "padding_bytes": a.pad, "tail_bytes": a.tail, "refill_boundary_at_stream_offset": a.bound}
	if a.form == "stream" {
		m["program"] = fmt.Sprintf(`l := zerolog.New(w); l.Info().Str("pad", %d x "p").Send(); l.Info().%s.Send(); l.Info().Str("tail", %d x "t").Send(); the three events decoded as one stream`, a.pad, alignValuesSrc, a.tail)
	} else {
		m["program"] = fmt.Sprintf(`zerolog.New(w).Info().Str("pad", %d x "p").%s.Str("tail", %d x "t").Send()`, a.pad, alignValuesSrc, a.tail)
	}
	return m
}

// alignCases builds the list.  blockStart / blockEnd: the stream offsets of the value block when the padding is
// empty, as measured on this build's own output (the JSON build has no use for the window and receives it
// through the binary run's file: see alignPlan).
func alignCases(start, end map[string]int) []alignCase {
	var cs []alignCase
	window := func(form string, k int) {
		b := 4096 * k
		lo, hi := b-end[form]-3, b-start[form]+3
		if lo < 256 {
			lo = 256
		}
		for L := lo; L <= hi; L++ {
			cs = append(cs, alignCase{form: form, pad: L, tail: 4200, bound: b})
		}
	}
	window("event", 1)
	window("stream", 1)
	window("event", 2)
	window("event", 3)
	for _, C := range []int{4, 6, 16, 17, 20, 64, 512} {
		for L := 0; L < C; L++ {
			cs = append(cs, alignCase{form: "event", pad: L, tail: C + 90, chunk: C, bound: C})
		}
	}
	return cs
}

// blockOffsets: where the value block starts and ends in the binary stream for an empty padding (the padding's
// string header is counted as the 3 bytes it has for every length of the windows, 256 .. 65535)
func blockOffsets() (start, end map[string]int) {
	start, end = map[string]int{}, map[string]int{}
	const ref = 300
	for _, form := range []string{"event", "stream"} {
		w := &capture{}
		(&alignCase{form: form, pad: ref, tail: 10}).run(w)
		var all []byte
		for _, b := range w.bufs {
			all = append(all, b...)
		}
		s := bytes.Index(all, []byte("\x62p4"))
		e := bytes.Index(all, []byte("\x64tail"))
		if s < 0 || e < 0 {
			s, e = ref+16, ref+900 // not the binary encoding: a generous window
		}
		start[form], end[form] = s-ref, e-ref
	}
	return
}

type alignPlan struct {
	Start map[string]int `json:"start"`
	End   map[string]int `json:"end"`
}

func withAlignSettings(f func()) {
	oldU, oldI, oldF := zerolog.DurationFieldUnit, zerolog.DurationFieldInteger, zerolog.TimeFieldFormat
	defer func() { zerolog.DurationFieldUnit, zerolog.DurationFieldInteger, zerolog.TimeFieldFormat = oldU, oldI, oldF }()
	zerolog.DurationFieldUnit, zerolog.DurationFieldInteger, zerolog.TimeFieldFormat = time.Millisecond, false, time.RFC3339
	zerolog.SetGlobalLevel(zerolog.TraceLevel)
	f()
}

// ---------------------------------------------------------------- binary run
func alignBinary(c *Ctx) {
	withAlignSettings(func() {
		start, end := blockOffsets()
		plan, _ := json.Marshal(alignPlan{start, end})
		os.WriteFile(filepath.Join(c.Out, "align_plan.json"), plan, 0o644)
		out := newRecWriter(c.Out, "lines_align.jsonl")
		defer out.close()
		cases := alignCases(start, end)
		chunked, differ := 0, 0
		for i := range cases {
			a := &cases[i]
			w := &capture{}
			a.run(w)
			var in []byte
			for _, b := range w.bufs {
				in = append(in, b...)
			}
			dec, derr := decodeFrom(bytes.NewReader(in))
			out.put(mkAlignRec(i, "one buffer (bytes.Reader)", dec, derr))
			if a.chunk > 0 {
				chunked++
				d2, e2 := decodeFrom(&chunkReader{in, a.chunk})
				if !bytes.Equal(d2, dec) || e2 != derr {
					differ++
					out.put(mkAlignRec(i, fmt.Sprintf("a reader delivering %d bytes per Read", a.chunk), d2, e2))
				}
			}
			c.Count(fmt.Sprintf("align %s %d %d %d", a.form, a.bound, a.pad, a.chunk), true)
			c.Hist("align_boundary", fmt.Sprintf("%s@%d", a.form, a.bound))
		}
		c.Res.ExtraCoverage["align_sweep_cases"] = len(cases)
		c.Res.ExtraCoverage["align_sweep_value_block_bytes"] = end["event"] - start["event"]
		c.Res.ExtraCoverage["align_sweep_chunked_decodes"] = chunked
		c.Res.ExtraCoverage["align_sweep_chunked_decodes_not_byte_identical"] = differ
	})
}

// chunkedDecodes: (c) for the generated programs.  bins[i] = the binary line of program i, decs[i] its plain decode.
func chunkedDecodes(c *Ctx, idx []int, bins, decs [][]byte, errs []string) {
	out := newRecWriter(c.Out, "lines_chunk.jsonl")
	defer out.close()
	n, differ := 0, 0
	for j, bin := range bins {
		for _, C := range chunkSizes {
			if C >= len(bin) && C != 4095 {
				continue
			}
			n++
			d, e := decodeFrom(&chunkReader{bin, C})
			if !bytes.Equal(d, decs[j]) || e != errs[j] {
				differ++
				out.put(mkAlignRec(idx[j], fmt.Sprintf("a reader delivering %d bytes per Read", C), d, e))
			}
		}
	}
	// all lines as one stream: the refill boundaries fall wherever they fall
	var all, want []byte
	for j, bin := range bins {
		all = append(all, bin...)
		want = append(want, decs[j]...)
	}
	for _, rd := range []struct {
		name string
		r    io.Reader
	}{{"all lines of the run as one stream, from one buffer", bytes.NewReader(all)}, {"all lines of the run as one stream, 1000 bytes per Read", &chunkReader{all, 1000}}} {
		got, gerr := decodeFrom(rd.r)
		n++
		if bytes.Equal(got, want) && gerr == "" {
			continue
		}
		// report the first line that differs, against its own program
		gl, wl := bytes.SplitAfter(got, []byte("\n")), bytes.SplitAfter(want, []byte("\n"))
		for j := 0; j < len(wl) && j < len(idx); j++ {
			if j >= len(gl) || !bytes.Equal(gl[j], wl[j]) {
				var line []byte
				if j < len(gl) {
					line = gl[j]
				}
				differ++
				out.put(mkAlignRec(idx[j], fmt.Sprintf("%s (this is line %d of the stream)", rd.name, j+1), line, gerr))
				break
			}
		}
	}
	c.Res.ExtraCoverage["chunked_decodes_of_generated_programs"] = n
	c.Res.ExtraCoverage["chunked_decodes_not_byte_identical"] = differ
}

// ---------------------------------------------------------------- variant run
type compareFn func(cs map[string]interface{}, r lineRec, dec, line []byte)

func alignJSON(c *Ctx, parent string, compare compareFn) {
	recs, ok := readRecs(filepath.Join(parent, "lines_align.jsonl"))
	var plan alignPlan
	pb, err := os.ReadFile(filepath.Join(parent, "align_plan.json"))
	if !ok || err != nil || json.Unmarshal(pb, &plan) != nil {
		c.Note("no lines_align.jsonl / align_plan.json in %s: the alignment sweep was not compared", parent)
		return
	}
	compared := 0
	withAlignSettings(func() {
		cases := alignCases(plan.Start, plan.End)
		for i := range cases {
			a := &cases[i]
			rs := recs[i]
			if len(rs) == 0 {
				continue
			}
			w := &capture{}
			a.run(w)
			var lines [][]byte
			for _, b := range w.bufs {
				lines = append(lines, b)
			}
			for _, r := range rs {
				dec := r.decoded()
				cs := a.desc(i)
				cs["decoded_through"] = r.Reader
				compared++
				dl := bytes.SplitAfter(dec, []byte("\n"))
				if n := len(dl); n > 0 && len(dl[n-1]) == 0 {
					dl = dl[:n-1]
				}
				if r.Err != "" || len(dl) != len(lines) {
					cs["decoded"] = clipMid(string(dec))
					c.Violate(Violation{Key: "decoded-not-json", Monitor: "decode-equivalence-alignment", Desc: fmt.Sprintf("the decoder turned %d event(s) of the binary build into %d line(s); error: %q", len(lines), len(dl), r.Err), Case: cs})
					continue
				}
				for k := range lines {
					cs2 := map[string]interface{}{}
					for kk, v := range cs {
						cs2[kk] = v
					}
					cs2["event_of_the_stream"] = k + 1
					cs2["decoded"] = clipMid(string(dl[k]))
					cs2["json_line"] = clipMid(string(lines[k]))
					compare(cs2, lineRec{I: i}, dl[k], lines[k])
				}
			}
		}
	})
	c.Res.ExtraCoverage["align_sweep_compared"] = compared
}

// clipMid shortens the runs of padding in a report
func clipMid(s string) string {
	for _, ch := range []string{"p", "t"} {
		run := strings.Repeat(ch, 64)
		if i := strings.Index(s, run); i >= 0 {
			j := i
			for j < len(s) && s[j] == ch[0] {
				j++
			}
			s = s[:i] + fmt.Sprintf("<%d x %q>", j-i, ch) + s[j:]
		}
	}
	return s
}
