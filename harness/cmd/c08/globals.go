package main

// C08, directed: the configuration globals assigned at RUN TIME.
//
// "For any logging program": a program may assign zerolog's documented customisation points after package
// initialisation - InterfaceMarshalFunc (jsoniter, a redacting marshaller, ...), ErrorMarshalFunc,
// ErrorStackMarshaler, LevelFieldMarshalFunc, the Level*Value texts, TimestampFunc, CallerMarshalFunc, the field
// names, DurationFieldUnit / DurationFieldInteger, TimeFieldFormat - before it creates its loggers, after it, or
// between two events.  Every generated program runs under the values these globals have when the process starts
// (or under values set once for the whole program), so a build that reads one of them only once (binds the value
// it has at init time, at logger creation or at its first use, instead of reading it at the call) is
// indistinguishable there.  The encoders are separate packages: whatever the root package hands over to them
// (the marshal function for Interface values, the duration unit, the time format) must be what the global holds
// at the time of the call in BOTH builds.
//
// Each program below is a short sequence of assignments and events on one destination (a stream of 1 .. 6
// events); the user functions still return valid JSON on one line (json.Marshal inside a wrapper object, the
// HTML-escaping default of encoding/json, a redacting marshaller, a constant, a failing marshaller, a stateful
// one).  Every global touched is restored afterwards.  Binary run: the stream is decoded by the bundled decoder,
// every event checked by the reference parser; variant run: the decode-equivalence monitor compares event k of the
// decoded stream with line k the JSON build writes for the same program.  Go-side only (no model shard: the user
// functions are not part of the model).

import (
	"bytes"
	"encoding/hex"
	"encoding/json"
	"errors"
	"fmt"
	"io"
	"path/filepath"
	"strings"
	"time"

	"github.com/rs/zerolog"
	"verifharness/cborref"
	. "verifharness/hlib"
)

type globProg struct {
	name string
	src  string
	run  func(w io.Writer)
}

// ---- values logged through Interface / Any
type cardNumber string

type gOrder struct {
	ID    int        `json:"id"`
	Card  cardNumber `json:"-"`
	Note  string     `json:"note,omitempty"`
	Items []string   `json:"items"`
}

type gMarshaler struct{ n int }

func (m gMarshaler) MarshalJSON() ([]byte, error) {
	return []byte(fmt.Sprintf(`{"custom":%d}`, m.n)), nil
}

type gStackErr struct{ msg string }

func (e gStackErr) Error() string { return e.msg }

type gObjErr struct{ code int }

func (e gObjErr) Error() string                          { return fmt.Sprintf("code %d", e.code) }
func (e gObjErr) MarshalZerologObject(ev *zerolog.Event) { ev.Int("code", e.code).Str("kind", "obj") }

func gValues() []interface{} {
	f := 2.5
	return []interface{}{
		gOrder{ID: 42, Card: "4111111111111111", Items: []string{"a", "<b>"}},
		cardNumber("4111111111111111"),
		"<b>&</b> \"q\" é",
		map[string]int{"id": 7, "a": 1, "z": 26},
		nil,
		[]interface{}{1, "s", nil, 2.5, true, map[string]interface{}{"k": "<"}},
		&f,
		gMarshaler{3},
		uint64(1) << 63,
		-7,
		struct {
			A int
			B []byte
		}{1, []byte("xyz")},
		time.Unix(1700000000, 123456000).UTC(),
	}
}

// ---- user marshal functions: all deterministic, all answering one line of valid JSON (or an error)
type gMarshal struct {
	name string
	src  string
	mk   func() func(v interface{}) ([]byte, error) // fresh state per program
}

// nilIsNull: kept for the record.  Before the repair "fix: a nil Stringer went through InterfaceMarshalFunc in the JSON
// build" the JSON build sent a nil Stringer to InterfaceMarshalFunc (internal/json AppendStringer -> AppendInterface(nil))
// while the binary build wrote CBOR null without asking it, so nil Stringers were compared only under functions that
// answer null for nil.  Since the repair both builds write null and every function is compared.
func (m *gMarshal) nilIsNull() bool { return true }

func gMarshalFuncs() []gMarshal {
	return []gMarshal{
		{"json.Marshal", "encoding/json.Marshal (escapes <, >, & - unlike the default)", func() func(v interface{}) ([]byte, error) { return json.Marshal }},
		{"wrapper", `func(v) { return json.Marshal(map[string]interface{}{"type": fmt.Sprintf("%T", v), "v": v}) }`, func() func(v interface{}) ([]byte, error) {
			return func(v interface{}) ([]byte, error) {
				return json.Marshal(map[string]interface{}{"type": fmt.Sprintf("%T", v), "v": v})
			}
		}},
		{"redacting", `func(v) { if c, ok := v.(cardNumber); ok { return json.Marshal("****" + last 4) }; return json.Marshal(v) }`, func() func(v interface{}) ([]byte, error) {
			return func(v interface{}) ([]byte, error) {
				if c, ok := v.(cardNumber); ok {
					m := "****"
					if len(c) >= 4 {
						m += string(c[len(c)-4:])
					}
					return json.Marshal(m)
				}
				return json.Marshal(v)
			}
		}},
		{"constant", `func(v) { return []byte("\"[redacted]\""), nil }`, func() func(v interface{}) ([]byte, error) {
			return func(v interface{}) ([]byte, error) { return []byte(`"[redacted]"`), nil }
		}},
		{"failing", `func(v) { return nil, errors.New("no \"marshalling\" today") }`, func() func(v interface{}) ([]byte, error) {
			return func(v interface{}) ([]byte, error) { return nil, errors.New("no \"marshalling\" today") }
		}},
		{"counting", `n := 0; func(v) { n++; b, err := json.Marshal(v); return []byte(fmt.Sprintf("{\"seq\":%d,\"v\":%s}", n, b)), err }`, func() func(v interface{}) ([]byte, error) {
			n := 0
			return func(v interface{}) ([]byte, error) {
				n++
				b, err := json.Marshal(v)
				if err != nil {
					return nil, err
				}
				return []byte(fmt.Sprintf(`{"seq":%d,"v":%s}`, n, b)), nil
			}
		}},
	}
}

// ---- entry points that end in the encoder's AppendInterface (ctx: also a context layer built by the program)
type gEntry struct {
	name string
	src  string
	ctx  func(c zerolog.Context, vals []interface{}) zerolog.Context
	ev   func(e *zerolog.Event, vals []interface{}) *zerolog.Event
}

// nilStringer: the entry logs a nil Stringer (see gMarshal.nilIsNull)
func (en *gEntry) nilStringer() bool { return strings.HasPrefix(en.name, "Stringer(nil)") }

func gkey(i int) string { return fmt.Sprintf("v%d", i) }

func gEntries() []gEntry {
	return []gEntry{
		{"Event.Interface", `e.Interface("v0", x0).Interface("v1", x1)...`, nil, func(e *zerolog.Event, vals []interface{}) *zerolog.Event {
			for i, v := range vals {
				e = e.Interface(gkey(i), v)
			}
			return e
		}},
		{"Event.Any", `e.Any("v0", x0).Any("v1", x1)...`, nil, func(e *zerolog.Event, vals []interface{}) *zerolog.Event {
			for i, v := range vals {
				e = e.Any(gkey(i), v)
			}
			return e
		}},
		{"Context.Interface/Any + Event.Interface", `l = l.With().Interface("c0", x0).Any("c1", x1)....Logger(); e.Interface("v0", x0)`, func(c zerolog.Context, vals []interface{}) zerolog.Context {
			for i, v := range vals {
				if i%2 == 0 {
					c = c.Interface(fmt.Sprintf("c%d", i), v)
				} else {
					c = c.Any(fmt.Sprintf("c%d", i), v)
				}
			}
			return c
		}, func(e *zerolog.Event, vals []interface{}) *zerolog.Event { return e.Interface("v0", vals[0]) }},
		{"Arr().Interface", `a := Arr(); a.Interface(x0).Interface(x1)...; e.Array("a", a)`, func(c zerolog.Context, vals []interface{}) zerolog.Context {
			return c.Array("ca", zerolog.Arr().Interface(vals[0]).Interface(vals[1]))
		}, func(e *zerolog.Event, vals []interface{}) *zerolog.Event {
			a := zerolog.Arr()
			for _, v := range vals {
				a = a.Interface(v)
			}
			return e.Array("a", a)
		}},
		{"Dict().Interface", `d := Dict(); d.Interface("v0", x0)...; e.Dict("d", d)`, nil, func(e *zerolog.Event, vals []interface{}) *zerolog.Event {
			d := zerolog.Dict()
			for i, v := range vals {
				d = d.Interface(gkey(i), v)
			}
			return e.Dict("d", d.Dict("inner", zerolog.Dict().Any("x", vals[0])))
		}},
		{"Fields(slice)", `e.Fields([]interface{}{"v0", x0, "v1", x1, ...})`, func(c zerolog.Context, vals []interface{}) zerolog.Context {
			return c.Fields([]interface{}{"cf0", vals[0], "cf1", vals[1]})
		}, func(e *zerolog.Event, vals []interface{}) *zerolog.Event {
			var kv []interface{}
			for i, v := range vals {
				kv = append(kv, gkey(i), v)
			}
			return e.Fields(kv)
		}},
		{"Fields(map)", `e.Fields(map[string]interface{}{"v0": x0, "v1": x1, ...})`, nil, func(e *zerolog.Event, vals []interface{}) *zerolog.Event {
			m := map[string]interface{}{}
			for i, v := range vals {
				m[gkey(i)] = v
			}
			return e.Fields(m)
		}},
		{"Stringer(nil) / Stringers", `e.Stringer("s", nil).Stringers("ss", []fmt.Stringer{nil, strer{"x"}}).Interface("v0", x0)`, nil, func(e *zerolog.Event, vals []interface{}) *zerolog.Event {
			return e.Stringer("s", nil).Stringers("ss", []fmt.Stringer{nil, strer{"x"}}).Interface("v0", vals[0])
		}},
		{"Err/AnErr/Errs/Fields(error) with ErrorMarshalFunc answering the value", `ErrorMarshalFunc = func(err) { return err.(valErr).v }; e.AnErr("v0", valErr{x0}).Errs("es", []error{valErr{x0}, valErr{x1}}).Fields([]interface{}{"f", valErr{x2}}).Err(valErr{x3})`, nil, func(e *zerolog.Event, vals []interface{}) *zerolog.Event {
			old := zerolog.ErrorMarshalFunc
			defer func() { zerolog.ErrorMarshalFunc = old }()
			zerolog.ErrorMarshalFunc = func(err error) interface{} {
				if x, ok := err.(valErr); ok {
					return x.v
				}
				return err
			}
			return e.AnErr("v0", valErr{vals[0]}).Errs("es", []error{valErr{vals[0]}, valErr{vals[3]}}).Fields([]interface{}{"f", valErr{vals[5]}}).Err(valErr{vals[7]})
		}},
		{"Stack().Err with ErrorStackMarshaler answering the value", `ErrorStackMarshaler = func(err) { return x0 }; e.Stack().Err(errors.New("boom"))`, nil, func(e *zerolog.Event, vals []interface{}) *zerolog.Event {
			old := zerolog.ErrorStackMarshaler
			defer func() { zerolog.ErrorStackMarshaler = old }()
			zerolog.ErrorStackMarshaler = func(err error) interface{} { return vals[0] }
			return e.Stack().Err(errors.New("boom"))
		}},
	}
}

// the globals a program below may touch: saved before and restored after every program
type gSaved struct {
	iface   func(v interface{}) ([]byte, error)
	errM    func(err error) interface{}
	stackM  func(err error) interface{}
	levelM  func(l zerolog.Level) string
	ts      func() time.Time
	caller  func(pc uintptr, file string, line int) string
	unit    time.Duration
	useInt  bool
	tf      string
	names   [6]string
	lvalues [3]string
}

func gSave() gSaved {
	return gSaved{zerolog.InterfaceMarshalFunc, zerolog.ErrorMarshalFunc, zerolog.ErrorStackMarshaler, zerolog.LevelFieldMarshalFunc, zerolog.TimestampFunc, zerolog.CallerMarshalFunc,
		zerolog.DurationFieldUnit, zerolog.DurationFieldInteger, zerolog.TimeFieldFormat,
		[6]string{zerolog.LevelFieldName, zerolog.MessageFieldName, zerolog.ErrorFieldName, zerolog.TimestampFieldName, zerolog.ErrorStackFieldName, zerolog.CallerFieldName},
		[3]string{zerolog.LevelInfoValue, zerolog.LevelWarnValue, zerolog.LevelErrorValue}}
}

func (s gSaved) restore() {
	zerolog.InterfaceMarshalFunc, zerolog.ErrorMarshalFunc, zerolog.ErrorStackMarshaler, zerolog.LevelFieldMarshalFunc, zerolog.TimestampFunc, zerolog.CallerMarshalFunc = s.iface, s.errM, s.stackM, s.levelM, s.ts, s.caller
	zerolog.DurationFieldUnit, zerolog.DurationFieldInteger, zerolog.TimeFieldFormat = s.unit, s.useInt, s.tf
	zerolog.LevelFieldName, zerolog.MessageFieldName, zerolog.ErrorFieldName, zerolog.TimestampFieldName, zerolog.ErrorStackFieldName, zerolog.CallerFieldName = s.names[0], s.names[1], s.names[2], s.names[3], s.names[4], s.names[5]
	zerolog.LevelInfoValue, zerolog.LevelWarnValue, zerolog.LevelErrorValue = s.lvalues[0], s.lvalues[1], s.lvalues[2]
}

func globalsPrograms() []globProg {
	var ps []globProg
	vals := gValues()
	entries := gEntries()
	funcs := gMarshalFuncs()
	newLogger := func(w io.Writer, en *gEntry) zerolog.Logger {
		l := zerolog.New(w)
		if en.ctx != nil {
			l = en.ctx(l.With(), vals).Logger()
		}
		return l
	}
	valuesSrc := `x0..x11 = gOrder{ID: 42, Card: "4111111111111111", Items: {"a", "<b>"}} (Card has the tag json:"-"), cardNumber("4111111111111111"), "<b>&</b> \"q\" é", map[string]int{"id": 7, "a": 1, "z": 26}, nil, []interface{}{1, "s", nil, 2.5, true, map{"k": "<"}}, &2.5, a json.Marshaler answering {"custom":3}, uint64(1)<<63, -7, struct{A int; B []byte}{1, "xyz"}, time.Unix(1700000000, 123456000).UTC()`
	// (1) InterfaceMarshalFunc x entry point x when it is assigned
	for fi := range funcs {
		mf := &funcs[fi]
		for ei := range entries {
			en := &entries[ei]
			if en.nilStringer() && !mf.nilIsNull() {
				continue
			}
			// (a) assigned before the logger exists
			ps = append(ps, globProg{fmt.Sprintf("InterfaceMarshalFunc=%s before New; %s", mf.name, en.name),
				fmt.Sprintf(`zerolog.InterfaceMarshalFunc = %s; l := zerolog.New(w); e := l.Info(); %s; e.Msg("m"); restore    [%s]`, mf.src, en.src, valuesSrc),
				func(w io.Writer) {
					zerolog.InterfaceMarshalFunc = mf.mk()
					l := newLogger(w, en)
					en.ev(l.Info(), vals).Msg("m")
				}})
			// (b) one logger, the global changes between its events: default, f, default again
			ps = append(ps, globProg{fmt.Sprintf("InterfaceMarshalFunc: default, then %s, then restored, on one logger; %s", mf.name, en.name),
				fmt.Sprintf(`l := zerolog.New(w); emit := func() { e := l.Info(); %s; e.Msg("m") }; emit(); old := zerolog.InterfaceMarshalFunc; zerolog.InterfaceMarshalFunc = %s; emit(); zerolog.InterfaceMarshalFunc = old; emit()    [%s]`, en.src, mf.src, valuesSrc),
				func(w io.Writer) {
					l := newLogger(w, en)
					emit := func() { en.ev(l.Info(), vals).Msg("m") }
					emit()
					old := zerolog.InterfaceMarshalFunc
					zerolog.InterfaceMarshalFunc = mf.mk()
					emit()
					zerolog.InterfaceMarshalFunc = old
					emit()
				}})
		}
		// (c) a second user function replaces the first between two events; a child logger created in between
		next := &funcs[(fi+1)%len(funcs)]
		ps = append(ps, globProg{fmt.Sprintf("InterfaceMarshalFunc: %s, then %s, child logger in between", mf.name, next.name),
			fmt.Sprintf(`zerolog.InterfaceMarshalFunc = %s; l := zerolog.New(w).With().Interface("c", x0).Logger(); l.Info().Interface("v", x1).Any("w", x2).Send(); zerolog.InterfaceMarshalFunc = %s; l.Warn().Interface("v", x1).Any("w", x2).Send(); k := l.With().Any("k", x3).Logger(); k.Error().Array("a", Arr().Interface(x0)).Fields([]interface{}{"f", x10}).Send(); restore; k.Info().Interface("v", x1).Send()    [%s]`, mf.src, next.src, valuesSrc),
			func(w io.Writer) {
				def := zerolog.InterfaceMarshalFunc
				zerolog.InterfaceMarshalFunc = mf.mk()
				l := zerolog.New(w).With().Interface("c", vals[0]).Logger()
				l.Info().Interface("v", vals[1]).Any("w", vals[2]).Send()
				zerolog.InterfaceMarshalFunc = next.mk()
				l.Warn().Interface("v", vals[1]).Any("w", vals[2]).Send()
				k := l.With().Any("k", vals[3]).Logger()
				k.Error().Array("a", zerolog.Arr().Interface(vals[0])).Fields([]interface{}{"f", vals[10]}).Send()
				zerolog.InterfaceMarshalFunc = def
				k.Info().Interface("v", vals[1]).Send()
			}})
		// (d) assigned in the middle of an event: by a Func callback, by an object marshaler, by a hook
		ps = append(ps, globProg{fmt.Sprintf("InterfaceMarshalFunc = %s assigned inside Func / Object / a hook of the event being built", mf.name),
			fmt.Sprintf(`f := %s; l := zerolog.New(w); l.Info().Interface("a", x0).Func(func(e *Event) { zerolog.InterfaceMarshalFunc = f }).Interface("b", x0).Msg("func"); restore; l.Info().Any("a", x1).Object("o", obj whose MarshalZerologObject assigns f and logs e.Interface("in", x1)).Any("b", x1).Msg("object"); restore; h := l.Hook(hook assigning f and adding e.Interface("hooked", x2)); h.Info().Interface("a", x2).Msg("hook"); h.Info().Interface("a", x2).Msg("after")    [%s]`, mf.src, valuesSrc),
			func(w io.Writer) {
				def := zerolog.InterfaceMarshalFunc
				f := mf.mk()
				l := zerolog.New(w)
				l.Info().Interface("a", vals[0]).Func(func(e *zerolog.Event) { zerolog.InterfaceMarshalFunc = f }).Interface("b", vals[0]).Msg("func")
				zerolog.InterfaceMarshalFunc = def
				l.Info().Any("a", vals[1]).Object("o", gAssigningObj{f, vals[1]}).Any("b", vals[1]).Msg("object")
				zerolog.InterfaceMarshalFunc = def
				h := l.Hook(zerolog.HookFunc(func(e *zerolog.Event, lv zerolog.Level, msg string) {
					zerolog.InterfaceMarshalFunc = f
					e.Interface("hooked", vals[2])
				}))
				h.Info().Interface("a", vals[2]).Msg("hook")
				h.Info().Interface("a", vals[2]).Msg("after")
			}})
	}
	// (2) ErrorMarshalFunc / ErrorStackMarshaler assigned at run time, changing between events
	plain, wrapped := errors.New("plain \"error\""), fmt.Errorf("outer: %w", errors.New("inner"))
	errFuncs := []struct {
		name, src string
		f         func(err error) interface{}
	}{
		{"text", `func(err) { return "E:" + err.Error() }`, func(err error) interface{} { return "E:" + err.Error() }},
		{"wrapping error", `func(err) { return fmt.Errorf("wrapped(%w)", err) }`, func(err error) interface{} { return fmt.Errorf("wrapped(%w)", err) }},
		{"struct (through Interface)", `func(err) { return struct{Msg string; Len int}{err.Error(), len(err.Error())} }`, func(err error) interface{} {
			return struct {
				Msg string
				Len int
			}{err.Error(), len(err.Error())}
		}},
		{"object marshaler", `func(err) { return gObjErr{len(err.Error())} }`, func(err error) interface{} { return gObjErr{len(err.Error())} }},
		{"map (through Interface)", `func(err) { return map[string]interface{}{"error": err.Error(), "chain": errors.Unwrap(err) != nil} }`, func(err error) interface{} {
			return map[string]interface{}{"error": err.Error(), "chain": errors.Unwrap(err) != nil}
		}},
	}
	errEvent := func(l zerolog.Logger, msg string) {
		l.Error().Err(plain).AnErr("e2", wrapped).Errs("es", []error{plain, wrapped, gObjErr{5}}).Fields([]interface{}{"fe", wrapped, "fes", []error{plain, wrapped}}).
			Array("ae", zerolog.Arr().Err(plain).Err(wrapped)).Dict("de", zerolog.Dict().Err(plain).AnErr("x", wrapped)).Msg(msg)
	}
	const errEventSrc = `l.Error().Err(plain).AnErr("e2", wrapped).Errs("es", []error{plain, wrapped, gObjErr{5}}).Fields([]interface{}{"fe", wrapped, "fes", []error{plain, wrapped}}).Array("ae", Arr().Err(plain).Err(wrapped)).Dict("de", Dict().Err(plain).AnErr("x", wrapped)).Msg(..)`
	for i := range errFuncs {
		ef := &errFuncs[i]
		nx := &errFuncs[(i+2)%len(errFuncs)]
		ps = append(ps, globProg{"ErrorMarshalFunc: default, then " + ef.name + ", then " + nx.name + ", then restored, on one logger with an error in its context",
			fmt.Sprintf(`l := zerolog.New(w).With().Err(plain).AnErr("ce", wrapped).Logger(); ev := func(m) { %s }; ev("default"); zerolog.ErrorMarshalFunc = %s; ev("first"); k := l.With().AnErr("ke", plain).Logger(); zerolog.ErrorMarshalFunc = %s; ev on k ("second"); restore; ev on k ("restored")`, errEventSrc, ef.src, nx.src),
			func(w io.Writer) {
				old := zerolog.ErrorMarshalFunc
				l := zerolog.New(w).With().Err(plain).AnErr("ce", wrapped).Logger()
				errEvent(l, "default")
				zerolog.ErrorMarshalFunc = ef.f
				errEvent(l, "first")
				k := l.With().AnErr("ke", plain).Logger()
				zerolog.ErrorMarshalFunc = nx.f
				errEvent(k, "second")
				zerolog.ErrorMarshalFunc = old
				errEvent(k, "restored")
			}})
		ps = append(ps, globProg{"ErrorStackMarshaler: nil, then " + ef.name + ", then " + nx.name + ", then nil",
			fmt.Sprintf(`l := zerolog.New(w); ev := func(m) { l.Error().Stack().Err(gStackErr{"boom"}).Msg(m); l.Warn().Stack().AnErr("other", plain).Err(plain).Msg(m) }; ev("nil"); zerolog.ErrorStackMarshaler = %s; ev("first"); zerolog.ErrorStackMarshaler = %s; zerolog.ErrorStackFieldName = "trace"; ev("second"); restore; ev("restored")`, ef.src, nx.src),
			func(w io.Writer) {
				l := zerolog.New(w)
				ev := func(m string) {
					l.Error().Stack().Err(gStackErr{"boom"}).Msg(m)
					l.Warn().Stack().AnErr("other", plain).Err(plain).Msg(m)
				}
				oldM, oldN := zerolog.ErrorStackMarshaler, zerolog.ErrorStackFieldName
				ev("nil")
				zerolog.ErrorStackMarshaler = ef.f
				ev("first")
				zerolog.ErrorStackMarshaler = nx.f
				zerolog.ErrorStackFieldName = "trace"
				ev("second")
				zerolog.ErrorStackMarshaler, zerolog.ErrorStackFieldName = oldM, oldN
				ev("restored")
			}})
	}
	// (3) LevelFieldMarshalFunc, the level texts and the field names
	levelEvents := func(l zerolog.Logger, msg string) {
		l.Trace().Int("n", 1).Msg(msg)
		l.Info().Int("n", 2).Msg(msg)
		l.Warn().Err(plain).Msg(msg)
		l.WithLevel(zerolog.ErrorLevel).Int("n", 3).Msg(msg)
		l.Log().Int("n", 4).Msg(msg)
		l.Err(plain).Timestamp().Send()
	}
	const levelEventsSrc = `l.Trace().Int("n", 1).Msg(m); l.Info().Int("n", 2).Msg(m); l.Warn().Err(plain).Msg(m); l.WithLevel(ErrorLevel).Int("n", 3).Msg(m); l.Log().Int("n", 4).Msg(m); l.Err(plain).Timestamp().Send()`
	fixedNow := time.Unix(1700000000, 0).UTC()
	ps = append(ps, globProg{"LevelFieldMarshalFunc / Level*Value / field names assigned between events",
		fmt.Sprintf(`TimestampFunc = a frozen clock; l := zerolog.New(w).With().Str("svc", "x").Logger(); ev := func(m) { %s }; ev("default"); zerolog.LevelFieldMarshalFunc = func(l Level) string { return strings.ToUpper(l.String()) + "!" }; ev("upper"); zerolog.LevelFieldMarshalFunc = func(l Level) string { return strconv.Itoa(int(l)) }; ev("numeric"); restore it; zerolog.LevelInfoValue, LevelWarnValue, LevelErrorValue = "INF", "W\"RN", "é"; ev("values"); zerolog.LevelFieldName, MessageFieldName, ErrorFieldName, TimestampFieldName = "lvl", "msg", "err", "ts"; ev("names"); zerolog.LevelFieldName = ""; ev("no level field"); restore; ev("restored")`, levelEventsSrc),
		func(w io.Writer) {
			zerolog.TimestampFunc = func() time.Time { return fixedNow }
			l := zerolog.New(w).With().Str("svc", "x").Logger()
			oldL := zerolog.LevelFieldMarshalFunc
			levelEvents(l, "default")
			zerolog.LevelFieldMarshalFunc = func(lv zerolog.Level) string { return strings.ToUpper(lv.String()) + "!" }
			levelEvents(l, "upper")
			zerolog.LevelFieldMarshalFunc = func(lv zerolog.Level) string { return fmt.Sprintf("%d", int(lv)) }
			levelEvents(l, "numeric")
			zerolog.LevelFieldMarshalFunc = oldL
			zerolog.LevelInfoValue, zerolog.LevelWarnValue, zerolog.LevelErrorValue = "INF", "W\"RN", "é"
			levelEvents(l, "values")
			zerolog.LevelFieldName, zerolog.MessageFieldName, zerolog.ErrorFieldName, zerolog.TimestampFieldName = "lvl", "msg", "err", "ts"
			levelEvents(l, "names")
			zerolog.LevelFieldName = ""
			levelEvents(l, "no level field")
		}})
	// (4) TimestampFunc, TimeFieldFormat, DurationFieldUnit / DurationFieldInteger, CallerMarshalFunc between events
	instants := []time.Time{time.Unix(1700000000, 0).UTC(), time.Unix(1700000001, 250000000).UTC(), time.Unix(1600000000, 123456000).UTC(), time.Unix(1700086400, 999999000).UTC(), time.Unix(86400, 1000).UTC()}
	durs := []time.Duration{1500 * time.Millisecond, 90 * time.Second, -250 * time.Microsecond, 36 * time.Hour, 1}
	timeEvent := func(l zerolog.Logger, t time.Time, msg string) {
		l.Info().Timestamp().Time("t", t).Times("ts", []time.Time{t, instants[0]}).Dur("d", durs[0]).Durs("ds", durs).TimeDiff("td", t, instants[0]).
			Array("a", zerolog.Arr().Time(t).Dur(durs[1])).Dict("o", zerolog.Dict().Time("t", t).Dur("d", durs[2]).Timestamp()).Fields([]interface{}{"ft", t, "fd", durs[3], "fds", durs[:2], "fts", []time.Time{t}}).Msg(msg)
	}
	const timeEventSrc = `l.Info().Timestamp().Time("t", T).Times("ts", []time.Time{T, T0}).Dur("d", 1.5s).Durs("ds", {1.5s, 90s, -250us, 36h, 1ns}).TimeDiff("td", T, T0).Array("a", Arr().Time(T).Dur(90s)).Dict("o", Dict().Time("t", T).Dur("d", -250us).Timestamp()).Fields([]interface{}{"ft", T, "fd", 36h, "fds", []time.Duration{1.5s, 90s}, "fts", []time.Time{T}}).Msg(m)`
	ps = append(ps, globProg{"TimestampFunc a moving clock, DurationFieldUnit / DurationFieldInteger / TimeFieldFormat changing between events, one logger with a timestamp hook and time / duration fields in its context",
		fmt.Sprintf(`i := 0; zerolog.TimestampFunc = func() time.Time { i++; return instants[i %% 5] } (whole microseconds, UTC); l := zerolog.New(w).With().Timestamp().Time("ct", T0).Dur("cd", 1.5s).Logger(); ev := func(T, m) { %s }; for each step: ev under (unit, integer, format) = (ms, false, RFC3339), (s, false, RFC3339Nano), (us, true, RFC3339 with milliseconds), (ns, true, RFC3339), (min, false, RFC3339Nano), (ms, false, RFC3339); a child logger k := l.With().Dur("kd", 90s).Time("kt", T).Logger() is created under each setting and logs one event as well`, timeEventSrc),
		func(w io.Writer) {
			i := 0
			zerolog.TimestampFunc = func() time.Time { i++; return instants[i%len(instants)] }
			l := zerolog.New(w).With().Timestamp().Time("ct", instants[0]).Dur("cd", durs[0]).Logger()
			steps := []struct {
				unit   time.Duration
				useInt bool
				tf     string
			}{{time.Millisecond, false, time.RFC3339}, {time.Second, false, time.RFC3339Nano}, {time.Microsecond, true, "2006-01-02T15:04:05.000Z07:00"}, {time.Nanosecond, true, time.RFC3339},
				{time.Minute, false, time.RFC3339Nano}, {time.Millisecond, false, time.RFC3339}}
			for si, st := range steps {
				zerolog.DurationFieldUnit, zerolog.DurationFieldInteger, zerolog.TimeFieldFormat = st.unit, st.useInt, st.tf
				t := instants[(si+1)%len(instants)]
				timeEvent(l, t, fmt.Sprintf("step %d", si))
				k := l.With().Dur("kd", durs[1]).Time("kt", t).Logger()
				k.Warn().Dur("d", durs[3]).Time("t", t).Msg("child")
			}
		}})
	ps = append(ps, globProg{"CallerMarshalFunc / CallerFieldName assigned between events",
		`l := zerolog.New(w).With().Caller().Logger(); zerolog.CallerMarshalFunc = func(pc, file, line) string { return "A:" + filepath.Base(file) }; l.Info().Msg("a"); zerolog.CallerMarshalFunc = func(pc, file, line) string { return "B:" + filepath.Ext(file) }; zerolog.CallerFieldName = "src"; l.Info().Caller().Msg("b")`,
		func(w io.Writer) {
			l := zerolog.New(w).With().Caller().Logger()
			zerolog.CallerMarshalFunc = func(pc uintptr, file string, line int) string { return "A:" + filepath.Base(file) }
			l.Info().Msg("a")
			zerolog.CallerMarshalFunc = func(pc uintptr, file string, line int) string { return "B:" + filepath.Ext(file) }
			zerolog.CallerFieldName = "src"
			l.Info().Caller().Msg("b")
		}})
	return ps
}

// gAssigningObj: an object marshaler that installs a marshal function while the event is being built
type gAssigningObj struct {
	f func(v interface{}) ([]byte, error)
	v interface{}
}

func (o gAssigningObj) MarshalZerologObject(e *zerolog.Event) {
	zerolog.InterfaceMarshalFunc = o.f
	e.Interface("in", o.v)
}

func (p *globProg) runRestoring(w io.Writer) {
	saved := gSave()
	defer saved.restore()
	zerolog.DurationFieldUnit, zerolog.DurationFieldInteger, zerolog.TimeFieldFormat = time.Millisecond, false, time.RFC3339
	zerolog.SetGlobalLevel(zerolog.TraceLevel)
	p.run(w)
}

func (p *globProg) desc(i int) map[string]interface{} {
	return map[string]interface{}{"globals_program": i, "name": p.name, "program": p.src,
		"note": "the globals are assigned at run time (after package initialisation) and restored after the program; the events of the program are compared one by one"}
}

// ---------------------------------------------------------------- binary run
func globalsBinary(c *Ctx) {
	out := newRecWriter(c.Out, "lines_globals.jsonl")
	defer out.close()
	ps := globalsPrograms()
	events := 0
	for i := range ps {
		p := &ps[i]
		w := &capture{}
		p.runRestoring(w)
		var in []byte
		for k, b := range w.bufs {
			if _, rest, err := cborref.ParseItem(b); err != nil || len(rest) != 0 {
				cs := p.desc(i)
				cs["event_of_the_stream"] = k + 1
				c.Violate(Violation{Key: "cbor-event-malformed", Monitor: "rfc8949-reference-parser", Desc: "binary build: the event is not exactly one well-formed CBOR item", Case: cs, Observed: hex.EncodeToString(b)})
			}
			in = append(in, b...)
		}
		events += len(w.bufs)
		dec, derr := decodeFrom(bytes.NewReader(in))
		out.put(mkAlignRec(i, fmt.Sprintf("%d events as one stream, from one buffer", len(w.bufs)), dec, derr))
		c.Count("globals "+p.name, true)
		c.Hist("globals_program_events", fmt.Sprint(len(w.bufs)))
	}
	c.Res.ExtraCoverage["globals_programs"] = len(ps)
	c.Res.ExtraCoverage["globals_program_events"] = events
}

// ---------------------------------------------------------------- variant run
func globalsJSON(c *Ctx, parent string, compare compareFn) {
	recs, ok := readRecs(filepath.Join(parent, "lines_globals.jsonl"))
	if !ok {
		c.Note("no lines_globals.jsonl in %s: the run-time-globals programs were not compared", parent)
		return
	}
	ps := globalsPrograms()
	compared := 0
	for i := range ps {
		p := &ps[i]
		rs := recs[i]
		if len(rs) == 0 {
			continue
		}
		w := &capture{}
		p.runRestoring(w)
		lines := w.bufs
		for _, r := range rs {
			dec := r.decoded()
			cs := p.desc(i)
			dl := bytes.SplitAfter(dec, []byte("\n"))
			if n := len(dl); n > 0 && len(dl[n-1]) == 0 {
				dl = dl[:n-1]
			}
			if r.Err != "" || len(dl) != len(lines) {
				cs["decoded"] = clip(string(dec))
				c.Violate(Violation{Key: "decoded-not-json", Monitor: "decode-equivalence-runtime-globals", Desc: fmt.Sprintf("the decoder turned the binary build's stream into %d line(s) where the JSON build writes %d event(s); error: %q", len(dl), len(lines), r.Err), Case: cs})
				continue
			}
			for k := range lines {
				cs2 := p.desc(i)
				cs2["event_of_the_stream"] = k + 1
				cs2["decoded"] = string(dl[k])
				cs2["json_line"] = string(lines[k])
				compared++
				compare(cs2, lineRec{I: i}, dl[k], lines[k])
			}
		}
	}
	c.Res.ExtraCoverage["globals_events_compared"] = compared
}
