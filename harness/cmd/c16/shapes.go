package main

// Directed sweep: values of every JSON shape under every documented special field name.
//
// The property quantifies over "any event the JSON logger can emit ... (every value type, nesting)"
// and says of a field that is not a string or a number: "other values as compact JSON".  globals.go
// documents six names the library itself writes: ErrorStackFieldName ("stack", written by
// Err()/AnErr() after Stack() with whatever the user's ErrorStackMarshaler returns), ErrorFieldName,
// CallerFieldName, MessageFieldName, LevelFieldName, TimestampFieldName.  A renderer that treats one
// of these names specially has to do so for every value that can stand there, not only for the value
// the library's own helpers put there; so each name (and an ordinary name, and a renamed
// ErrorStackFieldName with the value under the new and under the old name) is given
//   * scalars (plain / quoted strings, integer and exponent numbers, booleans, null),
//   * objects (the frame a stack marshaler such as pkgerrors.MarshalStack produces: func / source /
//     line; the same with a numeric line, with only func, with other keys, empty, with members that
//     are not strings; nested),
//   * arrays: empty; of one, two, three frames of each kind; frames of different kinds in both
//     orders; arrays of scalars; nested arrays,
//   * arrays of frames with ONE element of another shape (number, strings, null, boolean, empty
//     array, array holding a frame, array of scalars, object) at EVERY position of a two- and a
//     three-element array, the frames being of the pkgerrors kind and of the other-keys kind
//     (the stack name gets all of these; the other names the "core" list: every class above, and
//     number / string / null / array-holding-a-frame at every position among pkgerrors frames).
// Each value reaches the event through the public API: Interface(), RawJSON(), the Arr()/Dict()
// builders where the shape can be built with them, and (under the stack name) a user
// ErrorStackMarshaler via Stack().Err(); alone on the event, between other fields next to an error
// field, and from the logger's context; under the default options and under FieldsOrder /
// FieldsExclude / PartsOrder lists that name the field.
//
// No monitor is added: "Write succeeds" (write-panics) and the line check (field-missing,
// value-not-verbatim, ...: the field must stand there once as name=<compact JSON>) are the existing
// ones, and the Coq model predicts the exact bytes.

import (
	"encoding/json"
	"fmt"

	"github.com/rs/zerolog"
)

type shape struct {
	name string
	v    interface{}
	// core: in the list every name is given (every class of shape, every position of the odd element);
	// the other shapes (more kinds of odd element, frames with other keys around it) are given to the
	// stack name only
	core bool
}

type obj = map[string]interface{}
type arr = []interface{}

// frame kinds: 0 = as pkgerrors.MarshalStack (three strings), 1 = numeric line, 2 = func only,
// 3 = other keys, 4 = empty, 5 = members that are not strings
const frameKinds = 6

func frame(kind, i int) obj {
	fn := fmt.Sprintf("main.run%d", i)
	switch kind {
	case 0:
		return obj{"func": fn, "source": "main.go", "line": fmt.Sprint(40 + i)}
	case 1:
		return obj{"func": fn, "source": "pkg/file name.go", "line": json.Number(fmt.Sprint(40 + i))}
	case 2:
		return obj{"func": fn}
	case 3:
		return obj{"function": fn, "file": "main.go"}
	case 4:
		return obj{}
	default:
		return obj{"func": json.Number("7"), "source": arr{"a", nil}, "line": obj{"n": json.Number("1")}}
	}
}

func valueShapes() []shape {
	var out []shape
	add := func(name string, v interface{}) { out = append(out, shape{name, v, true}) }
	// scalars
	add("string-plain", "main.run")
	add("string-quoted", "main.run main.go:42")
	add("integer", json.Number("42"))
	add("number-exponent", json.Number("-0.50E+3"))
	add("true", true)
	add("false", false)
	add("null", nil)
	// objects
	for k := 0; k < frameKinds; k++ {
		add(fmt.Sprintf("object-frame%d", k), frame(k, 0))
	}
	add("object-nested-func", obj{"func": obj{"func": "f"}})
	add("object-holding-stack", obj{"stack": arr{frame(0, 0)}, "func": arr{}})
	// arrays of objects
	add("array-empty", arr{})
	for k := 0; k < frameKinds; k++ {
		add(fmt.Sprintf("array-1-frame%d", k), arr{frame(k, 0)})
	}
	for k := 0; k < 4; k++ {
		add(fmt.Sprintf("array-2-frame%d", k), arr{frame(k, 0), frame(k, 1)})
	}
	add("array-3-frame0", arr{frame(0, 0), frame(0, 1), frame(0, 2)})
	add("array-3-frame1", arr{frame(1, 0), frame(1, 1), frame(1, 2)})
	for _, p := range [][2]int{{0, 3}, {3, 0}, {0, 4}, {4, 0}, {2, 5}, {5, 2}, {0, 1}, {3, 4}} {
		add(fmt.Sprintf("array-frame%d-frame%d", p[0], p[1]), arr{frame(p[0], 0), frame(p[1], 1)})
	}
	// arrays without an object, nested arrays
	add("array-number", arr{json.Number("1")})
	add("array-string-null", arr{"a b", nil})
	add("array-null", arr{nil})
	add("array-of-empty-array", arr{arr{}})
	add("array-of-array-of-frame", arr{arr{frame(0, 0)}})
	add("array-of-array-then-frame", arr{arr{frame(0, 0)}, frame(0, 1)})
	// frames with one element of another shape at every position
	intruders := []shape{
		{"number", json.Number("1"), true},
		{"string", "(truncated)", true},
		{"string-quoted", "... 3 more", false},
		{"null", nil, true},
		{"bool", true, false},
		{"empty-array", arr{}, false},
		{"array-of-frame", arr{frame(0, 9)}, true},
		{"array-of-scalars", arr{json.Number("1"), "a"}, false},
		{"object-other-keys", obj{"note": "elided"}, false},
	}
	for _, base := range []int{0, 3} {
		for n := 2; n <= 3; n++ {
			for p := 0; p < n; p++ {
				for _, in := range intruders {
					a := make(arr, n)
					for i := range a {
						a[i] = frame(base, i)
					}
					a[p] = in.v
					add(fmt.Sprintf("array-%d-frame%d-with-%s-at-%d", n, base, in.name, p), a)
					out[len(out)-1].core = base == 0 && in.core
				}
			}
		}
	}
	return out
}

// buildable: can the value be put on an event with Arr() / Dict() (a flat array whose elements are
// strings, numbers, booleans, null or flat objects; or a flat object)?
func flatObj(o obj) bool {
	for _, v := range o {
		switch v.(type) {
		case string, json.Number, bool:
		default:
			return false
		}
	}
	return true
}

func buildable(v interface{}) bool {
	switch x := v.(type) {
	case obj:
		return flatObj(x)
	case arr:
		for _, e := range x {
			switch y := e.(type) {
			case string, json.Number, bool, nil:
			case obj:
				if !flatObj(y) {
					return false
				}
			default:
				return false
			}
		}
		return true
	}
	return false
}

func buildDict(o obj) *zerolog.Event {
	d := zerolog.Dict()
	// the order in which a stack marshaler's frame is written: func, line, source, then the rest
	for _, k := range []string{"func", "line", "source", "function", "file", "note"} {
		switch y := o[k].(type) {
		case string:
			d = d.Str(k, y)
		case json.Number:
			d = d.RawJSON(k, []byte(y))
		case bool:
			d = d.Bool(k, y)
		}
	}
	return d
}

// shapeAdder puts the value under name on an event / a context, through the producer chosen by how.
type shapeAdder struct {
	how string
	ev  func(e *zerolog.Event) *zerolog.Event
	ctx func(c zerolog.Context) zerolog.Context
}

func adderFor(name string, v interface{}, how int) shapeAdder {
	compact := []byte(compactJSON(v, false))
	switch {
	case how%3 == 1 && buildable(v):
		if o, ok := v.(obj); ok {
			return shapeAdder{"Dict",
				func(e *zerolog.Event) *zerolog.Event { return e.Dict(name, buildDict(o)) },
				func(c zerolog.Context) zerolog.Context { return c.Dict(name, buildDict(o)) }}
		}
		mk := func() *zerolog.Array {
			a := zerolog.Arr()
			for _, e := range v.(arr) {
				switch y := e.(type) {
				case string:
					a = a.Str(y)
				case json.Number:
					a = a.RawJSON([]byte(y))
				case bool:
					a = a.Bool(y)
				case nil:
					a = a.Interface(nil)
				case obj:
					a = a.Dict(buildDict(y))
				}
			}
			return a
		}
		return shapeAdder{"Array",
			func(e *zerolog.Event) *zerolog.Event { return e.Array(name, mk()) },
			func(c zerolog.Context) zerolog.Context { return c.Array(name, mk()) }}
	case how%3 == 2:
		return shapeAdder{"RawJSON",
			func(e *zerolog.Event) *zerolog.Event { return e.RawJSON(name, compact) },
			func(c zerolog.Context) zerolog.Context { return c.RawJSON(name, compact) }}
	}
	return shapeAdder{"Interface",
		func(e *zerolog.Event) *zerolog.Event { return e.Interface(name, v) },
		func(c zerolog.Context) zerolog.Context { return c.Interface(name, v) }}
}

// shapeSweep emits the cases.  emit is runC16's; logged / def as there.
func shapeSweep(emit func(cs *Case, class string), logged func(f func(l zerolog.Logger)) []byte, def func(ev []byte) *Case, hist func(name, bucket string)) {
	shapes := valueShapes()
	boom := fmt.Errorf("boom")
	type nm struct {
		name    string
		every   int    // 0 = every shape, 1 = every core shape, k = every k-th core shape (rotating with the name)
		stackAs string // the value of zerolog.ErrorStackFieldName while the event is logged and rendered ("" = default)
	}
	names := []nm{
		{zerolog.ErrorStackFieldName, 0, ""},
		{zerolog.ErrorFieldName, 1, ""},
		{zerolog.CallerFieldName, 1, ""},
		{zerolog.MessageFieldName, 1, ""},
		{zerolog.LevelFieldName, 1, ""},
		{zerolog.TimestampFieldName, 1, ""},
		{"k", 1, ""},
		{"trace", 1, "trace"}, // a renamed ErrorStackFieldName
		{"stack", 4, "trace"}, // the default name while the stack name is another one
	}
	for ni, n := range names {
		savedStack := zerolog.ErrorStackFieldName
		if n.stackAs != "" {
			zerolog.ErrorStackFieldName = n.stackAs
		}
		isStackName := n.name == zerolog.ErrorStackFieldName
		for si, sh := range shapes {
			if n.every > 0 && (!sh.core || (si+ni)%n.every != 0) {
				continue
			}
			v := sh.v
			ad := adderFor(n.name, v, si+ni)
			emb := (si/3 + ni) % 4
			if emb == 3 && !isStackName {
				emb = si % 3
			}
			var ev []byte
			switch emb {
			case 0: // alone
				ev = logged(func(l zerolog.Logger) { ad.ev(l.Log()).Send() })
			case 1: // between other fields, next to an error field
				ev = logged(func(l zerolog.Logger) {
					e := ad.ev(l.Error().Str("a", "1")).Str("zz", "x y")
					if n.name != zerolog.ErrorFieldName {
						e = e.Err(boom)
					}
					e.Msg("failed")
				})
			case 2: // from the logger's context
				ev = logged(func(l zerolog.Logger) {
					ll := ad.ctx(l.With().Str("a", "1")).Logger()
					ll.Warn().Str("zz", "x y").Msg("ctx")
				})
			default: // as the library writes the stack field: a user ErrorStackMarshaler through Stack().Err()
				ad.how = "Stack().Err()"
				saved := zerolog.ErrorStackMarshaler
				zerolog.ErrorStackMarshaler = func(err error) interface{} {
					if v == nil {
						return arr(nil) // a nil answer means "no stack field"; a nil slice is written as null
					}
					return v
				}
				ev = logged(func(l zerolog.Logger) { l.Error().Stack().Str("a", "1").Err(boom).Str("zz", "x y").Msg("failed") })
				zerolog.ErrorStackMarshaler = saved
			}
			hist("shape_producer", ad.how)
			hist("shape_name", n.name)
			mk := func(oi int) *Case {
				cs := def(ev)
				cs.StackName = n.stackAs
				switch oi % 4 {
				case 1:
					cs.Opts.FieldsOrder = []string{n.name}
				case 2:
					cs.Opts.FieldsOrder, cs.Opts.FieldsExclude = []string{"zz", n.name}, []string{"a"}
				case 3:
					cs.Opts.PartsOrderSet, cs.Opts.PartsOrder = true, []string{"level", n.name, "message"}
				}
				return cs
			}
			class := "directed-shape/" + n.name
			if n.stackAs != "" {
				class += "/stack-name=" + n.stackAs
			}
			if n.every == 0 {
				// the stack name: the default options for every shape, another option set for every second
				emit(mk(0), class)
				if si%2 == 0 {
					emit(mk(1+(si/2)%3), class)
				}
			} else {
				emit(mk(si+ni), class)
			}
		}
		zerolog.ErrorStackFieldName = savedStack
	}
}
