package main

// C16 through the shipped front end: cmd/prettylog.
//
// cmd/prettylog is the repository's own way of putting ConsoleWriter on a stream
// (`app | prettylog`, `prettylog file.jsonl`): it reads the JSON logger's output line
// by line and hands every line to one ConsoleWriter.  It is one of the property's
// anchor files.  Reading committed to: for a stream of events the JSON logger
// emitted, each of them shorter than the 64 KiB line limit prettylog has always had
// (bufio.Scanner), prettylog's standard output is, line for line, what
// ConsoleWriter.Write gives for the same lines ("renders every event losslessly",
// "every field ... exactly once" - an event that reaches the writer garbled renders
// no field at all).
//
// The scenario builds cmd/prettylog from the repository under test (default compiler
// settings, into the work directory, under a timeout) and pipes streams of real
// events through it: small events around events of 100 B .. 60 KiB whose line length
// sits at and around the buffer sizes of the bufio readers (4096 and its doublings),
// the bulk of the line being one long plain string, a string that needs quoting,
// hundreds of small fields, a long array, a nested dict, hex bytes, a long message or
// a long error; through stdin, through one file argument and through two, with and
// without -time-format full, the last line with and without its newline.  Compared
// with ConsoleWriter.Write called in this process on the same lines (the writer
// configured as prettylog configures it, colour off in both).

import (
	"bytes"
	"context"
	"fmt"
	"os"
	"os/exec"
	"path/filepath"
	"strconv"
	"strings"
	"time"

	"github.com/rs/zerolog"
	. "verifharness/hlib"
)

type plStream struct {
	Mode     string   // stdin | file | two-files
	Full     bool     // -time-format full
	FinalNL  bool     // the last line ends with a newline
	Lines    [][]byte // without the newline
	Recipes  []string // how each line was made
	SplitAt  int      // two-files: lines [0,SplitAt) in the first file
	Shrunken bool
}

func (s *plStream) json() map[string]interface{} {
	ls := make([]string, len(s.Lines))
	sizes := make([]int, len(s.Lines))
	for i, l := range s.Lines {
		ls[i] = strconv.Quote(string(l))
		sizes[i] = len(l)
	}
	return map[string]interface{}{
		"scenario": "prettylog", "mode": s.Mode, "time_format_full": s.Full, "final_newline": s.FinalNL, "split_at": s.SplitAt,
		"lines_q": ls, "line_bytes": sizes, "recipes": s.Recipes,
		"how": "go build github.com/rs/zerolog/cmd/prettylog; feed the lines (each followed by a newline) to it on stdin / as file argument(s) with NO_COLOR=1 TZ=UTC; compare with zerolog.NewConsoleWriter() (TimeFormat as the flag says, NoColor) .Write(line) per line",
	}
}

func plFromJSON(j map[string]interface{}) *plStream {
	s := &plStream{}
	s.Mode, _ = j["mode"].(string)
	s.Full, _ = j["time_format_full"].(bool)
	s.FinalNL, _ = j["final_newline"].(bool)
	if f, ok := j["split_at"].(float64); ok {
		s.SplitAt = int(f)
	}
	for _, l := range unqs(j["lines_q"]) {
		s.Lines = append(s.Lines, []byte(l))
	}
	if l, ok := j["recipes"].([]interface{}); ok {
		for _, x := range l {
			r, _ := x.(string)
			s.Recipes = append(s.Recipes, r)
		}
	}
	return s
}

type prettylog struct {
	bin  string
	dir  string
	env  []string
	runs int
}

// buildPrettylog compiles cmd/prettylog of the repository under test. ok=false: the scenario cannot run
// (broken != "" : because the program does not build - an obligation; else only skipped, see the note).
func buildPrettylog(c *Ctx) (p *prettylog, broken string) {
	repo := os.Getenv("VERIF_REPO")
	if repo == "" {
		repo = "/repo"
	}
	repo, _ = filepath.Abs(repo)
	verifDir := os.Getenv("VERIF_DIR")
	if verifDir == "" {
		verifDir = "/verif"
	}
	work := os.Getenv("VERIF_WORK")
	if work == "" {
		work = c.Out
	}
	if _, err := os.Stat(filepath.Join(repo, "cmd", "prettylog", "prettylog.go")); err != nil {
		c.Note("cmd/prettylog: not in the repository under test (%v); the prettylog scenario did not run", err)
		return nil, ""
	}
	dir := filepath.Join(work, "c16prettylog")
	os.RemoveAll(dir)
	if err := os.MkdirAll(dir, 0o755); err != nil {
		c.Note("cmd/prettylog: %v; the prettylog scenario did not run", err)
		return nil, ""
	}
	hm, err := os.ReadFile(filepath.Join(verifDir, "harness", "go.mod"))
	if err != nil {
		c.Note("cmd/prettylog: %v; the prettylog scenario did not run", err)
		return nil, ""
	}
	gomod := strings.Replace(string(hm), "module verifharness", "module c16prettylog", 1)
	gomod = strings.Replace(gomod, "=> /repo", "=> "+repo, 1)
	os.WriteFile(filepath.Join(dir, "go.mod"), []byte(gomod), 0o644)
	if gs, err := os.ReadFile(filepath.Join(repo, "go.sum")); err == nil {
		os.WriteFile(filepath.Join(dir, "go.sum"), gs, 0o644)
	}
	env := append(os.Environ(), "GOFLAGS=-mod=mod", "GOPROXY=off", "GOSUMDB=off", "GOTOOLCHAIN=local", "CGO_ENABLED=0")
	bin := filepath.Join(dir, "prettylog")
	ctx, cancel := context.WithTimeout(context.Background(), 240*time.Second)
	defer cancel()
	cmd := exec.CommandContext(ctx, "go", "build", "-o", bin, "github.com/rs/zerolog/cmd/prettylog")
	cmd.Dir = dir
	cmd.Env = env
	out, err := cmd.CombinedOutput()
	if err != nil {
		if ctx.Err() != nil {
			c.Note("cmd/prettylog: go build did not finish within its time limit; the prettylog scenario did not run")
			return nil, ""
		}
		return nil, fmt.Sprintf("cmd/prettylog of the repository under test does not build: %v: %s", err, firstBytes(string(out), 600))
	}
	runEnv := append(os.Environ(), "NO_COLOR=1", "TZ=UTC")
	return &prettylog{bin: bin, dir: dir, env: runEnv}, ""
}

func firstBytes(s string, n int) string {
	if len(s) > n {
		return s[:n] + "..."
	}
	return s
}

// run pipes the stream through prettylog; the child is bounded in time.
func (p *prettylog) run(s *plStream) (stdout []byte, problem string) {
	p.runs++
	var all bytes.Buffer
	parts := []*bytes.Buffer{{}, {}}
	for i, l := range s.Lines {
		b := parts[0]
		if s.Mode == "two-files" && i >= s.SplitAt {
			b = parts[1]
		}
		for _, w := range []*bytes.Buffer{&all, b} {
			w.Write(l)
			if i < len(s.Lines)-1 || s.FinalNL {
				w.WriteByte('\n')
			}
		}
	}
	args := []string{}
	if s.Full {
		args = append(args, "-time-format", "full")
	}
	ctx, cancel := context.WithTimeout(context.Background(), 60*time.Second)
	defer cancel()
	var cmd *exec.Cmd
	switch s.Mode {
	case "file", "two-files":
		f1 := filepath.Join(p.dir, fmt.Sprintf("in%d_a.jsonl", p.runs))
		os.WriteFile(f1, parts[0].Bytes(), 0o644)
		defer os.Remove(f1)
		args = append(args, f1)
		if s.Mode == "two-files" {
			// every line but the last of a file ends with a newline; so does the last line of the first file
			if n := parts[0].Len(); n > 0 && parts[0].Bytes()[n-1] != '\n' {
				os.WriteFile(f1, append(parts[0].Bytes(), '\n'), 0o644)
			}
			f2 := filepath.Join(p.dir, fmt.Sprintf("in%d_b.jsonl", p.runs))
			os.WriteFile(f2, parts[1].Bytes(), 0o644)
			defer os.Remove(f2)
			args = append(args, f2)
		}
		cmd = exec.CommandContext(ctx, p.bin, args...) // stdin: the null device (a character device: prettylog reads its arguments)
	default:
		cmd = exec.CommandContext(ctx, p.bin, args...)
		cmd.Stdin = bytes.NewReader(all.Bytes())
	}
	cmd.Env = p.env
	cmd.Dir, _ = os.Getwd()
	var out, stderr bytes.Buffer
	cmd.Stdout, cmd.Stderr = &out, &stderr
	err := cmd.Run()
	if ctx.Err() != nil {
		return out.Bytes(), "prettylog did not finish within 60 s"
	}
	if err != nil {
		return out.Bytes(), fmt.Sprintf("prettylog ended with %v; stderr: %s", err, firstBytes(stderr.String(), 400))
	}
	return out.Bytes(), ""
}

// reference: what ConsoleWriter.Write gives for each line, the writer configured as cmd/prettylog configures it
// (NewConsoleWriter(), TimeFormat from the flag), colour off; a line the writer rejects is echoed, as prettylog does.
func plReference(s *plStream) (lines [][]byte, panicked string) {
	saved, savedErr := zerolog.TimeFieldFormat, zerolog.ErrorFieldName
	zerolog.TimeFieldFormat, zerolog.ErrorFieldName = time.RFC3339, "error"
	defer func() { zerolog.TimeFieldFormat, zerolog.ErrorFieldName = saved, savedErr }()
	for _, l := range s.Lines {
		var buf bytes.Buffer
		w := zerolog.NewConsoleWriter()
		w.Out, w.NoColor = &buf, true
		w.TimeFormat = time.Kitchen
		if s.Full {
			w.TimeFormat = time.RFC1123
		}
		_, err, pan := safeWrite(w, l)
		if pan != "" {
			return nil, pan
		}
		if err != nil {
			buf.Reset()
			fmt.Fprintf(&buf, "%s\n", l)
		}
		lines = append(lines, append([]byte(nil), buf.Bytes()...))
	}
	return lines, ""
}

// plCheck runs one stream and states the reading; on a difference it looks for the single line that
// already shows it (a one-line stream is the input reported then).
func plCheck(c *Ctx, p *prettylog, s *plStream) bool {
	ref, pan := plReference(s)
	if pan != "" {
		return true // a panic of Write on this line is the business of the case streams (write-panics)
	}
	got, problem := p.run(s)
	want := bytes.Join(ref, nil)
	for i, l := range s.Lines {
		c.Count(fmt.Sprintf("prettylog|%s|%v|%d|%d|%s", s.Mode, s.Full, i, len(l), s.Recipes[i%max1(len(s.Recipes))]), len(l) > 4096)
		c.Hist("prettylog_line_bytes", sizeBucket(len(l)))
	}
	c.Hist("prettylog_mode", s.Mode)
	if problem == "" && bytes.Equal(got, want) {
		return true
	}
	if !s.Shrunken && len(s.Lines) > 1 {
		for i := range s.Lines {
			one := &plStream{Mode: "stdin", Full: s.Full, FinalNL: true, Lines: s.Lines[i : i+1], Recipes: s.Recipes[i : i+1], Shrunken: true}
			if !plCheck(c, p, one) {
				return false
			}
		}
	}
	desc := problem
	var obs, exp interface{}
	if desc == "" {
		gl, wl := bytes.SplitAfter(got, []byte("\n")), bytes.SplitAfter(want, []byte("\n"))
		i := 0
		for i < len(gl) && i < len(wl) && bytes.Equal(gl[i], wl[i]) {
			i++
		}
		var g, w []byte
		if i < len(gl) {
			g = gl[i]
		}
		if i < len(wl) {
			w = wl[i]
		}
		inLen := -1
		if i < len(s.Lines) {
			inLen = len(s.Lines[i])
		}
		desc = fmt.Sprintf("prettylog (%s) printed %d bytes for a stream of %d events, ConsoleWriter.Write on the same lines gives %d bytes; output line %d (event line of %d bytes) differs: prettylog %d bytes, ConsoleWriter %d bytes",
			s.Mode, len(got), len(s.Lines), len(want), i+1, inLen, len(g), len(w))
		obs, exp = strconv.Quote(firstBytes(string(g), 300)), strconv.Quote(firstBytes(string(w), 300))
	}
	c.Violate(Violation{Key: "prettylog-output-differs", Monitor: "prettylog-renders-every-event", Desc: desc, Case: s.json(), Observed: obs, Expected: exp})
	return false
}

func max1(n int) int {
	if n < 1 {
		return 1
	}
	return n
}

func sizeBucket(n int) string {
	switch {
	case n < 1024:
		return "<1K"
	case n < 4096:
		return "1K-4K"
	case n <= 4097 && n >= 4095:
		return "4095-4097"
	case n < 8192:
		return "4K-8K"
	case n < 16384:
		return "8K-16K"
	case n < 32768:
		return "16K-32K"
	}
	return "32K-60K"
}

// ---------------------------------------------------------------- lines

// the longest line of the scenario (60 KiB)
const plMaxLine = 61440

var plKinds = []string{"str-plain", "str-quoted", "many-fields", "ints", "dict", "hex", "message", "error"}

// plLine logs one event of about `size` bytes (exactly `size` for the kinds whose bulk is one plain string).
func plLine(kind string, size int, i int) ([]byte, string) {
	mk := func(n int) []byte {
		var buf bytes.Buffer
		l := zerolog.New(&buf)
		if i%2 == 0 {
			l = l.With().Timestamp().Logger()
		}
		fill := func(n int, alphabet string) string {
			var sb strings.Builder
			for k := 0; sb.Len() < n; k++ {
				fmt.Fprintf(&sb, "%s%d/", alphabet, k)
			}
			return sb.String()[:n]
		}
		e := l.Warn().Int("seq", i).Str("after", "tail")
		switch kind {
		case "str-plain":
			e.Str("payload", fill(n, "chunk")).Msg("big")
		case "str-quoted":
			e.Str("payload", fill(n, "two words \"q\" ")).Msg("big")
		case "many-fields":
			for k := 0; k*14 < n; k++ {
				e = e.Int(fmt.Sprintf("field%04d", k), k)
			}
			e.Msg("big")
		case "ints":
			xs := make([]int, n/7+1)
			for k := range xs {
				xs[k] = 100000 + k
			}
			e.Ints("payload", xs).Msg("big")
		case "dict":
			d := zerolog.Dict()
			for k := 0; k*22 < n; k++ {
				d = d.Str(fmt.Sprintf("k%05d", k), "value<&>")
			}
			e.Dict("payload", d).Msg("big")
		case "hex":
			e.Hex("payload", bytes.Repeat([]byte{0xde, 0xad, 0xbe, 0xef, byte(i)}, n/10+1)).Msg("big")
		case "message":
			e.Msg(fill(n, "message text "))
		default:
			e.Err(fmt.Errorf("%s", fill(n, "failure "))).Msg("big")
		}
		return bytes.TrimSuffix(buf.Bytes(), []byte("\n"))
	}
	n := size - 120
	if n < 1 {
		n = 1
	}
	line := mk(n)
	exact := kind == "str-plain" || kind == "message" || kind == "error"
	for try := 0; try < 4 && len(line) != size; try++ {
		if exact {
			n += size - len(line) // one byte of filler is one byte of line for the plain fillers: aim exactly
		} else if d := len(line) - size; d > size/50 || -d > size/50 {
			n = n * size / len(line)
		} else {
			break
		}
		if n < 1 {
			break
		}
		line = mk(n)
	}
	if len(line) > plMaxLine {
		// never above the line limit prettylog has always had (bufio.Scanner, 64 KiB): outside the reading
		kind, exact = "str-plain", true
		line = mk(plMaxLine - 200)
	}
	return line, fmt.Sprintf("%s(target %d bytes) -> %d bytes", kind, size, len(line))
}

func plSmall(i int) ([]byte, string) {
	var buf bytes.Buffer
	l := zerolog.New(&buf)
	switch i % 4 {
	case 0:
		l.Info().Str("foo", "bar").Int("seq", i).Msg("small")
	case 1:
		lt := l.With().Timestamp().Logger()
		lt.Error().Err(fmt.Errorf("boom")).Str("k", "v w").Int("seq", i).Msg("small one")
	case 2:
		l.Log().Int("seq", i).Send()
	default:
		l.Debug().Str("caller", cwd+"/pkg/file.go:42").Bool("b", true).Int("seq", i).Msg("")
	}
	return bytes.TrimSuffix(buf.Bytes(), []byte("\n")), "small"
}

// prettylogScenario builds prettylog and pipes the streams through it.
func prettylogScenario(c *Ctx, replay *plStream) {
	p, broken := buildPrettylog(c)
	if broken != "" {
		c.Res.Broken = append(c.Res.Broken, broken)
		return
	}
	if p == nil {
		return
	}
	defer os.RemoveAll(p.dir)
	if replay != nil {
		plCheck(c, p, replay)
		return
	}
	saved := zerolog.TimeFieldFormat
	zerolog.TimeFieldFormat = time.RFC3339
	clock = time.Date(2020, 1, 2, 15, 4, 5, 0, time.UTC)
	defer func() { zerolog.TimeFieldFormat = saved }()
	sizes := []int{100, 1000, 4000, 4095, 4096, 4097, 4200, 6000, 8191, 8192, 8193, 10000, 12288, 16383, 16384, 16385, 20000, 32767, 32768, 32769, 50000, 61440}
	if c.Thorough() {
		for s := 4090; s <= 4110; s++ {
			sizes = append(sizes, s)
		}
		sizes = append(sizes, 24576, 40000, 45056, 57344, 60000)
	}
	r := c.R.Fork()
	modes := []string{"stdin", "file", "two-files", "stdin"}
	streams, lines, big := 0, 0, 0
	perStream := 4
	for at := 0; at < len(sizes); at += perStream {
		s := &plStream{Mode: modes[streams%len(modes)], Full: streams%3 == 1, FinalNL: streams%2 == 0}
		add := func(l []byte, recipe string) {
			s.Lines = append(s.Lines, l)
			s.Recipes = append(s.Recipes, recipe)
		}
		add(plSmall(lines))
		for k := at; k < at+perStream && k < len(sizes); k++ {
			kind := plKinds[(k+streams+r.Intn(2))%len(plKinds)]
			if sizes[k] >= 4095 && sizes[k] <= 4097 {
				kind = "str-plain" // exact line lengths at the buffer size
			}
			add(plLine(kind, sizes[k], k))
			if sizes[k] > 4096 {
				big++
			}
			add(plSmall(lines + k))
			if r.Chance(30) {
				add(plSmall(lines + k + 1))
			}
		}
		s.SplitAt = len(s.Lines) / 2
		lines += len(s.Lines)
		streams++
		plCheck(c, p, s)
	}
	// every kind of bulk once above the reader's buffer, alone in its stream
	for ki, kind := range plKinds {
		s := &plStream{Mode: modes[ki%len(modes)], FinalNL: ki%2 == 1}
		l, rc := plLine(kind, 5000+ki*1777, ki)
		s.Lines, s.Recipes = [][]byte{l}, []string{rc}
		s.SplitAt = 1
		lines++
		big++
		streams++
		plCheck(c, p, s)
	}
	c.Res.ExtraCoverage["prettylog"] = map[string]interface{}{"streams": streams, "lines": lines, "lines_above_4096_bytes": big, "processes": p.runs,
		"built_from": "cmd/prettylog of the repository under test, default compiler settings"}
}
