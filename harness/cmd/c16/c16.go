package main

// C16 - ConsoleWriter renders every event losslessly and deterministically.
//
// Events are produced by really logging through zerolog (gen.go); each is fed
// to a real ConsoleWriter (NoColor, default formatters) under a generated
// option set, three or more times (Go randomises map iteration per range
// statement, so repetitions expose map-order dependence).  Recorded: the
// bytes written to Out, n, err.
//   * correspondence: the Coq model (Misc/Console.v, console_write) must
//     predict the exact bytes, n and err from the decoded event + options +
//     the standard library's answers (oracle.go);
//   * monitors (monitor.go): the property text stated on the output.

import (
	"bytes"
	"encoding/json"
	"fmt"
	"io"
	"os"
	"sort"
	"strconv"
	"strings"
	"time"
	"unicode/utf8"

	"github.com/rs/zerolog"
	"verifharness/hlib"
	. "verifharness/hlib"
)

func main() { hlib.Main(map[string]func(*hlib.Ctx){"C16": runC16}) }

type Case struct {
	Event []byte
	Opts  Opts
	// how the ConsoleWriter of rendering i is built (construct.go); nil = assigned by emit
	Constructions []string
	// the value of the global zerolog.ErrorFieldName while the event is rendered ("" = the default, "error")
	ErrName string
	// the value of the global zerolog.ErrorStackFieldName while the event is rendered ("" = the default, "stack")
	StackName string
}

func (cs *Case) errName() string {
	if cs.ErrName == "" {
		return "error"
	}
	return cs.ErrName
}

// JSON twin: every string also in Go-quoted form (lossless for invalid UTF-8)
func (cs *Case) json() map[string]interface{} {
	j := map[string]interface{}{
		"event_q": strconv.Quote(string(cs.Event)),
		"opts": map[string]interface{}{
			"parts_order_set": cs.Opts.PartsOrderSet, "parts_order_q": qs(cs.Opts.PartsOrder), "parts_exclude_q": qs(cs.Opts.PartsExclude),
			"fields_order_q": qs(cs.Opts.FieldsOrder), "fields_exclude_q": qs(cs.Opts.FieldsExclude),
			"time_format": cs.Opts.TimeFormat, "time_location": cs.Opts.Loc, "time_field_format": cs.Opts.TimeFieldFormat,
			"no_color": true,
		},
	}
	if utf8.Valid(cs.Event) {
		j["event"] = string(cs.Event)
	}
	if cs.ErrName != "" {
		j["error_field_name_q"] = strconv.Quote(cs.ErrName)
		j["error_field_name_legend"] = "zerolog.ErrorFieldName is set to this name while the event is rendered (and was while it was logged)"
	}
	if cs.StackName != "" {
		j["error_stack_field_name_q"] = strconv.Quote(cs.StackName)
		j["error_stack_field_name_legend"] = "zerolog.ErrorStackFieldName is set to this name while the event is rendered (and was while it was logged)"
	}
	if cs.Constructions != nil {
		j["writer_construction_per_rendering"] = cs.Constructions
		j["writer_construction_legend"] = constructLegend
	}
	return j
}

func unq(v interface{}) string {
	s, _ := v.(string)
	u, err := strconv.Unquote(s)
	if err != nil {
		return s
	}
	return u
}
func unqs(v interface{}) []string {
	l, _ := v.([]interface{})
	var out []string
	for _, x := range l {
		out = append(out, unq(x))
	}
	return out
}

func caseFromJSON(j map[string]interface{}) *Case {
	cs := &Case{Event: []byte(unq(j["event_q"]))}
	o, _ := j["opts"].(map[string]interface{})
	cs.Opts.PartsOrderSet, _ = o["parts_order_set"].(bool)
	cs.Opts.PartsOrder = unqs(o["parts_order_q"])
	cs.Opts.PartsExclude = unqs(o["parts_exclude_q"])
	cs.Opts.FieldsOrder = unqs(o["fields_order_q"])
	cs.Opts.FieldsExclude = unqs(o["fields_exclude_q"])
	cs.Opts.TimeFormat, _ = o["time_format"].(string)
	cs.Opts.Loc, _ = o["time_location"].(string)
	cs.Opts.TimeFieldFormat, _ = o["time_field_format"].(string)
	if v, ok := j["error_field_name_q"]; ok {
		cs.ErrName = unq(v)
	}
	if v, ok := j["error_stack_field_name_q"]; ok {
		cs.StackName = unq(v)
	}
	if l, ok := j["writer_construction_per_rendering"].([]interface{}); ok {
		for _, x := range l {
			m, _ := x.(string)
			cs.Constructions = append(cs.Constructions, m)
		}
	}
	return cs
}

// render runs the real ConsoleWriter reps times on the same input and configuration.
type failingOut struct{ accept int }

func (f failingOut) Write(p []byte) (int, error) {
	if f.accept > len(p) {
		f.accept = len(p)
	}
	return f.accept, io.ErrClosedPipe
}

// disturbPool performs Writes on unrelated ConsoleWriters whose Out fails; their results are
// outside the property, what a later Write produces is not.
func disturbPool(i int) {
	for k := 0; k < 4; k++ {
		w := zerolog.ConsoleWriter{Out: failingOut{accept: (i + k) % 3 * 5}, NoColor: true}
		safeWrite(w, []byte(`{"level":"warn","message":"verif-disturbance","secret":"verif-other-writer"}`))
	}
}

// safeWrite is ConsoleWriter.Write with a panic turned into a value: "Write succeeds" is part of the
// property, so a panic out of Write is an observation (a violation with the input), not the end of the run.
func safeWrite(w zerolog.ConsoleWriter, p []byte) (n int, err error, panicked string) {
	defer func() {
		if r := recover(); r != nil {
			panicked = fmt.Sprint(r)
			if panicked == "" {
				panicked = "panic"
			}
		}
	}()
	n, err = w.Write(p)
	return
}

// a panic out of a Write made while a writer was being constructed (construct.go: the use under another
// configuration before the re-assignment, the use before the struct copy)
var constructPanic string

func render(cs *Case, reps int) obs {
	var ob obs
	saved, savedErr, savedStack := zerolog.TimeFieldFormat, zerolog.ErrorFieldName, zerolog.ErrorStackFieldName
	zerolog.TimeFieldFormat = cs.Opts.TimeFieldFormat
	zerolog.ErrorFieldName = cs.errName()
	if cs.StackName != "" {
		zerolog.ErrorStackFieldName = cs.StackName
	}
	defer func() {
		zerolog.TimeFieldFormat, zerolog.ErrorFieldName, zerolog.ErrorStackFieldName = saved, savedErr, savedStack
	}()
	for i := 0; i < reps; i++ {
		if i > 0 {
			// history: between two renderings another ConsoleWriter (sharing only the
			// package's buffer pool) writes to a destination that fails or accepts a part
			disturbPool(i)
		}
		var out bytes.Buffer
		mode := "literal"
		if i < len(cs.Constructions) {
			mode = cs.Constructions[i]
		}
		constructPanic = ""
		w := cs.Opts.writerVia(mode, &out, cs.Event)
		n, err, pan := safeWrite(w, cs.Event)
		if pan == "" && constructPanic != "" {
			pan = constructPanic + " (in the Write made while the writer was constructed: " + mode + ")"
		}
		ob.outs = append(ob.outs, append([]byte(nil), out.Bytes()...))
		ob.ns = append(ob.ns, n)
		ob.errs = append(ob.errs, err != nil)
		ob.panics = append(ob.panics, pan)
	}
	return ob
}

func runC16(c *Ctx) {
	c.Res.Rule = "a case is (event bytes, ConsoleWriter options); events are produced by really logging through zerolog with a seeded generator over every field method (strings of every escaping class incl. control/non-ASCII/invalid UTF-8, all integer/float kinds, bools, nil, Dict/Array/Object/EmbedObject nesting, durations, times, errors, RawJSON, Fields, context fields, user fields named like the reserved names with every value type, the empty key, duplicate keys, keys colliding after escaping), half of them without the trailing newline (as cmd/prettylog passes them); options: PartsOrder nil/empty/permutations/subsets/custom names/repeated names, PartsExclude, FieldsOrder (incl. absent, reserved and repeated names), FieldsExclude, 11 TimeFormats, TimeLocation UTC/fixed offsets/nil(Local=UTC), 9 TimeFieldFormats incl. the four UNIX variants; every case is rendered 3 or 5 times: renderings 0 and 1 by a struct-literal writer, the later ones by writers that reach the same configuration another way (NewConsoleWriter() then assignment of the exported fields, NewConsoleWriter with one or three option functions, a writer constructed and used under a different configuration and then re-assigned, a struct copy of a used writer), rotating from case to case; directed: every construction first/last x 10 configurations; every value type under the message key (Send / Msg(\"\") / Msg(text)) with the message part checked for the number's digits / the string; directed error-field sweep: events with the error field alone / first / last / between other fields / as a number / from the logger's context / absent x FieldsExclude sets with and without the error field's name (alone, with a neighbour, with all others, everything but it, listed twice) x FieldsOrder lists putting names that sort before/after it (and itself) in front, under the default and three renamed zerolog.ErrorFieldName (renamed: monitors only); directed shape sweep: under each documented special field name (stack, error, caller, message, level, time), two ordinary names and a renamed zerolog.ErrorStackFieldName, values of every JSON shape (scalars; objects incl. the func/source/line frame of a stack marshaler, its variants and other keys; empty arrays; arrays of 1-3 frames; arrays of frames with one number / string / null / bool / nested array / other object at every position; arrays of scalars; nested arrays), put on the event with Interface / RawJSON / Arr()+Dict() / a user ErrorStackMarshaler through Stack().Err(), alone / between fields next to an error / from the context, under default options and FieldsOrder / FieldsExclude / PartsOrder naming the field; a panic out of Write is an observation (violation write-panics with the input), also in the auxiliary one-part renderings and in the writes made while a writer is constructed; cmd/prettylog of the repository under test built and fed streams of real events of 100 B .. 60 KiB (line lengths at and around 4096 and its doublings; bulk = long plain/quoted string, hundreds of fields, array, dict, hex, message, error) through stdin / one file / two files, with and without -time-format full and a final newline, its output compared with ConsoleWriter.Write on the same lines; plus a malformed-input stream (model only). non-trivial = the event decodes and at least one field is rendered; distinct by (event, options)"
	if os.Getenv("NO_COLOR") != "" {
		c.Note("NO_COLOR is set; irrelevant with NoColor=true")
	}
	c.OpenShards("From Verif Require Import Base.Prelude Misc.Console Harness.C16H.",
		"c16_case * c16_obs", "mismatches c16_run c16_eqb", 200)

	// hlib seeds splitmix64 with seed*gamma+c and Next() adds gamma, so seed s+1 is the stream of seed s
	// shifted by one; forking once first puts this run's per-case generators on an unrelated part of the orbit
	root := c.R.Fork()
	interiorNL := 0
	emitted := 0
	emit := func(cs *Case, class string) {
		reps := 3
		dec := decodeEvent(cs.Event)
		if len(dec.kvs) >= 5 {
			reps = 5
		}
		if cs.Constructions == nil {
			// renderings 0 and 1 through a struct literal (as always), the later ones through the
			// other ways of arriving at the same configuration, rotating from case to case
			cs.Constructions = []string{"literal", "literal"}
			for i := 2; i < reps; i++ {
				cs.Constructions = append(cs.Constructions, constructModes[(emitted+i)%len(constructModes)])
			}
		}
		emitted++
		for _, m := range cs.Constructions {
			c.Hist("writer_construction", m)
		}
		ob := render(cs, reps)
		if dec.ok && bytes.Count(ob.outs[0], []byte("\n")) > 1 {
			interiorNL++
		}
		c16monitor(c, cs, ob)
		j := cs.json()
		j["observed"] = map[string]interface{}{"out_q": strconv.Quote(string(ob.outs[0])), "n": ob.ns[0], "err": ob.errs[0], "renderings": reps}
		if cs.errName() == "error" {
			tb := buildTables(dec, cs.Opts)
			term := fmt.Sprintf("((%s, %s, %d%%N, %s), (%s, %d%%N, %s))", cs.Opts.coq(), dec.coq(), len(cs.Event), tb.coq(),
				CoqBytes(ob.outs[0]), ob.ns[0], CoqBool(ob.errs[0]))
			c.AddCase(term, j)
		} else {
			// the model (Misc/Console.v) has the field names of globals.go as constants: a renamed
			// ErrorFieldName is checked by the monitors only
			c.Hist("monitor_only", "renamed-error-field")
		}
		// coverage
		nfields := 0
		for _, e := range dec.kvs {
			if !isReserved(e.k) && !inList(e.k, cs.Opts.FieldsExclude) {
				nfields++
			}
			c.Hist("value_kind", e.v.kind)
		}
		c.Count(strconv.Quote(string(cs.Event))+"|"+cs.Opts.coq()+"|"+cs.ErrName+"|"+cs.StackName, dec.ok && nfields > 0)
		c.Hist("class", class)
		c.Hist("rendered_fields", fmt.Sprintf("%d", nfields))
		c.Hist("input_bytes", fmt.Sprintf("%d", len(cs.Event)/100*100))
		if dec.ok {
			c.Hist("time_value", dec.get("time").kind)
			c.Hist("level_value", dec.get("level").kind)
			c.Hist("time_field_format", strconv.Quote(cs.Opts.TimeFieldFormat))
			c.Hist("opt_parts_order", func() string {
				if !cs.Opts.PartsOrderSet {
					return "nil"
				}
				return fmt.Sprintf("len%d", len(cs.Opts.PartsOrder))
			}())
			c.Hist("opt_fields_order", fmt.Sprintf("len%d", len(cs.Opts.FieldsOrder)))
			c.Hist("opt_fields_exclude", fmt.Sprintf("len%d", len(cs.Opts.FieldsExclude)))
			c.Hist("opt_parts_exclude", fmt.Sprintf("len%d", len(cs.Opts.PartsExclude)))
			if _, ok := dec.m[""]; ok {
				c.Hist("special_keys", "empty-key")
			}
			if _, ok := dec.m[cs.errName()]; ok {
				c.Hist("special_keys", "error")
				if inList(cs.errName(), cs.Opts.FieldsExclude) {
					c.Hist("special_keys", "error-excluded")
				}
				if len(cs.Opts.FieldsOrder) > 0 {
					c.Hist("special_keys", "error-under-fieldsorder")
				}
			}
		} else {
			c.Hist("decode", "error")
		}
		if class == "random" {
			c.Sample(j)
		}
	}

	// replay of one recorded case
	if c.Replay != "" {
		b, err := os.ReadFile(c.Replay)
		if err != nil {
			panic(err)
		}
		var rp map[string]interface{}
		if err := json.Unmarshal(b, &rp); err != nil {
			panic(err)
		}
		cj, _ := rp["case"].(map[string]interface{})
		if cj == nil {
			panic("replay file has no case")
		}
		if sc, _ := cj["scenario"].(string); sc == "prettylog" {
			prettylogScenario(c, plFromJSON(cj))
			return
		}
		emit(caseFromJSON(cj), "replay")
		return
	}

	logged := func(f func(l zerolog.Logger)) []byte {
		var buf bytes.Buffer
		f(zerolog.New(&buf).Level(zerolog.Level(-128)))
		return append([]byte(nil), buf.Bytes()...)
	}
	def := func(ev []byte) *Case {
		return &Case{Event: ev, Opts: Opts{TimeFieldFormat: "2006-01-02T15:04:05Z07:00", Loc: "UTC"}}
	}

	// ---- corpus: minimized inputs of fixed defects, re-tested first on every run
	// F9 (2538a27): a field named "" together with an error field
	f9 := logged(func(l zerolog.Logger) { l.Log().Str("", "empty").Err(fmt.Errorf("boom")).Int("a", 1).Send() })
	emit(def(f9), "corpus")
	emit(def(bytes.TrimSuffix(f9, []byte("\n"))), "corpus")
	{
		cs := def(f9)
		cs.Opts.FieldsOrder = []string{"a"}
		emit(cs, "corpus")
		cs2 := def(f9)
		cs2.Opts.PartsOrderSet, cs2.Opts.PartsOrder = true, []string{"", "error", "message"}
		emit(cs2, "corpus")
	}
	emit(def(logged(func(l zerolog.Logger) { l.Info().Str("", "").Str("", "x").AnErr("error", fmt.Errorf("e 1")).Msg("m") })), "corpus")

	// ---- directed: the binary search for "error" under FieldsOrder (unsorted slice), all positions
	{
		names := []string{"a", "b", "error", "f", "g", "z", ""}
		for mask := 0; mask < 1<<uint(len(names)); mask += 3 {
			var fo []string
			for i, n := range names {
				if mask&(1<<uint(i)) != 0 {
					fo = append([]string{n}, fo...)
				}
			}
			ev := logged(func(l zerolog.Logger) {
				e := l.Warn()
				for _, n := range names {
					e = e.Str(n, "v"+n)
				}
				e.Msg("search")
			})
			cs := def(ev)
			cs.Opts.FieldsOrder = fo
			emit(cs, "directed-search")
		}
	}
	// ---- directed: the error field against FieldsExclude, FieldsOrder and ErrorFieldName.  The "move the error
	// field to the front" step works on the list that is left after the exclusion and after the ordering: events
	// with the error field alone / before / after / between other fields (also under a value that is not a string,
	// from the logger's context, and a control event without one) x FieldsExclude sets with and without the error
	// field's name (alone, with the field before it, after it, all others, everything but it, listed twice) x
	// FieldsOrder lists that put names sorting before / after the error field's name in front (so that the slice
	// handed to the binary search is not sorted), with and without the error name itself; the same under a renamed
	// zerolog.ErrorFieldName sorting between, after and before the other names.
	{
		boom := fmt.Errorf("boom")
		type evgen struct {
			name string
			f    func(l zerolog.Logger)
		}
		evs := func(n string) []evgen {
			return []evgen{
				{"error-only-key", func(l zerolog.Logger) { l.Log().Err(boom).Send() }},
				{"error-only-field", func(l zerolog.Logger) { l.Error().Err(boom).Msg("failed") }},
				{"between", func(l zerolog.Logger) {
					l.Error().Str("attempt", "3").Err(boom).Str("user", "bob").Str("zone", "eu").Msg("failed")
				}},
				{"last", func(l zerolog.Logger) { l.Warn().Str("Alpha", "1").Str("B", "two words").Err(boom).Msg("failed") }},
				{"first", func(l zerolog.Logger) { l.Info().Err(boom).Str("zebra", "Zulu").Str("~", "t").Msg("failed") }},
				{"number-and-empty-key", func(l zerolog.Logger) { l.Debug().Str("", "e").Int(n, 5).Str("foo", "bar").Str("zebra", "Zulu").Send() }},
				{"context-error", func(l zerolog.Logger) {
					ll := l.With().Err(boom).Logger()
					ll.Warn().Str("foo", "bar").Str("zebra", "Zulu").Msg("ctx")
				}},
				{"no-error", func(l zerolog.Logger) { l.Error().Str("attempt", "3").Str("user", "bob").Msg("control") }},
			}
		}
		for ni, n := range []string{"error", "err", "zz_err", "Cause"} {
			saved := zerolog.ErrorFieldName
			zerolog.ErrorFieldName = n
			for ei, eg := range evs(n) {
				ev := logged(eg.f)
				var before, after []string // the other fields, sorting before / after the error field's name
				{
					var ks []string
					for _, e := range decodeEvent(ev).kvs {
						if !isReserved(e.k) && e.k != n {
							ks = append(ks, e.k)
						}
					}
					sort.Strings(ks)
					for _, k := range ks {
						if k < n {
							before = append(before, k)
						} else {
							after = append(after, k)
						}
					}
				}
				others := append(append([]string{}, before...), after...)
				first := func(xs []string) []string {
					if len(xs) == 0 {
						return nil
					}
					return xs[:1]
				}
				last := func(xs []string) []string {
					if len(xs) == 0 {
						return nil
					}
					return xs[len(xs)-1:]
				}
				cat := func(xss ...[]string) []string {
					var out []string
					for _, xs := range xss {
						out = append(out, xs...)
					}
					return out
				}
				N := []string{n}
				excl := [][]string{nil, N, cat(N, last(before)), cat(first(after), N), cat(N, others), others, first(before), cat([]string{"nope"}, N, N), last(after)}
				ords := [][]string{nil, last(after), first(before), N, cat(last(after), N), cat(N, first(before)), cat(last(after), first(before)),
					cat(first(before), first(after), N), {"nope"}, cat(reversed(others)), cat(first(after), []string{"nope"}, last(before))}
				seen := map[string]bool{}
				for xi, x := range excl {
					for oi, o := range ords {
						if ni > 0 && (xi+oi+ei)%2 == 1 {
							continue // renamed (monitors only): every second combination
						}
						key := strings.Join(qs(x), ",") + "|" + strings.Join(qs(o), ",")
						if seen[key] {
							continue
						}
						seen[key] = true
						cs := def(ev)
						cs.Opts.FieldsExclude, cs.Opts.FieldsOrder = x, o
						if ni > 0 {
							cs.ErrName = n
						}
						emit(cs, "directed-error-field/"+eg.name)
					}
				}
			}
			zerolog.ErrorFieldName = saved
		}
	}
	// ---- directed: every single byte as a string value (the needsQuote boundary), and as a key
	for b := 0; b < 256; b++ {
		s := string([]byte{byte(b)})
		emit(def(logged(func(l zerolog.Logger) { l.Log().Str("k", s).Str("k2", "a"+s+"b").Send() })), "directed-byte-value")
		if b%4 == 0 || b < 0x30 || b >= 0x7e {
			emit(def(logged(func(l zerolog.Logger) { l.Log().Str(s, "v").Str("error", "e").Send() })), "directed-byte-key")
		}
	}

	// ---- directed: all 24 permutations of the default parts, all 16 PartsExclude subsets, one rich event
	{
		ev := logged(func(l zerolog.Logger) {
			ll := l.With().Timestamp().Logger()
			ll.Error().Str("caller", cwd+"/pkg/file.go:42").Str("k", "v w").Err(fmt.Errorf("boom")).Int("n", 7).Msg("the message")
		})
		std := []string{"time", "level", "caller", "message"}
		var perm func(k int, xs []string)
		perm = func(k int, xs []string) {
			if k == len(xs) {
				cs := def(ev)
				cs.Opts.PartsOrderSet, cs.Opts.PartsOrder = true, append([]string{}, xs...)
				emit(cs, "directed-parts")
				return
			}
			for i := k; i < len(xs); i++ {
				xs[k], xs[i] = xs[i], xs[k]
				perm(k+1, xs)
				xs[k], xs[i] = xs[i], xs[k]
			}
		}
		perm(0, append([]string{}, std...))
		for mask := 0; mask < 16; mask++ {
			cs := def(ev)
			for i, p := range std {
				if mask&(1<<uint(i)) != 0 {
					cs.Opts.PartsExclude = append(cs.Opts.PartsExclude, p)
				}
			}
			emit(cs, "directed-parts")
			cs2 := *cs
			cs2.Opts.PartsOrderSet, cs2.Opts.PartsOrder = true, []string{"n", "message", "level", "nope", "time", "error", "caller", "level"}
			emit(&cs2, "directed-parts")
		}
	}
	// ---- directed: numeric and textual time values under every TimeFieldFormat (int64 wrap of the unit conversion)
	{
		nums := []string{"0", "-1", "1577934245", "1577934245123", "1577934245123456", "1577934245123456789", "9223372036854775807", "-9223372036854775808",
			"9223372036854775808", "9223372036854775", "9223372036854776", "9223372036855", "-9223372036855", "1.5", "1e3", "-62135596800", "253402300800"}
		for _, tff := range []string{"", "UNIXMS", "UNIXMICRO", "UNIXNANO", "2006-01-02T15:04:05Z07:00"} {
			for i, n := range nums {
				cs := def(logged(func(l zerolog.Logger) { l.Log().RawJSON("time", []byte(n)).Send() }))
				cs.Opts.TimeFieldFormat = tff
				cs.Opts.TimeFormat = []string{"", "2006-01-02T15:04:05.999999999Z07:00"}[i%2]
				cs.Opts.Loc = locs[(i+len(tff))%len(locs)]
				emit(cs, "directed-time")
			}
			for _, t := range []string{"2020-01-02T03:04:05Z", "2020-01-02T03:04:05.123456789+05:30", "", "1577934245", "garbage", "3:04PM"} {
				cs := def(logged(func(l zerolog.Logger) { l.Log().Str("time", t).Send() }))
				cs.Opts.TimeFieldFormat = tff
				cs.Opts.TimeFormat = "2006-01-02T15:04:05.999999999Z07:00"
				emit(cs, "directed-time")
			}
		}
	}
	// ---- directed: level values (ParseLevel: case folding, numbers, bounds; stripLevel: 3-byte cut, ToUpper)
	for _, lv := range []string{`trace`, `debug`, `info`, `warn`, `error`, `fatal`, `panic`, `disabled`, ``, `INFO`, `Warn`, `di\u017fabled`, `\u212aanic`, `3`, `+1`, `-1`, `-0`, `007`, `5`, `6`, `7`, `127`, `128`, `-128`, `-129`, `99999999999999999999`, `1e1`, `0x1`, `1_0`, ` 1`, `trace `, `\u00e9`, `ab`, `abcd`, `xy\u00e9`, `x\u00e9z`, `\u0131nfo`, `\u01c6x`, `\ufb01x`, `12\u00e9`, `\ud83d\ude00`} {
		var lvs string
		if err := json.Unmarshal([]byte(`"`+lv+`"`), &lvs); err != nil {
			panic(err)
		}
		emit(def(logged(func(l zerolog.Logger) { l.Log().Str("level", lvs).Int("k", 1).Msg("m") })), "directed-level")
	}
	for _, lv := range []string{"1", "-1", "3.0", "true", "false", "null", `{"a":1}`, `[1,2]`, `["info"]`, "12345", "1e2"} {
		raw := []byte(lv)
		emit(def(logged(func(l zerolog.Logger) {
			l.Log().RawJSON("level", raw).RawJSON("message", raw).RawJSON("caller", raw).RawJSON("time", raw).RawJSON("k", raw).Send()
		})), "directed-level")
	}

	// ---- directed: every value type under the message key, as the JSON logger emits it when a user field is
	// named like the message (Send / Msg("") leave it the last "message" key; Msg(text) shadows it), at every
	// level class, alone and next to other fields, with the message part first / last / excluded
	{
		type mv struct {
			name string
			add  func(e *zerolog.Event) *zerolog.Event
		}
		vals := []mv{
			{"int", func(e *zerolog.Event) *zerolog.Event { return e.Int("message", 7) }},
			{"negative-int64", func(e *zerolog.Event) *zerolog.Event { return e.Int64("message", -9223372036854775808) }},
			{"max-uint64", func(e *zerolog.Event) *zerolog.Event { return e.Uint64("message", 18446744073709551615) }},
			{"float", func(e *zerolog.Event) *zerolog.Event { return e.Float64("message", 2.5) }},
			{"float-exponent", func(e *zerolog.Event) *zerolog.Event { return e.Float64("message", 1e21) }},
			{"float32", func(e *zerolog.Event) *zerolog.Event { return e.Float32("message", 0.1) }},
			{"raw-number-forms", func(e *zerolog.Event) *zerolog.Event { return e.RawJSON("message", []byte(`-0.50E+3`)) }},
			{"raw-long-number", func(e *zerolog.Event) *zerolog.Event {
				return e.RawJSON("message", []byte(`123456789012345678901234567890.000000000000000000001`))
			}},
			{"zero", func(e *zerolog.Event) *zerolog.Event { return e.Int("message", 0) }},
			{"duration", func(e *zerolog.Event) *zerolog.Event { return e.Dur("message", 1500*time.Millisecond) }},
			{"bool", func(e *zerolog.Event) *zerolog.Event { return e.Bool("message", true) }},
			{"null", func(e *zerolog.Event) *zerolog.Event { return e.Interface("message", nil) }},
			{"dict", func(e *zerolog.Event) *zerolog.Event { return e.Dict("message", zerolog.Dict().Int("n", 1)) }},
			{"strs", func(e *zerolog.Event) *zerolog.Event { return e.Strs("message", []string{"a", "b c"}) }},
			{"ints", func(e *zerolog.Event) *zerolog.Event { return e.Ints("message", []int{1, 2}) }},
			{"string-plain", func(e *zerolog.Event) *zerolog.Event { return e.Str("message", "field-text") }},
			{"string-with-space", func(e *zerolog.Event) *zerolog.Event { return e.Str("message", "field text \"q\"") }},
			{"string-digits", func(e *zerolog.Event) *zerolog.Event { return e.Str("message", "42") }},
			{"time", func(e *zerolog.Event) *zerolog.Event { return e.Time("message", time.Unix(1577934245, 0).UTC()) }},
		}
		levels := []zerolog.Level{zerolog.InfoLevel, zerolog.DebugLevel, zerolog.ErrorLevel, zerolog.NoLevel}
		n := 0
		for vi, v := range vals {
			for fin := 0; fin < 3; fin++ {
				lvl := levels[(vi+fin)%len(levels)]
				ev := logged(func(l zerolog.Logger) {
					e := l.WithLevel(lvl)
					if (vi+fin)%2 == 0 {
						e = e.Str("foo", "bar")
					}
					e = v.add(e)
					if fin == 2 {
						e = e.Int("zz", 1)
					}
					switch fin {
					case 0:
						e.Send()
					case 1:
						e.Msg("")
					default:
						e.Msg("the text")
					}
				})
				cs := def(ev)
				switch n % 4 {
				case 1:
					cs.Opts.PartsOrderSet, cs.Opts.PartsOrder = true, []string{"message", "level"}
				case 2:
					cs.Opts.PartsOrderSet, cs.Opts.PartsOrder = true, []string{"level", "foo", "message"}
				case 3:
					cs.Opts.FieldsExclude = []string{"message", "foo"}
				}
				emit(cs, "directed-message")
				n++
			}
		}
		// the same under the other three part names (what they print is not fixed by the text; model only)
		for _, name := range []string{"level", "caller", "time"} {
			for _, raw := range []string{`7`, `2.5`, `true`, `{"a":1}`} {
				emit(def(logged(func(l zerolog.Logger) { l.Info().Str("k", "v").RawJSON(name, []byte(raw)).Send() })), "directed-message")
			}
		}
	}

	// ---- directed: values of every JSON shape under every documented special field name (shapes.go)
	shapeSweep(emit, logged, def, c.Hist)

	// ---- directed: the ways of arriving at one configuration (construct.go).  Every construction as the FIRST
	// rendering (the one the model predicts) and as the last, against the struct literal in between, over
	// configurations in which every option matters for the line.
	{
		ev := logged(func(l zerolog.Logger) {
			ll := l.With().Timestamp().Logger()
			ll.Warn().Str("caller", cwd+"/pkg/file.go:42").Str("aardvark", "Able").Int("badger", 7).Str("mussel", "Mountain").Str("zebra", "Zulu").Err(fmt.Errorf("boom")).Msg("Zoo")
		})
		confs := []func(o *Opts){
			func(o *Opts) { o.FieldsOrder = []string{"zebra", "mussel"} },
			func(o *Opts) { o.FieldsOrder = []string{"mussel", "nope", "aardvark", "zebra"} },
			func(o *Opts) { o.FieldsOrder = []string{"badger"}; o.FieldsExclude = []string{"aardvark"} },
			func(o *Opts) { o.FieldsExclude = []string{"zebra", "error"} },
			func(o *Opts) { o.PartsOrderSet, o.PartsOrder = true, []string{"message", "level", "zebra"} },
			func(o *Opts) { o.PartsOrderSet, o.PartsOrder = true, []string{} },
			func(o *Opts) { o.PartsExclude = []string{"time", "caller"}; o.FieldsOrder = []string{"zebra"} },
			func(o *Opts) { o.TimeFormat = time.RFC3339Nano; o.Loc = "330" },
			func(o *Opts) { o.TimeFormat = time.StampMicro; o.Loc = "nil"; o.FieldsOrder = []string{"error", "zebra"} },
			func(o *Opts) {},
		}
		for _, mode := range constructModes {
			for ci, conf := range confs {
				cs := def(ev)
				conf(&cs.Opts)
				// distinct configurations per construction (the case key is event + options)
				cs.Opts.FieldsExclude = append(cs.Opts.FieldsExclude, "verif-"+mode)
				cs.Constructions = []string{mode, "literal", mode, constructModes[ci%len(constructModes)], mode}
				emit(cs, "directed-construction")
			}
		}
	}

	// ---- random
	nrand := 5000
	if c.Thorough() {
		nrand = 40000
	}
	kinds := map[string]int{}
	keyClasses := map[string]int{}
	for i := 0; i < nrand; i++ {
		r := root.Fork()
		tff := timeFieldFormats[r.Intn(len(timeFieldFormats))]
		zerolog.TimeFieldFormat = tff
		st := &evStats{kinds: kinds, keyClasses: keyClasses}
		ev := genEvent(r, st)
		c.Hist("event_level", st.level)
		c.Hist("event_msg", st.msg)
		if r.Chance(8) {
			// written under one TimeFieldFormat, read under another
			tff = timeFieldFormats[r.Intn(len(timeFieldFormats))]
		}
		zerolog.TimeFieldFormat = "2006-01-02T15:04:05Z07:00"
		if r.Bool() {
			ev = bytes.TrimSuffix(ev, []byte("\n"))
		}
		dec := decodeEvent(ev)
		var keys []string
		for _, e := range dec.kvs {
			keys = append(keys, e.k)
		}
		sort.Strings(keys)
		cs := &Case{Event: ev, Opts: genOpts(r, keys, tff)}
		emit(cs, "random")
		// the same event under a second, independent option set
		if r.Chance(25) {
			emit(&Case{Event: ev, Opts: genOpts(r, keys, tff)}, "random")
		}
	}
	if interiorNL > 0 {
		c.Note("reading: %d of the rendered lines contain a newline before the final one (message, keys and part values are written verbatim); only the final newline is asserted", interiorNL)
	}
	for k, v := range kinds {
		c.Res.Histograms["field_method"] = mergeHist(c.Res.Histograms["field_method"], k, v)
	}
	for k, v := range keyClasses {
		c.Res.Histograms["key_class"] = mergeHist(c.Res.Histograms["key_class"], k, v)
	}

	// ---- malformed stream (outside the property: model correspondence only)
	bad := []string{"", "{", "}", "[1,2]", `{"a":}`, "null", `"str"`, "123", `{"a":1} trailing`, `{"a":1}{"b":2}`, "{\"a\":1}\n\n", `{"a":1,}`, `{'a':1}`,
		`{"a":"\xff"}`, `{"a":"\ud800"}`, `{"a":01}`, `{"a":1e999}`, `{"level":"info","a":tru}`, "\x00", `{"a":"` + strings.Repeat("x", 300), ` {"sp":1}`, "{\"\":{}}", `{"a":{"b":[}}`, `{"k":1,"k":2,"k":{"z":null}}`}
	for _, s := range bad {
		emit(def([]byte(s)), "malformed")
	}
	for i := 0; i < 60; i++ {
		r := root.Fork()
		ev := genEvent(r, nil)
		if len(ev) > 2 {
			switch r.Intn(3) {
			case 0:
				ev = ev[:r.Intn(len(ev))]
			case 1:
				ev[r.Intn(len(ev))] = byte(r.Intn(256))
			default:
				p := r.Intn(len(ev))
				ev = append(append(append([]byte{}, ev[:p]...), byte(r.Intn(256))), ev[p:]...)
			}
		}
		emit(def(ev), "malformed")
	}

	// ---- the shipped front end: streams of events through cmd/prettylog of the repository under test (prettylog.go)
	prettylogScenario(c, nil)
}

func mergeHist(m map[string]int, k string, v int) map[string]int {
	if m == nil {
		m = map[string]int{}
	}
	m[k] += v
	return m
}
