package main

// What the model is given for one case: the event as encoding/json decodes it
// (UseNumber, map semantics), and the Go standard library's answers to the
// questions this event can raise.  Everything here is computed from the INPUT
// (event bytes + options) with the standard library only; nothing is taken
// from ConsoleWriter's output.

import (
	"bytes"
	"encoding/json"
	"fmt"
	"os"
	"path/filepath"
	"strconv"
	"strings"
	"time"

	. "verifharness/hlib"
)

type cval struct {
	kind string // str num bool null other
	s    string // text (str: decoded string; num: literal; other: compact JSON)
	b    bool
	v    interface{} // the Go value
}

type kv struct {
	k string
	v cval
}

type decoded struct {
	ok  bool
	kvs []kv // in the order the map was iterated here
	m   map[string]interface{}
}

func compactJSON(v interface{}, escapeHTML bool) string {
	var buf bytes.Buffer
	enc := json.NewEncoder(&buf)
	enc.SetEscapeHTML(escapeHTML)
	if err := enc.Encode(v); err != nil {
		return "<marshal error>"
	}
	return strings.TrimSuffix(buf.String(), "\n")
}

func toCval(v interface{}) cval {
	switch x := v.(type) {
	case string:
		return cval{kind: "str", s: x, v: v}
	case json.Number:
		return cval{kind: "num", s: string(x), v: v}
	case bool:
		return cval{kind: "bool", b: x, v: v}
	case nil:
		return cval{kind: "null", v: nil}
	default:
		return cval{kind: "other", s: compactJSON(v, false), v: v}
	}
}

func decodeEvent(p []byte) decoded {
	var m map[string]interface{}
	d := json.NewDecoder(bytes.NewReader(p))
	d.UseNumber()
	if err := d.Decode(&m); err != nil {
		return decoded{}
	}
	dec := decoded{ok: true, m: m}
	for k, v := range m {
		dec.kvs = append(dec.kvs, kv{k, toCval(v)})
	}
	return dec
}

func (d decoded) get(k string) cval {
	if v, ok := d.m[k]; ok {
		return toCval(v)
	}
	return cval{kind: "null"}
}

type tables struct {
	quote    [][2]string
	sprint   []kv // value -> text (k unused; text in kv.k)
	upper    [][2]string
	fold     [][3]string // a, b, "1"/"0"
	atoi     []optZ
	int64s   []optZ
	timeStr  []optS
	timeUnix []unixS
	rel      []optS
}
type optZ struct {
	k  string
	ok bool
	z  int64
}
type optS struct {
	k  string
	ok bool
	s  string
}
type unixS struct {
	sec, nsec int64
	s         string
}

var levelNames = []string{"trace", "debug", "info", "warn", "error", "fatal", "panic", "disabled", ""}

func first3(s string) string {
	if len(s) > 3 {
		return s[:3]
	}
	return s
}

var cwd string

func init() {
	cwd, _ = os.Getwd()
	time.Local = time.UTC
}

func buildTables(d decoded, o Opts) tables {
	var t tables
	if !d.ok {
		return t
	}
	seenQ := map[string]bool{}
	for _, e := range d.kvs {
		if e.v.kind == "str" && !seenQ[e.v.s] {
			seenQ[e.v.s] = true
			t.quote = append(t.quote, [2]string{e.v.s, strconv.Quote(e.v.s)})
		}
	}
	// fmt %s of the values that reach a part formatter
	parts := []string{"time", "level", "caller", "message"}
	if o.PartsOrderSet {
		parts = o.PartsOrder
	}
	seenS := map[string]bool{}
	addSprint := func(v cval) string {
		s := fmt.Sprintf("%s", v.v)
		key := v.kind + ":" + v.s + fmt.Sprint(v.b)
		if v.kind != "str" && v.kind != "num" && !seenS[key] {
			seenS[key] = true
			t.sprint = append(t.sprint, kv{s, v})
		}
		return s
	}
	seenU := map[string]bool{}
	for _, p := range append([]string{"level", "message"}, parts...) {
		v := d.get(p)
		s := addSprint(v)
		if p == "level" {
			u := first3(s)
			if !seenU[u] {
				seenU[u] = true
				t.upper = append(t.upper, [2]string{u, strings.ToUpper(u)})
			}
			if v.kind == "str" {
				for _, n := range levelNames {
					b := "0"
					if strings.EqualFold(v.s, n) {
						b = "1"
					}
					t.fold = append(t.fold, [3]string{v.s, n, b})
				}
				i, err := strconv.Atoi(v.s)
				t.atoi = append(t.atoi, optZ{v.s, err == nil, int64(i)})
			}
		}
	}
	// timestamp
	loc := o.location()
	if loc == nil {
		loc = time.Local
	}
	tf := o.TimeFormat
	if tf == "" {
		tf = time.Kitchen
	}
	switch v := d.get("time"); v.kind {
	case "str":
		ts, err := time.ParseInLocation(o.TimeFieldFormat, v.s, loc)
		if err != nil {
			t.timeStr = append(t.timeStr, optS{v.s, false, ""})
		} else {
			t.timeStr = append(t.timeStr, optS{v.s, true, ts.In(loc).Format(tf)})
		}
	case "num":
		i, err := strconv.ParseInt(v.s, 10, 64)
		t.int64s = append(t.int64s, optZ{v.s, err == nil, i})
		if err == nil {
			var sec, nsec int64
			switch o.TimeFieldFormat {
			case "UNIXNANO":
				nsec = i
			case "UNIXMICRO":
				nsec = i * 1000
			case "UNIXMS":
				nsec = i * 1000000
			default:
				sec = i
			}
			t.timeUnix = append(t.timeUnix, unixS{sec, nsec, time.Unix(sec, nsec).In(loc).Format(tf)})
		}
	}
	if v := d.get("caller"); v.kind == "str" && v.s != "" {
		rel, err := filepath.Rel(cwd, v.s)
		t.rel = append(t.rel, optS{v.s, err == nil, rel})
	}
	return t
}

// ---------------------------------------------------------------- Gallina printers

func cb(s string) string { return CoqBytes([]byte(s)) }

func cbList(xs []string) string {
	ys := make([]string, len(xs))
	for i, x := range xs {
		ys[i] = cb(x)
	}
	return CoqList(ys)
}

func (v cval) coq() string {
	switch v.kind {
	case "str":
		return "CStr " + cb(v.s)
	case "num":
		return "CNum " + cb(v.s)
	case "bool":
		return "CBool " + CoqBool(v.b)
	case "null":
		return "CNull"
	default:
		return "COther " + cb(v.s)
	}
}

func (d decoded) coq() string {
	if !d.ok {
		return "None"
	}
	xs := make([]string, len(d.kvs))
	for i, e := range d.kvs {
		xs[i] = "(" + cb(e.k) + "," + e.v.coq() + ")"
	}
	return "(Some " + CoqList(xs) + ")"
}

func (o Opts) timeUnit() string {
	switch o.TimeFieldFormat {
	case "UNIXNANO":
		return "TUNano"
	case "UNIXMICRO":
		return "TUMicro"
	case "UNIXMS":
		return "TUMs"
	}
	return "TUSec"
}

func (o Opts) coq() string {
	po := "None"
	if o.PartsOrderSet {
		po = "(Some " + cbList(o.PartsOrder) + ")"
	}
	return fmt.Sprintf("mko %s %s %s %s %s", po, cbList(o.PartsExclude), cbList(o.FieldsOrder), cbList(o.FieldsExclude), o.timeUnit())
}

func coqOptZ(ok bool, z int64) string {
	if !ok {
		return "None"
	}
	return "(Some " + CoqZ(z) + "%Z)"
}
func coqOptS(ok bool, s string) string {
	if !ok {
		return "None"
	}
	return "(Some " + cb(s) + ")"
}

func (t tables) coq() string {
	var q, sp, up, fo, at, i64, ts, tu, rl []string
	for _, e := range t.quote {
		q = append(q, "("+cb(e[0])+","+cb(e[1])+")")
	}
	for _, e := range t.sprint {
		sp = append(sp, "("+e.v.coq()+","+cb(e.k)+")")
	}
	for _, e := range t.upper {
		up = append(up, "("+cb(e[0])+","+cb(e[1])+")")
	}
	for _, e := range t.fold {
		fo = append(fo, "("+cb(e[0])+","+cb(e[1])+","+CoqBool(e[2] == "1")+")")
	}
	for _, e := range t.atoi {
		at = append(at, "("+cb(e.k)+","+coqOptZ(e.ok, e.z)+")")
	}
	for _, e := range t.int64s {
		i64 = append(i64, "("+cb(e.k)+","+coqOptZ(e.ok, e.z)+")")
	}
	for _, e := range t.timeStr {
		ts = append(ts, "("+cb(e.k)+","+coqOptS(e.ok, e.s)+")")
	}
	for _, e := range t.timeUnix {
		tu = append(tu, "("+CoqZ(e.sec)+"%Z,"+CoqZ(e.nsec)+"%Z,"+cb(e.s)+")")
	}
	for _, e := range t.rel {
		rl = append(rl, "("+cb(e.k)+","+coqOptS(e.ok, e.s)+")")
	}
	return "T " + strings.Join([]string{CoqList(q), CoqList(sp), CoqList(up), CoqList(fo), CoqList(at), CoqList(i64), CoqList(ts), CoqList(tu), CoqList(rl)}, " ")
}
