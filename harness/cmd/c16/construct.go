package main

// Ways of arriving at one ConsoleWriter configuration.
//
// The property speaks of "the same event and configuration": the configuration is the value of
// the exported fields (PartsOrder, PartsExclude, FieldsOrder, FieldsExclude, TimeFormat,
// TimeLocation, NoColor, Out) at the time of the Write.  ConsoleWriter is a plain struct with
// exported fields and a constructor that takes option functions; the library's own examples
// build it as a literal, with NewConsoleWriter(options...), and with NewConsoleWriter() followed
// by assignments (w.NoColor = true, w.TimeFormat = ...).  Every such way must give the bytes the
// literal gives; a writer that was used under another configuration first and then re-assigned
// must behave like one built with the final values.

import (
	"bytes"
	"encoding/json"
	"sort"
	"time"

	"github.com/rs/zerolog"
)

// non-literal constructions, rotated over the later renderings of every case
var constructModes = []string{"new-then-assign", "new-with-options", "new-reconfigured", "literal-reconfigured", "new-with-split-options", "copied-after-use"}

var constructLegend = map[string]string{
	"literal":                "zerolog.ConsoleWriter{Out: out, NoColor: true, <fields>}",
	"new-then-assign":        "w := zerolog.NewConsoleWriter(); then every field assigned (w.Out = out; w.NoColor = true; w.FieldsOrder = ...; ...)",
	"new-with-options":       "zerolog.NewConsoleWriter(func(w *zerolog.ConsoleWriter) { every field assigned })",
	"new-with-split-options": "zerolog.NewConsoleWriter(opt1, opt2, opt3): the fields assigned by three option functions (exclusions, orders, time/out)",
	"new-reconfigured":       "w := zerolog.NewConsoleWriter(func(w) { a DIFFERENT configuration: other FieldsOrder/FieldsExclude/PartsOrder/PartsExclude/TimeFormat/TimeLocation, colour on }); w.Write(event) into a scratch buffer; then every field assigned to the final configuration",
	"literal-reconfigured":   "the same with a struct literal holding the different configuration first",
	"copied-after-use":       "w0 := literal; w0.Write(event) into a scratch buffer; w := w0 (struct copy); w.Out = out",
}

func (o Opts) assign(w *zerolog.ConsoleWriter, out *bytes.Buffer, reset bool) {
	w.Out = out
	w.NoColor = true
	w.TimeFormat = o.TimeFormat
	w.TimeLocation = o.location()
	w.PartsExclude = o.PartsExclude
	w.FieldsOrder = o.FieldsOrder
	w.FieldsExclude = o.FieldsExclude
	if o.PartsOrderSet {
		w.PartsOrder = o.PartsOrder
		if w.PartsOrder == nil {
			w.PartsOrder = []string{}
		}
	} else if reset {
		w.PartsOrder = nil // not set: the default parts
	}
}

func reversed(xs []string) []string {
	ys := make([]string, 0, len(xs))
	for i := len(xs) - 1; i >= 0; i-- {
		ys = append(ys, xs[i])
	}
	return ys
}

// decoy: a configuration that differs from o in every field that shapes the line
func (o Opts) decoy(event []byte) Opts {
	var m map[string]interface{}
	json.Unmarshal(event, &m)
	var keys []string
	for k := range m {
		if !isReserved(k) {
			keys = append(keys, k)
		}
	}
	sort.Strings(keys)
	d := Opts{TimeFieldFormat: o.TimeFieldFormat}
	// the event's own field names in descending order, then the final order reversed
	d.FieldsOrder = append(reversed(keys), reversed(o.FieldsOrder)...)
	d.FieldsOrder = append(d.FieldsOrder, "verif-decoy")
	if len(keys) > 0 && !inList(keys[0], o.FieldsExclude) {
		d.FieldsExclude = []string{keys[0]}
	}
	parts := []string{"time", "level", "caller", "message"}
	if o.PartsOrderSet {
		parts = o.PartsOrder
	}
	d.PartsOrderSet, d.PartsOrder = true, append(reversed(parts), "verif-decoy-part")
	for _, p := range []string{"level", "message", "time"} {
		if !inList(p, o.PartsExclude) {
			d.PartsExclude = append(d.PartsExclude, p)
			break
		}
	}
	d.TimeFormat = time.RFC1123
	if o.TimeFormat == d.TimeFormat {
		d.TimeFormat = time.StampMicro
	}
	d.Loc = "765"
	if o.Loc == d.Loc {
		d.Loc = "-420"
	}
	return d
}

// writerVia builds the writer of one rendering.
func (o Opts) writerVia(mode string, out *bytes.Buffer, event []byte) zerolog.ConsoleWriter {
	var scratch bytes.Buffer
	switch mode {
	case "new-then-assign":
		w := zerolog.NewConsoleWriter()
		o.assign(&w, out, false)
		return w
	case "new-with-options":
		return zerolog.NewConsoleWriter(func(w *zerolog.ConsoleWriter) { o.assign(w, out, false) })
	case "new-with-split-options":
		return zerolog.NewConsoleWriter(
			func(w *zerolog.ConsoleWriter) { w.PartsExclude, w.FieldsExclude = o.PartsExclude, o.FieldsExclude },
			func(w *zerolog.ConsoleWriter) {
				w.FieldsOrder = o.FieldsOrder
				if o.PartsOrderSet {
					w.PartsOrder = o.PartsOrder
					if w.PartsOrder == nil {
						w.PartsOrder = []string{}
					}
				}
			},
			func(w *zerolog.ConsoleWriter) {
				w.Out, w.NoColor, w.TimeFormat, w.TimeLocation = out, true, o.TimeFormat, o.location()
			})
	case "new-reconfigured":
		d := o.decoy(event)
		w := zerolog.NewConsoleWriter(func(w *zerolog.ConsoleWriter) { d.assign(w, &scratch, false); w.NoColor = false })
		constructWrite(w, event)
		o.assign(&w, out, true)
		return w
	case "literal-reconfigured":
		d := o.decoy(event)
		w := d.writer(&scratch)
		w.NoColor = false
		constructWrite(w, event)
		o.assign(&w, out, true)
		return w
	case "copied-after-use":
		w0 := o.writer(&scratch)
		constructWrite(w0, event)
		w := w0
		w.Out = out
		return w
	}
	return o.writer(out)
}

func constructWrite(w zerolog.ConsoleWriter, event []byte) {
	if _, _, pan := safeWrite(w, event); pan != "" && constructPanic == "" {
		constructPanic = pan
	}
}
