package main

// Generators for C16: events are produced by REALLY logging through zerolog
// (every field method, context fields, nesting, duplicate and colliding
// keys, every string escaping class), option sets for ConsoleWriter.

import (
	"bytes"
	"errors"
	"fmt"
	"math"
	"net"
	"time"

	"github.com/rs/zerolog"
	. "verifharness/hlib"
)

// ---------------------------------------------------------------- strings

var strClasses = []struct {
	name string
	gen  func(r *Rng) string
}{
	{"empty", func(r *Rng) string { return "" }},
	{"plain", func(r *Rng) string {
		return pick(r, []string{"a", "ok", "value", "x1", "hello-world", "GET", "/api/v1/users", "0", "true", "null", "a=b", "it's", "[1,2]", "{}", "<tag>&amp;", "~", "!#$%&'()*+,-./:;<=>?@[]^_`{|}~"})
	}},
	{"space", func(r *Rng) string {
		return pick(r, []string{" ", "a b", " lead", "trail ", "two  spaces", "the quick brown fox"})
	}},
	{"quote", func(r *Rng) string { return pick(r, []string{"\"", "say \"hi\"", "a\"b", "\"quoted\""}) }},
	{"backslash", func(r *Rng) string { return pick(r, []string{"\\", "C:\\dir\\file", "a\\nb", "\\\\"}) }},
	{"ctl-short", func(r *Rng) string {
		return pick(r, []string{"\b", "\f", "\n", "\r", "\t", "line1\nline2", "tab\there", "cr\r\n"})
	}},
	{"ctl-other", func(r *Rng) string {
		return pick(r, []string{"\x00", "\x01", "\x1f", "a\x1bb", "\x07bell", "nul\x00mid"})
	}},
	{"del", func(r *Rng) string { return pick(r, []string{"\x7f", "a\x7fb", "del\x7f"}) }},
	{"boundary", func(r *Rng) string {
		b := []byte{0x1f, 0x20, 0x21, 0x22, 0x23, 0x5b, 0x5c, 0x5d, 0x7e, 0x7f, 0x80}
		return "b" + string([]byte{b[r.Intn(len(b))]}) + "b"
	}},
	{"utf8-2", func(r *Rng) string { return pick(r, []string{"é", "caf\u00e9", "\u00a0", "\u07ff", "ß"}) }},
	{"utf8-3", func(r *Rng) string {
		return pick(r, []string{"€", "\u2028", "\u2029", "日本語", "\uffff", "\ufffd", "\u0800", "\ud7ff", "\ue000"})
	}},
	{"utf8-4", func(r *Rng) string { return pick(r, []string{"😀", "\U00010000", "\U0010ffff", "a😀b"}) }},
	{"invalid-utf8", func(r *Rng) string {
		return pick(r, []string{"\xff", "\xfe", "\x80", "\xbf", "a\xc0\xafb", "\xc1\xbf", "\xe2\x82", "\xe2", "\xed\xa0\x80", "\xed\xbf\xbf", "\xf0\x9f\x98", "\xf4\x90\x80\x80", "\xf5\x80\x80\x80", "\xe0\x80\x80", "\xf0\x80\x80\x80", "ok\xffok"})
	}},
	{"long", func(r *Rng) string {
		n := []int{99, 100, 101, 255, 256, 500}[r.Intn(6)]
		b := make([]byte, n)
		for i := range b {
			b[i] = byte('a' + (i % 26))
		}
		if r.Chance(30) {
			b[n/2] = ' '
		}
		return string(b)
	}},
	{"random", func(r *Rng) string {
		n := r.Intn(12)
		b := make([]byte, n)
		for i := range b {
			switch r.Intn(5) {
			case 0:
				b[i] = byte(r.Intn(256))
			default:
				b[i] = byte(0x21 + r.Intn(0x7e-0x21+1))
			}
		}
		return string(b)
	}},
}

func pick(r *Rng, xs []string) string { return xs[r.Intn(len(xs))] }

func genStr(r *Rng) (string, string) {
	// plain strings half of the time, the other classes share the rest
	if r.Chance(35) {
		return strClasses[1].gen(r), "plain"
	}
	c := strClasses[r.Intn(len(strClasses))]
	return c.gen(r), c.name
}

// ---------------------------------------------------------------- keys

var plainKeys = []string{"a", "b", "c", "foo", "bar", "user", "id", "n", "zz", "A", "Z", "_", "count", "elapsed", "req_id"}
var reservedKeys = []string{"level", "time", "message", "caller", "error", "stack"}
var nearErrorKeys = []string{"erro", "errorx", "error ", "errop", "err", "Error", "errors", "f", "e", "d", "errnr", "ERROR", "error\x00"}
var weirdKeys = []string{"a b", "a=b", "k\"q", "k\\", "k\nl", "é", "k\xff", "k\ufffd", "k\xfe", " ", "=", "\t", "日本", "k\x7f", "a.b", "a b=c d", "\"\"", "x=1 y"}

func genKey(r *Rng, used []string) (string, string) {
	switch k := r.Intn(100); {
	case k < 40:
		return pick(r, plainKeys), "plain"
	case k < 50:
		return "", "empty"
	case k < 60:
		return pick(r, reservedKeys), "reserved"
	case k < 72:
		return pick(r, nearErrorKeys), "near-error"
	case k < 84:
		return pick(r, weirdKeys), "weird"
	case k < 94 && len(used) > 0:
		return used[r.Intn(len(used))], "duplicate"
	default:
		s, _ := genStr(r)
		return s, "string-class"
	}
}

// ---------------------------------------------------------------- values

type stringerT struct{ s string }

func (s stringerT) String() string { return s.s }

type objM struct{ fs []func(e *zerolog.Event) }

func (o objM) MarshalZerologObject(e *zerolog.Event) {
	for _, f := range o.fs {
		f(e)
	}
}

type errObj struct{ objM }

func (e errObj) Error() string { return "errobj" }

type sampleStruct struct {
	Name string            `json:"name"`
	N    int               `json:"n"`
	Tags []string          `json:"tags,omitempty"`
	M    map[string]string `json:"m,omitempty"`
	P    *int              `json:"p"`
	HTML string            `json:"html"`
}

func genInt64(r *Rng) int64 {
	switch r.Intn(8) {
	case 0:
		return 0
	case 1:
		return math.MaxInt64 - int64(r.Intn(3))
	case 2:
		return math.MinInt64 + int64(r.Intn(3))
	case 3:
		return int64(r.Intn(2000)) - 1000
	case 4:
		return int64(1) << uint(r.Intn(63))
	default:
		return r.Int64() >> uint(r.Intn(64))
	}
}

func genFloat(r *Rng) float64 {
	switch r.Intn(12) {
	case 0:
		return math.NaN()
	case 1:
		return math.Inf(1)
	case 2:
		return math.Inf(-1)
	case 3:
		return 0
	case 4:
		return math.Copysign(0, -1)
	case 5:
		return 1e21
	case 6:
		return 1e-7
	case 7:
		return math.MaxFloat64
	case 8:
		return math.SmallestNonzeroFloat64
	case 9:
		return float64(r.Intn(100000)) / 100
	default:
		return math.Float64frombits(r.Next())
	}
}

func genTime(r *Rng) time.Time {
	switch r.Intn(8) {
	case 0:
		return time.Time{}
	case 1:
		return time.Unix(0, 0)
	case 2:
		return time.Unix(int64(r.Intn(2000000000)), int64(r.Intn(1000000000))).In(time.FixedZone("", 3600*(r.Intn(25)-12)))
	case 3:
		return time.Date(9999+r.Intn(3), 12, 31, 23, 59, 59, 999999999, time.UTC)
	case 4:
		return time.Date(-r.Intn(3), 1, 1, 0, 0, 0, 0, time.UTC)
	default:
		return time.Unix(1500000000+int64(r.Intn(300000000)), int64(r.Intn(1000))*1000000).UTC()
	}
}

func genDur(r *Rng) time.Duration {
	switch r.Intn(5) {
	case 0:
		return 0
	case 1:
		return time.Duration(r.Intn(5000)) * time.Millisecond
	case 2:
		return time.Duration(genInt64(r))
	default:
		return time.Duration(r.Intn(1000000000))
	}
}

func genErr(r *Rng, depth int) (error, string) {
	switch r.Intn(6) {
	case 0:
		return nil, "nil"
	case 1:
		s, _ := genStr(r)
		return errors.New(s), "plain"
	case 2:
		return fmt.Errorf("wrap: %w", errors.New("inner cause")), "wrapped"
	case 3:
		if depth > 0 {
			o := errObj{}
			n := r.Intn(3)
			for i := 0; i < n; i++ {
				o.fs = append(o.fs, genAdder(r, depth-1, nil))
			}
			return o, "object"
		}
		return errors.New("boom"), "plain"
	default:
		return errors.New(pick(r, []string{"boom", "connection refused", "EOF", "file \"x\" not found", "bad\nnewline"})), "plain"
	}
}

var rawJSONs = []string{`1`, `-0.5e+3`, `"s"`, `null`, `true`, `{}`, `[]`, `{"a":1,"a":2}`, `[1,"two",{"three":3}]`, `{"k":{"k":{"k":[null]}}}`, `"\u00e9\ud83d\ude00"`, `{"<":">","&":"\u2028"}`, ` { "sp" : [ 1 , 2 ] } `, `1.0`, `1E5`, `12345678901234567890123`, `{"b":1,"a":2}`}

// genAdder picks a field method and returns a closure that applies it to an
// event (so that the same choice can be applied to nested Dict/Object events).
func genAdder(r *Rng, depth int, stat func(kind, keyClass string)) func(e *zerolog.Event) {
	var used []string
	return genAdderK(r, depth, stat, &used)
}

func genAdderK(r *Rng, depth int, stat func(kind, keyClass string), used *[]string) func(e *zerolog.Event) {
	key, kc := genKey(r, *used)
	*used = append(*used, key)
	kinds := 46
	k := r.Intn(kinds)
	if depth <= 0 && (k >= 30 && k <= 35) {
		k = r.Intn(12)
	}
	note := func(kind string) {
		if stat != nil {
			stat(kind, kc)
		}
	}
	switch k {
	case 0, 1, 2, 3, 4, 5, 6, 7:
		s, cls := genStr(r)
		note("Str/" + cls)
		return func(e *zerolog.Event) { e.Str(key, s) }
	case 8:
		n := r.Intn(4)
		ss := make([]string, n)
		for i := range ss {
			ss[i], _ = genStr(r)
		}
		note("Strs")
		return func(e *zerolog.Event) { e.Strs(key, ss) }
	case 9:
		s, _ := genStr(r)
		note("Bytes")
		return func(e *zerolog.Event) { e.Bytes(key, []byte(s)) }
	case 10:
		s, _ := genStr(r)
		note("Hex")
		return func(e *zerolog.Event) { e.Hex(key, []byte(s)) }
	case 11:
		v := genInt64(r)
		note("Int")
		return func(e *zerolog.Event) { e.Int(key, int(v)) }
	case 12:
		v := genInt64(r)
		note("Int8")
		return func(e *zerolog.Event) { e.Int8(key, int8(v)) }
	case 13:
		v := genInt64(r)
		note("Int16/32")
		if r.Bool() {
			return func(e *zerolog.Event) { e.Int16(key, int16(v)) }
		}
		return func(e *zerolog.Event) { e.Int32(key, int32(v)) }
	case 14:
		v := genInt64(r)
		note("Int64")
		return func(e *zerolog.Event) { e.Int64(key, v) }
	case 15:
		v := uint64(genInt64(r))
		note("Uint64")
		if r.Chance(30) {
			v = math.MaxUint64 - uint64(r.Intn(3))
		}
		return func(e *zerolog.Event) { e.Uint64(key, v) }
	case 16:
		v := uint64(genInt64(r))
		note("Uint8/16/32")
		switch r.Intn(3) {
		case 0:
			return func(e *zerolog.Event) { e.Uint8(key, uint8(v)) }
		case 1:
			return func(e *zerolog.Event) { e.Uint16(key, uint16(v)) }
		}
		return func(e *zerolog.Event) { e.Uint32(key, uint32(v)) }
	case 17:
		f := genFloat(r)
		note("Float64")
		return func(e *zerolog.Event) { e.Float64(key, f) }
	case 18:
		f := float32(genFloat(r))
		note("Float32")
		return func(e *zerolog.Event) { e.Float32(key, f) }
	case 19:
		b := r.Bool()
		note("Bool")
		return func(e *zerolog.Event) { e.Bool(key, b) }
	case 20:
		n := r.Intn(4)
		bs := make([]bool, n)
		is := make([]int, n)
		fs := make([]float64, n)
		for i := range bs {
			bs[i] = r.Bool()
			is[i] = int(genInt64(r))
			fs[i] = genFloat(r)
		}
		switch r.Intn(3) {
		case 0:
			note("Bools")
			return func(e *zerolog.Event) { e.Bools(key, bs) }
		case 1:
			note("Ints")
			return func(e *zerolog.Event) { e.Ints(key, is) }
		}
		note("Floats64")
		return func(e *zerolog.Event) { e.Floats64(key, fs) }
	case 21:
		d := genDur(r)
		note("Dur")
		return func(e *zerolog.Event) { e.Dur(key, d) }
	case 22:
		ds := []time.Duration{genDur(r), genDur(r)}
		note("Durs")
		return func(e *zerolog.Event) { e.Durs(key, ds) }
	case 23:
		t := genTime(r)
		note("Time")
		return func(e *zerolog.Event) { e.Time(key, t) }
	case 24:
		ts := []time.Time{genTime(r), genTime(r)}
		note("Times")
		return func(e *zerolog.Event) { e.Times(key, ts) }
	case 25:
		t1, t2 := genTime(r), genTime(r)
		note("TimeDiff")
		return func(e *zerolog.Event) { e.TimeDiff(key, t1, t2) }
	case 26:
		err, ek := genErr(r, depth)
		note("Err/" + ek)
		return func(e *zerolog.Event) { e.Err(err) }
	case 27:
		err, ek := genErr(r, depth)
		note("AnErr/" + ek)
		return func(e *zerolog.Event) { e.AnErr(key, err) }
	case 28:
		e1, _ := genErr(r, depth)
		e2, _ := genErr(r, depth)
		note("Errs")
		return func(e *zerolog.Event) { e.Errs(key, []error{e1, e2}) }
	case 29:
		raw := pick(r, rawJSONs)
		note("RawJSON")
		return func(e *zerolog.Event) { e.RawJSON(key, []byte(raw)) }
	case 30, 31:
		n := r.Intn(4)
		var subs []func(e *zerolog.Event)
		var u []string
		for i := 0; i < n; i++ {
			subs = append(subs, genAdderK(r, depth-1, nil, &u))
		}
		note("Dict")
		return func(e *zerolog.Event) {
			d := zerolog.Dict()
			for _, f := range subs {
				f(d)
			}
			e.Dict(key, d)
		}
	case 32, 33:
		n := r.Intn(4)
		type el struct {
			k   int
			s   string
			i   int64
			f   float64
			sub []func(e *zerolog.Event)
		}
		els := make([]el, n)
		for i := range els {
			els[i].k = r.Intn(7)
			els[i].s, _ = genStr(r)
			els[i].i = genInt64(r)
			els[i].f = genFloat(r)
			if els[i].k >= 5 {
				var u []string
				for j := r.Intn(3); j > 0; j-- {
					els[i].sub = append(els[i].sub, genAdderK(r, depth-1, nil, &u))
				}
			}
		}
		note("Array")
		return func(e *zerolog.Event) {
			a := zerolog.Arr()
			for _, x := range els {
				switch x.k {
				case 0:
					a.Str(x.s)
				case 1:
					a.Int64(x.i)
				case 2:
					a.Float64(x.f)
				case 3:
					a.Bool(x.i&1 == 0)
				case 4:
					a.Interface(map[string]interface{}{"s": x.s})
				case 5:
					a.Object(objM{x.sub})
				default:
					d := zerolog.Dict()
					for _, f := range x.sub {
						f(d)
					}
					a.Dict(d)
				}
			}
			e.Array(key, a)
		}
	case 34:
		n := r.Intn(4)
		o := objM{}
		var u []string
		for i := 0; i < n; i++ {
			o.fs = append(o.fs, genAdderK(r, depth-1, nil, &u))
		}
		note("Object")
		return func(e *zerolog.Event) { e.Object(key, o) }
	case 35:
		n := r.Intn(3)
		o := objM{}
		for i := 0; i < n; i++ {
			o.fs = append(o.fs, genAdderK(r, depth-1, nil, used))
		}
		note("EmbedObject")
		return func(e *zerolog.Event) { e.EmbedObject(o) }
	case 36:
		var v interface{}
		s, _ := genStr(r)
		switch r.Intn(8) {
		case 0:
			v = nil
		case 1:
			x := r.Intn(100)
			v = sampleStruct{Name: s, N: x, Tags: []string{"t1", s}, P: &x, HTML: "<a href=\"x\">&</a>"}
		case 2:
			v = map[string]interface{}{"z": 1, "a": []interface{}{nil, true, 1.5, s}, s: map[string]int{"n": 1}}
		case 3:
			v = []interface{}{}
		case 4:
			v = s
		case 5:
			v = genFloat(r)
		case 6:
			v = make(chan int) // json.Marshal fails: zerolog logs a "marshaling error: ..." string
		default:
			v = []int{1, 2, 3}
		}
		note("Interface")
		return func(e *zerolog.Event) { e.Interface(key, v) }
	case 37:
		s, _ := genStr(r)
		note("Stringer")
		if r.Chance(20) {
			return func(e *zerolog.Event) { e.Stringer(key, nil) }
		}
		return func(e *zerolog.Event) { e.Stringer(key, stringerT{s}) }
	case 38:
		ip := net.IPv4(byte(r.Intn(256)), byte(r.Intn(256)), byte(r.Intn(256)), byte(r.Intn(256)))
		if r.Bool() {
			ip = net.ParseIP("2001:db8::ff00:42:8329")
		}
		note("IPAddr")
		return func(e *zerolog.Event) { e.IPAddr(key, ip) }
	case 39:
		note("IPPrefix/MACAddr")
		if r.Bool() {
			return func(e *zerolog.Event) {
				e.IPPrefix(key, net.IPNet{IP: net.IPv4(10, 0, 0, 0), Mask: net.CIDRMask(8, 32)})
			}
		}
		return func(e *zerolog.Event) { e.MACAddr(key, net.HardwareAddr{0, 0x1b, 0x2c, 0x3d, 0x4e, 0x5f}) }
	case 40:
		m := map[string]interface{}{}
		for i := r.Intn(4); i > 0; i-- {
			k2, _ := genKey(r, *used)
			*used = append(*used, k2)
			s, _ := genStr(r)
			switch r.Intn(5) {
			case 0:
				m[k2] = s
			case 1:
				m[k2] = genInt64(r)
			case 2:
				m[k2] = nil
			case 3:
				m[k2] = errors.New(s)
			default:
				m[k2] = []string{s}
			}
		}
		note("Fields(map)")
		return func(e *zerolog.Event) { e.Fields(m) }
	case 41:
		var l []interface{}
		for i := r.Intn(3); i > 0; i-- {
			k2, _ := genKey(r, *used)
			*used = append(*used, k2)
			s, _ := genStr(r)
			l = append(l, k2, s)
		}
		note("Fields(slice)")
		return func(e *zerolog.Event) { e.Fields(l) }
	case 42:
		note("Type")
		return func(e *zerolog.Event) { e.Type(key, sampleStruct{}) }
	case 43:
		s, _ := genStr(r)
		note("Any")
		return func(e *zerolog.Event) { e.Any(key, []interface{}{s, 1, nil}) }
	case 44:
		note("Timestamp")
		return func(e *zerolog.Event) { e.Timestamp() }
	default:
		note("Stack")
		return func(e *zerolog.Event) { e.Stack() }
	}
}

// ---------------------------------------------------------------- events

var timeFieldFormats = []string{time.RFC3339, time.RFC3339, time.RFC3339, time.RFC3339Nano, zerolog.TimeFormatUnix, zerolog.TimeFormatUnixMs, zerolog.TimeFormatUnixMicro, zerolog.TimeFormatUnixNano, time.RFC1123, "2006-01-02 15:04:05", time.Kitchen}

var evLevels = []zerolog.Level{zerolog.TraceLevel, zerolog.DebugLevel, zerolog.InfoLevel, zerolog.InfoLevel, zerolog.WarnLevel, zerolog.ErrorLevel, zerolog.FatalLevel, zerolog.PanicLevel, zerolog.NoLevel, zerolog.Level(9), zerolog.Level(-3), zerolog.Level(127), zerolog.Level(-128), zerolog.Disabled}

var clock time.Time

func init() {
	zerolog.TimestampFunc = func() time.Time { return clock }
	zerolog.SetGlobalLevel(zerolog.Level(-128))
	zerolog.ErrorHandler = func(err error) {}
}

// overrides of the reserved names by the user's own fields (any value type)
func genOverride(r *Rng) func(e *zerolog.Event) {
	name := pick(r, []string{"level", "time", "message", "caller", "level", "time"})
	switch r.Intn(12) {
	case 0:
		s, _ := genStr(r)
		return func(e *zerolog.Event) { e.Str(name, s) }
	case 1:
		v := genInt64(r)
		return func(e *zerolog.Event) { e.Int64(name, v) }
	case 2:
		return func(e *zerolog.Event) { e.Bool(name, true) }
	case 3:
		return func(e *zerolog.Event) { e.Interface(name, nil) }
	case 4:
		return func(e *zerolog.Event) { e.Dict(name, zerolog.Dict().Str("k", "v").Int("n", 1)) }
	case 5:
		return func(e *zerolog.Event) { e.Strs(name, []string{"x", "y z"}) }
	case 6:
		f := genFloat(r)
		return func(e *zerolog.Event) { e.Float64(name, f) }
	case 7:
		s := pick(r, []string{"INFO", "Warn", "diſabled", "disabled", "", "3", "+1", "-1", "007", "128", "-129", "99999999999999999999", "1e1", "trace ", "é", "ab", "abcd", "xyé", "x\u00e9z", "ı", "ǆx", "ﬁx", "12é"})
		return func(e *zerolog.Event) { e.Str("level", s) }
	case 8:
		s := pick(r, []string{"2020-01-02T03:04:05Z", "2020-01-02T03:04:05.123456789+05:30", "not a time", "", "3:04PM", "1577934245", "Mon, 02 Jan 2006 15:04:05 MST", "2006-01-02 15:04:05", "10000-01-01T00:00:00Z"})
		return func(e *zerolog.Event) { e.Str("time", s) }
	case 9:
		s := pick(r, []string{"1577934245", "1577934245123", "1577934245123456", "1577934245123456789", "9223372036854775807", "-9223372036854775808", "9223372036854775808", "1.5", "1e3", "-1", "0", "9223372036854775", "9223372036854776", "-62135596800", "253402300800"})
		return func(e *zerolog.Event) { e.RawJSON("time", []byte(s)) }
	case 10:
		s := pick(r, []string{"/verif/harness/cmd/c16/x.go:12", "x.go:1", "../up/y.go:3", "/", "", " ", "/abs/other/z.go:99", "rel/dir/f.go:7", "a b.go:1", "\u00e9.go:2", "/verif/harness", "./x.go:5"})
		return func(e *zerolog.Event) { e.Str("caller", s) }
	default:
		s, _ := genStr(r)
		return func(e *zerolog.Event) { e.Str("message", s) }
	}
}

type evStats struct {
	kinds, keyClasses map[string]int
	level             string
	msg               string
	ctxFields         int
}

// genEvent logs one event through a real Logger and returns the bytes written.
// TimeFieldFormat must already be set by the caller.
func genEvent(r *Rng, st *evStats) []byte {
	var buf bytes.Buffer
	clock = genTime(r)
	zerolog.DurationFieldInteger = r.Chance(20)
	zerolog.DurationFieldUnit = []time.Duration{time.Millisecond, time.Second, time.Nanosecond}[r.Intn(3)]
	stat := func(kind, kc string) {
		if st != nil {
			st.kinds[kind]++
			st.keyClasses[kc]++
		}
	}
	depth := 2
	l := zerolog.New(&buf)
	var used []string
	// context fields
	if r.Chance(45) {
		ctx := l.With()
		if r.Chance(70) {
			ctx = ctx.Timestamp()
		}
		if r.Chance(25) {
			ctx = ctx.Caller()
		}
		for i := r.Intn(3); i > 0; i-- {
			key, kc := genKey(r, used)
			used = append(used, key)
			s, cls := genStr(r)
			if st != nil {
				st.ctxFields++
			}
			switch r.Intn(7) {
			case 0:
				ctx = ctx.Int64(key, genInt64(r))
				stat("ctx.Int64", kc)
			case 1:
				ctx = ctx.Bool(key, r.Bool())
				stat("ctx.Bool", kc)
			case 2:
				ctx = ctx.Dict(key, zerolog.Dict().Str(s, s).Float64("f", genFloat(r)))
				stat("ctx.Dict", kc)
			case 3:
				ctx = ctx.Interface(key, map[string]interface{}{"k": s})
				stat("ctx.Interface", kc)
			case 4:
				e, _ := genErr(r, 0)
				ctx = ctx.Err(e)
				stat("ctx.Err", kc)
			default:
				ctx = ctx.Str(key, s)
				stat("ctx.Str/"+cls, kc)
			}
		}
		l = ctx.Logger()
	}
	lvl := evLevels[r.Intn(len(evLevels))]
	var e *zerolog.Event
	if lvl == zerolog.NoLevel && r.Bool() {
		e = l.Log()
	} else {
		e = l.WithLevel(lvl)
	}
	if st != nil {
		st.level = lvl.String()
	}
	if e == nil { // Disabled
		e = l.Log()
	}
	if r.Chance(40) {
		e = e.Timestamp()
	}
	if r.Chance(15) {
		e = e.Caller()
	}
	nf := r.Intn(9)
	if r.Chance(10) {
		nf += 6
	}
	for i := 0; i < nf; i++ {
		if r.Chance(12) {
			genOverride(r)(e)
			stat("override", "reserved")
			continue
		}
		genAdderK(r, depth, stat, &used)(e)
	}
	switch r.Intn(6) {
	case 0:
		e.Send()
		if st != nil {
			st.msg = "none"
		}
	case 1:
		e.Msg("")
		if st != nil {
			st.msg = "empty"
		}
	case 2:
		s, cls := genStr(r)
		e.Msgf("%s %d", s, r.Intn(10))
		if st != nil {
			st.msg = "Msgf/" + cls
		}
	default:
		s, cls := genStr(r)
		e.Msg(s)
		if st != nil {
			st.msg = "Msg/" + cls
		}
	}
	return append([]byte(nil), buf.Bytes()...)
}

// ---------------------------------------------------------------- options

type Opts struct {
	PartsOrder      []string // nil = not set
	PartsOrderSet   bool
	PartsExclude    []string
	FieldsOrder     []string
	FieldsExclude   []string
	TimeFormat      string
	Loc             string // "UTC", "nil", or "+hhmm"/"-hhmm" fixed offset in minutes encoded as e.g. "330"
	TimeFieldFormat string
}

var timeFormats = []string{"", "", time.Kitchen, time.RFC3339, time.RFC3339Nano, time.RFC1123, "15:04:05.000", time.StampMicro, "2006-01-02T15:04:05.999999999Z07:00 MST", "Jan _2 \"06\"", "unix"}
var locs = []string{"UTC", "UTC", "330", "-420", "0", "765", "nil"}

func shuffle(r *Rng, xs []string) []string {
	ys := append([]string(nil), xs...)
	for i := len(ys) - 1; i > 0; i-- {
		j := r.Intn(i + 1)
		ys[i], ys[j] = ys[j], ys[i]
	}
	return ys
}

func subset(r *Rng, xs []string, p int) []string {
	var ys []string
	for _, x := range xs {
		if r.Chance(p) {
			ys = append(ys, x)
		}
	}
	return ys
}

func genOpts(r *Rng, keys []string, tff string) Opts {
	o := Opts{TimeFieldFormat: tff}
	std := []string{"time", "level", "caller", "message"}
	extra := append([]string{"error", "nope", "", "stack"}, keys...)
	if r.Chance(55) {
		o.PartsOrderSet = true
		switch r.Intn(6) {
		case 0:
			o.PartsOrder = []string{}
		case 1:
			o.PartsOrder = shuffle(r, std)
		case 2:
			o.PartsOrder = subset(r, shuffle(r, std), 60)
			if o.PartsOrder == nil {
				o.PartsOrder = []string{}
			}
		default:
			po := subset(r, shuffle(r, std), 75)
			for i := r.Intn(3); i >= 0; i-- {
				po = append(po, extra[r.Intn(len(extra))])
			}
			if r.Chance(20) && len(po) > 0 {
				po = append(po, po[r.Intn(len(po))]) // a name twice
			}
			o.PartsOrder = shuffle(r, po)
		}
	}
	if r.Chance(35) {
		pool := append(append([]string{}, std...), extra...)
		o.PartsExclude = subset(r, pool, 25)
	}
	if r.Chance(50) {
		pool := append(append([]string{}, keys...), "error", "nope", "level", "zz", "", "a")
		fo := subset(r, shuffle(r, pool), 45)
		if r.Chance(15) && len(fo) > 0 {
			fo = append(fo, fo[r.Intn(len(fo))]) // a name twice
		}
		o.FieldsOrder = fo
	}
	if r.Chance(45) {
		pool := append(append([]string{}, keys...), "error", "nope", "time", "", "k\xff")
		o.FieldsExclude = subset(r, pool, 30)
	}
	o.TimeFormat = timeFormats[r.Intn(len(timeFormats))]
	o.Loc = locs[r.Intn(len(locs))]
	return o
}

func (o Opts) location() *time.Location {
	switch o.Loc {
	case "UTC":
		return time.UTC
	case "nil":
		return nil
	}
	var m int
	fmt.Sscanf(o.Loc, "%d", &m)
	return time.FixedZone(fmt.Sprintf("Z%d", m), m*60)
}

func (o Opts) writer(out *bytes.Buffer) zerolog.ConsoleWriter {
	w := zerolog.ConsoleWriter{Out: out, NoColor: true, TimeFormat: o.TimeFormat, TimeLocation: o.location(),
		PartsExclude: o.PartsExclude, FieldsOrder: o.FieldsOrder, FieldsExclude: o.FieldsExclude}
	if o.PartsOrderSet {
		w.PartsOrder = o.PartsOrder
		if w.PartsOrder == nil {
			w.PartsOrder = []string{}
		}
	}
	return w
}
