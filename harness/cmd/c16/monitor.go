package main

// Monitors for C16: the property text stated on what the real ConsoleWriter
// wrote.  Nothing here is shared with the Coq model: the event is decoded
// again with encoding/json, the expected field set / order / quoting are
// computed from the property text, and the observed line is parsed back with
// the known option set.  Where the text leaves a choice (error position under
// FieldsOrder, a name listed twice in FieldsOrder, HTML
// escaping inside compact JSON) every choice is accepted.  The text of a part
// is not fixed by the property; only "the PartsOrder entries minus
// PartsExclude, in order, before the fields" is checked (partsSection).

import (
	"bytes"
	"encoding/json"
	"fmt"
	"math"
	"sort"
	"strconv"
	"strings"
	"time"

	. "verifharness/hlib"
)

type obs struct {
	outs   [][]byte
	ns     []int
	errs   []bool
	panics []string // per rendering: the value of a panic out of Write ("" = none)
}

// auxPanicked: set by c16monitor; called when one of the auxiliary renderings a monitor makes (the same
// event with one part alone and every field excluded) panics.  That rendering is itself a valid event
// under a valid configuration, so the panic is reported with THAT configuration as the input.
var auxPanicked func(cs *Case, msg string)

// auxRender renders the event of cs once under the options o1 (struct-literal writer).
func auxRender(cs *Case, o1 Opts) (string, bool) {
	cs1 := &Case{Event: cs.Event, Opts: o1, ErrName: cs.ErrName}
	ob := render(cs1, 1)
	if ob.panics[0] != "" {
		if auxPanicked != nil {
			auxPanicked(cs1, ob.panics[0])
		}
		return "", false
	}
	return strings.TrimSuffix(string(ob.outs[0]), "\n"), true
}

func isReserved(k string) bool {
	return k == "level" || k == "time" || k == "message" || k == "caller"
}

func inList(k string, l []string) bool {
	for _, x := range l {
		if x == k {
			return true
		}
	}
	return false
}

// the bytes the property text names
func textSpecial(s string) (must bool, may bool) {
	for i := 0; i < len(s); i++ {
		c := s[i]
		// control bytes are the ASCII control characters 0x00-0x1f and DEL (0x7f)
		if c == ' ' || c == '"' || c == '\\' || c < 0x20 || c >= 0x7f {
			must = true
		}
	}
	return
}

// acceptable renderings of a value (strict = what the property text allows)
func valueForms(v interface{}, strict bool) []string {
	switch x := v.(type) {
	case string:
		must, may := textSpecial(x)
		if !strict {
			return []string{x, strconv.Quote(x)}
		}
		if must {
			return []string{strconv.Quote(x)}
		}
		if may {
			return []string{strconv.Quote(x), x}
		}
		return []string{x}
	case json.Number:
		if !strict {
			return []string{string(x), strconv.Quote(string(x))}
		}
		return []string{string(x)}
	case bool:
		if x {
			return []string{"true"}
		}
		return []string{"false"}
	case nil:
		return []string{"null"}
	default:
		a, b := compactRef(v, false), compactRef(v, true)
		if a == b {
			return []string{a}
		}
		return []string{a, b}
	}
}

func compactRef(v interface{}, html bool) string {
	var buf bytes.Buffer
	enc := json.NewEncoder(&buf)
	enc.SetEscapeHTML(html)
	enc.Encode(v)
	return strings.TrimRight(buf.String(), "\n")
}

// match one sequence of names against the field section; forms per name
func matchSeq(tail string, seq []string, m map[string]interface{}, strict bool) bool {
	pos := 0
	for i, k := range seq {
		if !strings.HasPrefix(tail[pos:], k+"=") {
			return false
		}
		pos += len(k) + 1
		ok := false
		for _, f := range valueForms(m[k], strict) {
			if strings.HasPrefix(tail[pos:], f) {
				end := pos + len(f)
				if (i == len(seq)-1 && end == len(tail)) || (i < len(seq)-1 && end < len(tail) && tail[end] == ' ') {
					pos = end
					ok = true
					break
				}
			}
		}
		if !ok {
			return false
		}
		if i < len(seq)-1 {
			pos++
		}
	}
	return pos == len(tail)
}

// The parts section the text describes: "the configured parts in PartsOrder"
// (minus PartsExclude), in that order.  What each part formatter prints is not
// fixed by the property, so the text of a part is taken from the
// implementation itself, rendering the same event with that part alone and
// every field excluded (a metamorphic statement; the exact texts are checked
// by the model correspondence, not here).
func partsSection(cs *Case, m map[string]interface{}) (string, bool) {
	o := cs.Opts
	parts := []string{"time", "level", "caller", "message"}
	if o.PartsOrderSet {
		parts = o.PartsOrder
	}
	var all []string
	for k := range m {
		all = append(all, k)
	}
	sort.Strings(all)
	texts := map[string]string{}
	var out []string
	for _, p := range parts {
		if inList(p, o.PartsExclude) {
			continue
		}
		t, ok := texts[p]
		if !ok {
			o1 := o
			o1.PartsOrderSet, o1.PartsOrder, o1.PartsExclude, o1.FieldsOrder, o1.FieldsExclude = true, []string{p}, nil, nil, all
			var fine bool
			if t, fine = auxRender(cs, o1); !fine {
				return "", false
			}
			texts[p] = t
		}
		if t != "" {
			out = append(out, t)
		}
	}
	return strings.Join(out, " "), true
}

// lenient parse of a field section into (name, form) tokens over ALL keys of the event
type tok struct {
	k      string
	strict bool
}

func lenientParse(tail string, m map[string]interface{}) ([]tok, bool) {
	keys := make([]string, 0, len(m))
	for k := range m {
		keys = append(keys, k)
	}
	sort.Slice(keys, func(i, j int) bool {
		if len(keys[i]) != len(keys[j]) {
			return len(keys[i]) > len(keys[j])
		}
		return keys[i] < keys[j]
	})
	budget := 20000
	var rec func(pos int, acc []tok) ([]tok, bool)
	rec = func(pos int, acc []tok) ([]tok, bool) {
		if pos == len(tail) {
			return acc, true
		}
		budget--
		if budget < 0 {
			return nil, false
		}
		for _, k := range keys {
			if !strings.HasPrefix(tail[pos:], k+"=") {
				continue
			}
			p := pos + len(k) + 1
			strictForms := valueForms(m[k], true)
			for _, f := range valueForms(m[k], false) {
				if !strings.HasPrefix(tail[p:], f) {
					continue
				}
				end := p + len(f)
				t := tok{k, inList(f, strictForms)}
				if end == len(tail) {
					return append(acc, t), true
				}
				if tail[end] == ' ' {
					if r, ok := rec(end+1, append(append([]tok{}, acc...), t)); ok {
						return r, true
					}
				}
			}
		}
		return nil, false
	}
	return rec(0, nil)
}

func q(s string) string { return strconv.Quote(s) }
func qs(xs []string) []string {
	ys := make([]string, len(xs))
	for i, x := range xs {
		ys[i] = q(x)
	}
	return ys
}

// c16monitor states the property on one observation.
func c16monitor(c *Ctx, cs *Case, ob obs) {
	viol := func(key, mon, desc string, observed, expected interface{}) {
		c.Violate(Violation{Key: key, Monitor: mon, Desc: desc, Case: cs.json(), Observed: observed, Expected: expected})
	}
	// the event must be one the JSON logger can emit: it decodes
	var m map[string]interface{}
	d := json.NewDecoder(bytes.NewReader(cs.Event))
	d.UseNumber()
	if err := d.Decode(&m); err != nil {
		return // malformed stream: outside the property
	}
	auxPanicked = func(cs1 *Case, msg string) {
		c.Violate(Violation{Key: "write-panics", Monitor: "succeeds", Desc: "ConsoleWriter.Write panicked on a valid event (the event of the case under test, rendered with one part alone and every field excluded): " + msg,
			Case: cs1.json(), Observed: msg})
	}
	// a panic out of Write: "Write succeeds" fails, with this input
	for i := range ob.outs {
		if i < len(ob.panics) && ob.panics[i] != "" {
			how := "literal"
			if i < len(cs.Constructions) {
				how = cs.Constructions[i]
			}
			viol("write-panics", "succeeds", fmt.Sprintf("ConsoleWriter.Write panicked on rendering %d of a valid event (writer built: %s): %s", i, how, ob.panics[i]), ob.panics[i], nil)
			return
		}
	}
	// determinism, length, error
	for i := range ob.outs {
		if ob.errs[i] {
			viol("write-error", "succeeds", fmt.Sprintf("Write returned an error on rendering %d of a valid event", i), nil, nil)
			return
		}
		if ob.ns[i] != len(cs.Event) {
			viol("wrong-length", "reports-len", "Write did not report the full input length", ob.ns[i], len(cs.Event))
			return
		}
	}
	for i := 1; i < len(ob.outs); i++ {
		if !bytes.Equal(ob.outs[i], ob.outs[0]) {
			how := func(i int) string {
				if i < len(cs.Constructions) {
					return cs.Constructions[i]
				}
				return "literal"
			}
			viol("nondeterministic-output", "deterministic", fmt.Sprintf("rendering %d of the same event and configuration (writer built: %s) differs from rendering 0 (writer built: %s)", i, how(i), how(0)), q(string(ob.outs[i])), q(string(ob.outs[0])))
			break
		}
	}
	for ri, out := range ob.outs {
		if ri > 0 && bytes.Equal(out, ob.outs[0]) {
			continue
		}
		v := viol
		if ri > 0 {
			how := "literal"
			if ri < len(cs.Constructions) {
				how = cs.Constructions[ri]
			}
			ri := ri
			v = func(key, mon, desc string, observed, expected interface{}) {
				viol(key, mon, fmt.Sprintf("%s [rendering %d, writer built: %s]", desc, ri, how), observed, expected)
			}
		}
		checkLine(cs, m, string(out), v)
	}
	timePart(cs, m, viol)
	messagePart(cs, m, viol)
}

// messagePart: what the default message formatter prints IS the value under the message key (no
// transformation, unlike time, level and caller).  Reading committed to: when that value is a JSON
// number the part carries its exact JSON digits ("numbers appear with their exact JSON digits"),
// when it is a non-empty string the part carries the string verbatim or Go-quoted (either form is
// accepted).  Only containment is demanded, so nothing is said about what surrounds the text;
// nothing is demanded for booleans, null, objects and arrays under the message key, nor for a
// number under level/caller.  The part is taken alone (PartsOrder = [message], all fields excluded).
func messagePart(cs *Case, m map[string]interface{}, viol func(key, mon, desc string, observed, expected interface{})) {
	o := cs.Opts
	if inList("message", o.PartsExclude) || (o.PartsOrderSet && !inList("message", o.PartsOrder)) {
		return
	}
	var forms []string
	what := ""
	switch x := m["message"].(type) {
	case json.Number:
		forms, what = []string{string(x)}, "the JSON number "+string(x)
	case string:
		if x == "" {
			return
		}
		forms, what = []string{x, strconv.Quote(x)}, "the string "+q(x)
	default:
		return
	}
	all := make([]string, 0, len(m))
	for k := range m {
		all = append(all, k)
	}
	o1 := o
	o1.PartsOrderSet, o1.PartsOrder, o1.PartsExclude, o1.FieldsOrder, o1.FieldsExclude = true, []string{"message"}, nil, nil, all
	got, fine := auxRender(cs, o1)
	if !fine {
		return
	}
	for _, f := range forms {
		if strings.Contains(got, f) {
			return
		}
	}
	viol("message-part-loses-value", "message-part-lossless", fmt.Sprintf("the message key holds %s; the message part (default formatter, colour off) reads %s: the value is not on the line (fields named like a part are never printed as name=value, so it appears nowhere)", what, q(got)), q(got), forms)
}

// timePart: the time part of an event whose timestamp is a JSON integer under a UNIX TimeFieldFormat, against a
// reference written here: the instant is exactly that many seconds / milli / micro / nanoseconds since the epoch,
// shown in the configured location with the configured layout (lossless: no digit of the instant is dropped
// that the layout prints).
func timePart(cs *Case, m map[string]interface{}, viol func(key, mon, desc string, observed, expected interface{})) {
	o := cs.Opts
	num, ok := m["time"].(json.Number)
	if !ok || inList("time", o.PartsExclude) || (o.PartsOrderSet && !inList("time", o.PartsOrder)) {
		return
	}
	txt := string(num)
	for i, ch := range txt {
		if !(ch >= '0' && ch <= '9') && !(ch == '-' && i == 0) {
			return
		}
	}
	v, err := strconv.ParseInt(txt, 10, 64)
	if err != nil {
		return
	}
	var mult int64
	switch o.TimeFieldFormat {
	case "": // TimeFormatUnix
		mult = 0
	case "UNIXMS":
		mult = 1000000
	case "UNIXMICRO":
		mult = 1000
	case "UNIXNANO":
		mult = 1
	default:
		return
	}
	var inst time.Time
	if mult == 0 {
		inst = time.Unix(v, 0)
	} else {
		if v > math.MaxInt64/mult || v < math.MinInt64/mult {
			return // the nanosecond count does not fit an int64: outside what a time.Duration can carry
		}
		inst = time.Unix(0, v*mult)
	}
	loc := o.location()
	if loc == nil {
		loc = time.Local
	}
	layout := o.TimeFormat
	if layout == "" {
		layout = time.Kitchen
	}
	want := inst.In(loc).Format(layout)
	all := make([]string, 0, len(m))
	for k := range m {
		all = append(all, k)
	}
	o1 := o
	o1.PartsOrderSet, o1.PartsOrder, o1.PartsExclude, o1.FieldsOrder, o1.FieldsExclude = true, []string{"time"}, nil, nil, all
	got, fine := auxRender(cs, o1)
	if !fine {
		return
	}
	if got != want {
		viol("time-part-differs", "time-part-reference", fmt.Sprintf("timestamp %s under TimeFieldFormat %q, TimeFormat %q: the time part reads %q, the instant is %q", txt, o.TimeFieldFormat, layout, got, want), got, want)
	}
}

func checkLine(cs *Case, m map[string]interface{}, line string, viol func(key, mon, desc string, observed, expected interface{})) {
	o := cs.Opts
	if !strings.HasSuffix(line, "\n") {
		viol("no-final-newline", "one-line", "output does not end with a newline", q(line), nil)
		return
	}
	L := line[:len(line)-1]
	// the fields the text requires: every key but the four reserved names that is not excluded
	var want []string
	for k := range m {
		if !isReserved(k) && !inList(k, o.FieldsExclude) {
			want = append(want, k)
		}
	}
	sort.Strings(want)
	// "the error field": the field under the name the logger gives an error (zerolog.ErrorFieldName, "error" unless renamed)
	errName := cs.errName()
	hasErr := inList(errName, want)
	// candidate orders
	var cands [][]string
	without := func(xs []string, k string) []string {
		var ys []string
		for _, x := range xs {
			if x != k {
				ys = append(ys, x)
			}
		}
		return ys
	}
	if len(o.FieldsOrder) == 0 {
		if hasErr {
			cands = append(cands, append([]string{errName}, without(want, errName)...))
		} else {
			cands = append(cands, want)
		}
	} else {
		// named fields first in the order of FieldsOrder (a name listed twice: either position), rest lexical
		bases := [][]string{}
		for _, lastWins := range []bool{true, false} {
			var named []string
			seen := map[string]bool{}
			fo := o.FieldsOrder
			if lastWins {
				for i := len(fo) - 1; i >= 0; i-- {
					if !seen[fo[i]] && inList(fo[i], want) {
						seen[fo[i]] = true
						named = append([]string{fo[i]}, named...)
					}
				}
			} else {
				for _, n := range fo {
					if !seen[n] && inList(n, want) {
						seen[n] = true
						named = append(named, n)
					}
				}
			}
			base := append([]string{}, named...)
			for _, k := range want {
				if !seen[k] {
					base = append(base, k)
				}
			}
			bases = append(bases, base)
		}
		for _, base := range bases {
			if !hasErr {
				cands = append(cands, base)
				continue
			}
			rest := without(base, errName)
			for p := 0; p <= len(rest); p++ {
				c := append(append(append([]string{}, rest[:p]...), errName), rest[p:]...)
				cands = append(cands, c)
			}
		}
	}
	prefix, fine := partsSection(cs, m)
	if !fine {
		return // a Write of one part alone panicked (reported with its own input)
	}
	sep := ""
	if prefix != "" && len(want) > 0 {
		sep = " "
	}
	if strings.HasPrefix(L, prefix+sep) {
		tail := L[len(prefix)+len(sep):]
		for _, cand := range cands {
			if matchSeq(tail, cand, m, true) {
				return // the line is what the text describes
			}
		}
		if sep == "" {
			tail = strings.TrimPrefix(tail, " ") // fields although none is expected
		}
		diagnose(cs, m, tail, want, cands, viol)
		return
	}
	// the parts differ from the reference: are the fields still a correct suffix?
	if len(want) == 0 {
		viol("parts-mismatch", "parts", "the line is not the texts of the PartsOrder entries (minus PartsExclude) in order (no field is expected)", q(L), q(prefix))
		return
	}
	for _, cand := range cands {
		for cut := 0; cut <= len(L); cut++ {
			if cut > 0 && len(cand) > 0 && L[cut-1] != ' ' {
				continue
			}
			if matchSeq(L[cut:], cand, m, true) {
				viol("parts-mismatch", "parts", "the parts before the fields are not the texts of the PartsOrder entries (minus PartsExclude) in order", q(L[:cut]), q(prefix+sep))
				return
			}
			if len(cand) == 0 {
				break
			}
		}
	}
	viol("parts-mismatch", "parts", "the parts before the fields are not the texts of the PartsOrder entries (minus PartsExclude) in order", q(L), q(prefix+sep))
	diagnose(cs, m, L, want, cands, viol)
}

func diagnose(cs *Case, m map[string]interface{}, tail string, want []string, cands [][]string, viol func(key, mon, desc string, observed, expected interface{})) {
	o := cs.Opts
	exp := ""
	if len(cands) > 0 {
		var toks []string
		for _, k := range cands[0] {
			toks = append(toks, k+"="+valueForms(m[k], true)[0])
		}
		exp = strings.Join(toks, " ")
	}
	if len(want) > 0 && strings.HasSuffix(tail, " ") {
		for _, cand := range cands {
			if matchSeq(strings.TrimSuffix(tail, " "), cand, m, true) {
				viol("spacing-violated", "one-line", "a space follows the last field", q(tail), q(exp))
				return
			}
		}
	}
	toks, ok := lenientParse(tail, m)
	if !ok {
		// no segmentation at all: look for each required field's token
		for _, k := range want {
			found, lenient := false, false
			for _, f := range valueForms(m[k], true) {
				if strings.Contains(" "+tail+" ", " "+k+"="+f+" ") {
					found = true
				}
			}
			for _, f := range valueForms(m[k], false) {
				if strings.Contains(" "+tail+" ", " "+k+"="+f+" ") {
					lenient = true
				}
			}
			if !found && lenient {
				viol("quote-rule-violated", "quote-rule", "field "+q(k)+": string value rendered in the wrong form (verbatim vs Go-quoted)", q(tail), q(exp))
				return
			}
			if !found {
				viol("field-missing", "exactly-once", "field "+q(k)+" is not rendered as name=value", q(tail), q(exp))
				return
			}
		}
		viol("fields-unparseable", "exactly-once", "the field section is not a sequence of name=value tokens of this event", q(tail), q(exp))
		return
	}
	count := map[string]int{}
	var names []string
	for _, t := range toks {
		count[t.k]++
		names = append(names, t.k)
	}
	for _, t := range toks {
		if inList(t.k, o.FieldsExclude) {
			viol("excluded-field-rendered", "exactly-once", "field "+q(t.k)+" is in FieldsExclude but was rendered", q(tail), q(exp))
			return
		}
		if isReserved(t.k) {
			viol("reserved-field-rendered", "exactly-once", "reserved name "+q(t.k)+" rendered as a field", q(tail), q(exp))
			return
		}
	}
	for _, k := range want {
		if count[k] == 0 {
			viol("field-missing", "exactly-once", "field "+q(k)+" is not rendered", q(tail), q(exp))
			return
		}
		if count[k] > 1 {
			viol("field-duplicated", "exactly-once", "field "+q(k)+" is rendered more than once", q(tail), q(exp))
			return
		}
	}
	for _, t := range toks {
		if !t.strict {
			if _, isStr := m[t.k].(string); isStr {
				viol("quote-rule-violated", "quote-rule", "field "+q(t.k)+": string value rendered in the wrong form (verbatim vs Go-quoted)", q(tail), q(exp))
			} else {
				viol("value-not-verbatim", "numbers-verbatim", "field "+q(t.k)+": value text differs from the JSON literal / compact JSON", q(tail), q(exp))
			}
			return
		}
	}
	// all fields present once in an acceptable form: the order is wrong
	if len(o.FieldsOrder) == 0 {
		if errName := cs.errName(); inList(errName, want) && (len(names) == 0 || names[0] != errName) {
			viol("error-not-first", "order-default", "the error field is not the first field", qs(names), qs(cands[0]))
			return
		}
		viol("order-not-lexical", "order-default", "the fields after the error field are not in lexical order", qs(names), qs(cands[0]))
		return
	}
	viol("fieldsorder-violated", "order-fieldsorder", "fields named in FieldsOrder are not first in that order, or the rest is not lexical", qs(names), qs(cands[0]))
}
