package main

// C04, directed sweeps added after the round-5 seeded changes:
//
//  (h) every way of obtaining a logger that filters everything (C04-10: an identity fast path for the shared
//      logger zerolog.Ctx hands out for a context without logger skipped the filtered done("") call):
//      Nop(), zerolog.Ctx / log.Ctx / hlog.FromRequest of a context that carries no logger (with
//      DefaultContextLogger unset, and set to a disabled logger), copies and derivations of that logger
//      (With().Logger(), Hook, Sample, Output), a context that does carry a Level(Disabled) logger, the
//      zero Logger{}, New(w).Level(Disabled), the global log.Logger set to Nop().  On each of them, through
//      the POINTER the source hands out: every entry point x every statement shape of the inert grid
//      (Panic() must panic, nothing else may, nothing is invoked or written), the gate row against
//      Misc/Gate.v, and Fatal() in a child process (exit status 1, nothing invoked).
//
//  (i) histories of calls on one goroutine (C04-9: the event pool kept the Panic() callback of an event's
//      previous life): every ordered pair of calls from an alphabet of entry points (Panic() written and
//      recovered, Panic() filtered, Panic().Discard(), WithLevel(PanicLevel/FatalLevel), custom levels,
//      discarded events, ...) runs back to back as one gate row: the model (per call) and the monitors of
//      the gate rows judge every call whatever preceded it - Panic() fires exactly once per call, no other
//      call ever panics, every admitted call is written once at its own level.  The same with Fatal() at the
//      end of a history in a child process.

import (
	"context"
	"fmt"
	"io"
	"net/http"
	"strings"

	"github.com/rs/zerolog"
	"github.com/rs/zerolog/hlog"
	zlog "github.com/rs/zerolog/log"
	. "verifharness/hlib"
)

type ctxKeyT struct{}

// loggerSource: one way of obtaining a logger on which every event of level <= Disabled is filtered.
// HasWriter / Level are the parameters of Misc/Gate.v's gate for the logger it yields (Nop() has a writer,
// io.Discard, and level Disabled; the zero Logger has no writer and level 0).  mk returns the pointer the
// source hands out and a function that undoes what it changed globally.
type loggerSource struct {
	Name      string
	HasWriter bool
	Level     int
	mk        func(w io.Writer, hook zerolog.Hook) (*zerolog.Logger, func())
}

func noRestore() {}

func loggerSources() []loggerSource {
	bg := context.Background
	unsetDefault := func() func() {
		old := zerolog.DefaultContextLogger
		zerolog.DefaultContextLogger = nil
		return func() { zerolog.DefaultContextLogger = old }
	}
	return []loggerSource{
		{"l := zerolog.Nop(); &l", true, 7, func(w io.Writer, h zerolog.Hook) (*zerolog.Logger, func()) {
			l := zerolog.Nop()
			return &l, noRestore
		}},
		{"zerolog.Ctx(context.Background()) [DefaultContextLogger == nil]", true, 7, func(w io.Writer, h zerolog.Hook) (*zerolog.Logger, func()) {
			r := unsetDefault()
			return zerolog.Ctx(bg()), r
		}},
		{"zerolog.Ctx(context.WithValue(context.Background(), key, 1)) [DefaultContextLogger == nil]", true, 7, func(w io.Writer, h zerolog.Hook) (*zerolog.Logger, func()) {
			r := unsetDefault()
			return zerolog.Ctx(context.WithValue(bg(), ctxKeyT{}, 1)), r
		}},
		{"zerolog.Ctx(zerolog.Nop().WithContext(context.Background())) [a disabled logger is not stored]", true, 7, func(w io.Writer, h zerolog.Hook) (*zerolog.Logger, func()) {
			r := unsetDefault()
			return zerolog.Ctx(zerolog.Nop().WithContext(bg())), r
		}},
		{"log.Ctx(context.Background()) [package zerolog/log]", true, 7, func(w io.Writer, h zerolog.Hook) (*zerolog.Logger, func()) {
			r := unsetDefault()
			return zlog.Ctx(bg()), r
		}},
		{"hlog.FromRequest(r) [a request that did not pass hlog.NewHandler]", true, 7, func(w io.Writer, h zerolog.Hook) (*zerolog.Logger, func()) {
			r := unsetDefault()
			req, err := http.NewRequest("GET", "http://example.test/", nil)
			if err != nil {
				panic(err)
			}
			return hlog.FromRequest(req), r
		}},
		{"c := *zerolog.Ctx(context.Background()); &c", true, 7, func(w io.Writer, h zerolog.Hook) (*zerolog.Logger, func()) {
			r := unsetDefault()
			c := *zerolog.Ctx(bg())
			return &c, r
		}},
		{"c := zerolog.Ctx(context.Background()).With().Str(\"k\", \"v\").Logger(); &c", true, 7, func(w io.Writer, h zerolog.Hook) (*zerolog.Logger, func()) {
			r := unsetDefault()
			c := zerolog.Ctx(bg()).With().Str("k", "v").Logger()
			return &c, r
		}},
		{"c := zerolog.Ctx(context.Background()).Hook(h); &c", true, 7, func(w io.Writer, h zerolog.Hook) (*zerolog.Logger, func()) {
			r := unsetDefault()
			c := zerolog.Ctx(bg()).Hook(h)
			return &c, r
		}},
		{"c := zerolog.Ctx(context.Background()).Sample(&zerolog.BasicSampler{N: 1}).Hook(h); &c", true, 7, func(w io.Writer, h zerolog.Hook) (*zerolog.Logger, func()) {
			r := unsetDefault()
			c := zerolog.Ctx(bg()).Sample(&zerolog.BasicSampler{N: 1}).Hook(h)
			return &c, r
		}},
		{"c := zerolog.Ctx(context.Background()).Output(w).Hook(h); &c [Output keeps the level]", true, 7, func(w io.Writer, h zerolog.Hook) (*zerolog.Logger, func()) {
			r := unsetDefault()
			c := zerolog.Ctx(bg()).Output(w).Hook(h)
			return &c, r
		}},
		{"zerolog.Ctx(context.Background()) [DefaultContextLogger = a pointer to zerolog.Nop()]", true, 7, func(w io.Writer, h zerolog.Hook) (*zerolog.Logger, func()) {
			old := zerolog.DefaultContextLogger
			n := zerolog.Nop()
			zerolog.DefaultContextLogger = &n
			return zerolog.Ctx(bg()), func() { zerolog.DefaultContextLogger = old }
		}},
		{"zerolog.Ctx(context.Background()) [DefaultContextLogger = a pointer to zerolog.New(w).Level(zerolog.Disabled).Hook(h)]", true, 7, func(w io.Writer, h zerolog.Hook) (*zerolog.Logger, func()) {
			old := zerolog.DefaultContextLogger
			n := zerolog.New(w).Level(zerolog.Disabled).Hook(h)
			zerolog.DefaultContextLogger = &n
			return zerolog.Ctx(bg()), func() { zerolog.DefaultContextLogger = old }
		}},
		{"zerolog.Ctx(ctx) [ctx carries zerolog.New(w).Level(zerolog.Disabled).Hook(h), stored over an enabled logger]", true, 7, func(w io.Writer, h zerolog.Hook) (*zerolog.Logger, func()) {
			r := unsetDefault()
			ctx := zerolog.New(w).WithContext(bg())
			ctx = zerolog.New(w).Level(zerolog.Disabled).Hook(h).WithContext(ctx)
			return zerolog.Ctx(ctx), r
		}},
		{"l := zerolog.Logger{}; &l [no writer]", false, 0, func(w io.Writer, h zerolog.Hook) (*zerolog.Logger, func()) {
			l := zerolog.Logger{}
			return &l, noRestore
		}},
		{"l := zerolog.Logger{}.Hook(h).Level(zerolog.TraceLevel); &l [no writer]", false, -1, func(w io.Writer, h zerolog.Hook) (*zerolog.Logger, func()) {
			l := zerolog.Logger{}.Hook(h).Level(zerolog.TraceLevel)
			return &l, noRestore
		}},
		{"l := zerolog.New(w).Level(zerolog.Disabled).Hook(h); &l", true, 7, func(w io.Writer, h zerolog.Hook) (*zerolog.Logger, func()) {
			l := zerolog.New(w).Level(zerolog.Disabled).Hook(h)
			return &l, noRestore
		}},
		{"l := zerolog.New(w).Hook(h).Level(zerolog.Disabled).With().Str(\"k\", \"v\").Logger().Level(zerolog.Disabled); &l", true, 7, func(w io.Writer, h zerolog.Hook) (*zerolog.Logger, func()) {
			l := zerolog.New(w).Hook(h).Level(zerolog.Disabled).With().Str("k", "v").Logger().Level(zerolog.Disabled)
			return &l, noRestore
		}},
		{"log.Logger = zerolog.Nop(); &log.Logger [package zerolog/log: log.Panic(), log.Fatal(), ...]", true, 7, func(w io.Writer, h zerolog.Hook) (*zerolog.Logger, func()) {
			old := zlog.Logger
			zlog.Logger = zerolog.Nop()
			return &zlog.Logger, func() { zlog.Logger = old }
		}},
	}
}

func sourceByName(name string) *loggerSource {
	for _, s := range loggerSources() {
		if s.Name == name {
			s := s
			return &s
		}
	}
	return nil
}

// disabledLoggerSources: (h).  calls: the calls of a gate row restricted to levels <= Disabled (a custom level
// above Disabled passes a Disabled threshold, and where the writer is io.Discard that cannot be observed).
func disabledLoggerSources(c *Ctx, emitRow func(g gateCfg, cs []call), calls []call) {
	var le7 []call
	for _, cl := range calls {
		if cl.Entry != "withlevel" || cl.Lvl <= 7 {
			le7 = append(le7, cl)
		}
	}
	srcs := loggerSources()
	runs, filtered, live := 0, 0, 0
	for si, src := range srcs {
		for _, gl := range []int{-1, 7} {
			// the gate row (model + the gate-row monitors: nothing written, Panic() panics, nothing else does)
			emitRow(gateCfg{HasWriter: src.HasWriter, Level: src.Level, Global: gl, Source: src.Name}, le7)
			// the inert grid
			zerolog.SetGlobalLevel(zerolog.Level(gl))
			st := &recState{}
			w := &lvlWriter{}
			lp, restore := src.mk(w, zerolog.HookFunc(func(e *zerolog.Event, lv zerolog.Level, m string) { st.calls = append(st.calls, "hook") }))
			ents := gridEntries(lp, 7)
			ents = append(ents, gridEnt{"Err(nil)", 1, func() *zerolog.Event { return lp.Err(nil) }, false},
				gridEnt{"Err(err)", 3, func() *zerolog.Event { return lp.Err(errors_e) }, false})
			r, f, lv := inertGridRun(c, ents, func(gridEnt) bool { return false }, st, w,
				fmt.Sprintf("logger obtained as %s, global level %d", src.Name, gl),
				map[string]interface{}{"logger": src.Name, "global_level": gl})
			runs, filtered, live = runs+r, filtered+f, live+lv
			restore()
			zerolog.SetGlobalLevel(zerolog.TraceLevel)
		}
		// Fatal() through the pointer the source hands out, in a child
		code, out := runChild(fmt.Sprintf("fatal-src-%d", si))
		cs := map[string]interface{}{"logger": src.Name, "statement": "lp.Fatal().Object(o).Array(a).Interface(i).Fields(map).MsgFunc(f)"}
		if code != 1 || strings.Contains(out, "survived") {
			c.Violate(Violation{Key: "fatal-filtered-no-exit", Monitor: "fatal-child", Desc: fmt.Sprintf("filtered Fatal() on the logger obtained as %s did not exit(1): code=%d out=%q", src.Name, code, out), Case: cs, Observed: map[string]interface{}{"exit_code": code, "output": out}, Expected: "exit status 1"})
		}
		if strings.Contains(out, "invoked") || strings.Contains(out, "written") {
			c.Violate(Violation{Key: "filtered-event-not-inert", Monitor: "fatal-child", Desc: fmt.Sprintf("filtered Fatal() statement on the logger obtained as %s invoked observers or wrote before exiting: out=%q", src.Name, out), Case: cs, Observed: out, Expected: ""})
		}
		c.Res.Evaluations++
		c.Count("source "+src.Name, true)
	}
	c.Res.Evaluations += runs
	c.Res.ExtraCoverage["disabled_logger_sources"] = len(srcs)
	c.Res.ExtraCoverage["disabled_logger_source_grid_calls"] = runs
	c.Res.ExtraCoverage["disabled_logger_source_live_filtered_events"] = live
	_ = filtered
}

var errors_e = fmt.Errorf("e")

// childFatalSource: child side of the Fatal() runs of (h)
func childFatalSource(idx int) {
	srcs := loggerSources()
	if idx < 0 || idx >= len(srcs) {
		fmt.Println("survived: no such source")
		return
	}
	lp, _ := srcs[idx].mk(printWriter{}, zerolog.HookFunc(func(e *zerolog.Event, lv zerolog.Level, m string) { fmt.Println("invoked hook") }))
	lp.Fatal().Object("o", printObj{}).Array("a", printArr{}).Interface("i", printObj{}).
		Fields(map[string]interface{}{"f": printObj{}}).
		MsgFunc(func() string { fmt.Println("invoked MsgFunc callback"); return "m" })
	fmt.Println("survived")
}

// ---------------------------------------------------------------- (i) histories

// historyAlphabet: the calls whose ordered pairs make up a history row
func historyAlphabet() []call {
	return []call{
		{Entry: "panic"}, {Entry: "panic", Discard: true},
		{Entry: "withlevel", Lvl: 5}, {Entry: "withlevel", Lvl: 4}, {Entry: "withlevel", Lvl: 4, Discard: true},
		{Entry: "trace"}, {Entry: "info"}, {Entry: "warn", Discard: true}, {Entry: "error"}, {Entry: "log"},
		{Entry: "withlevel", Lvl: -2}, {Entry: "withlevel", Lvl: 6}, {Entry: "withlevel", Lvl: 7}, {Entry: "withlevel", Lvl: 8},
		{Entry: "print"}, {Entry: "write"},
	}
}

// historyCalls: a, b for every ordered pair (a, b) of the alphabet, back to back (so every b is also followed
// by every a)
func historyCalls() []call {
	al := historyAlphabet()
	var out []call
	for _, a := range al {
		for _, b := range al {
			out = append(out, a, b)
		}
	}
	return out
}

func callHistories(c *Ctx, emitRow func(g gateCfg, cs []call)) {
	hc := historyCalls()
	rows := 0
	for _, lg := range [][2]int{{-128, -128}, {0, -1}, {2, 1}, {5, -1}, {6, -1}, {-1, 5}, {-1, 6}, {7, -1}, {-1, 8}} {
		emitRow(gateCfg{HasWriter: true, Level: lg[0], Global: lg[1]}, hc)
		rows++
	}
	for _, n := range []uint32{2, 3} {
		emitRow(gateCfg{HasWriter: true, Level: -1, Global: -1, BasicN: n}, hc)
		rows++
	}
	emitRow(gateCfg{HasWriter: false, Level: -1, Global: -1}, hc)
	rows++
	c.Res.ExtraCoverage["call_history_rows"] = rows
	c.Res.ExtraCoverage["call_history_ordered_pairs"] = len(hc) / 2

	// Fatal() after a history, in a child: every step is announced on stdout
	code, out := runChild("history-fatal")
	want := "written\nPanic() panicked\nwritten\nWithLevel(FatalLevel) returned\nwritten\nWithLevel(PanicLevel) returned\nwritten\nInfo() returned\nfiltered Panic() panicked\nwritten\nLog() returned\nfiltered WithLevel(FatalLevel) returned\nwritten\n"
	if code != 1 || out != want {
		c.Violate(Violation{Key: "panic-callback-wrong", Monitor: "fatal-child-history", Desc: fmt.Sprintf("one goroutine: Panic() (recovered), WithLevel(FatalLevel), WithLevel(PanicLevel), Info(), a filtered Panic() (recovered), Log(), a filtered WithLevel(FatalLevel), Fatal(): only the Panic() calls may panic, only Fatal() may exit (status 1), every enabled call writes once: code=%d out=%q", code, out),
			Case:     "l := New(w); lf := l.Level(Disabled); l.Panic().Msg; l.WithLevel(FatalLevel).Msg; l.WithLevel(PanicLevel).Msg; l.Info().Msg; lf.Panic().Msg; l.Log().Msg; lf.WithLevel(FatalLevel).Msg; l.Fatal().Msg (each under recover)",
			Observed: map[string]interface{}{"exit_code": code, "output": out}, Expected: map[string]interface{}{"exit_code": 1, "output": want}})
	}
	c.Res.Evaluations++
}

func childHistoryFatal() {
	l := zerolog.New(printWriter{})
	lf := l.Level(zerolog.Disabled)
	step := func(name string, f func()) {
		defer func() {
			if r := recover(); r != nil {
				fmt.Println(name + " panicked")
			} else {
				fmt.Println(name + " returned")
			}
		}()
		f()
	}
	step("Panic()", func() { l.Panic().Msg("p") })
	step("WithLevel(FatalLevel)", func() { l.WithLevel(zerolog.FatalLevel).Msg("x") })
	step("WithLevel(PanicLevel)", func() { l.WithLevel(zerolog.PanicLevel).Msg("x") })
	step("Info()", func() { l.Info().Msg("x") })
	step("filtered Panic()", func() { lf.Panic().Msg("p") })
	step("Log()", func() { l.Log().Msg("x") })
	step("filtered WithLevel(FatalLevel)", func() { lf.WithLevel(zerolog.FatalLevel).Msg("x") })
	step("Fatal()", func() { l.Fatal().Msg("f") })
	fmt.Println("survived")
}
