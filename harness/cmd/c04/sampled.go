package main

// C04, directed sweep added after the round-6 seeded changes:
//
//  (j) stateful samplers behind every complete logging call (C04-12: a fast path in Logger.Write asked
//      should() - and with it the sampler - a second time for the same line, so a BasicSampler{N: 2} admitted
//      every line once, rejected it once, and nothing was ever written).
//
// "An event is written if and only if its level is at or above both the logger's level and the global level
// (and the sampler, if any, admits it)": one event, one verdict.  A complete logging call - through an entry
// point that hands the caller an event (Trace() ... Log(), WithLevel, Err, Panic() under recover, each
// finalizer) or through one that does not (Logger.Print / Printf / Println, Logger.Write and everything that
// reaches it: io.WriteString, fmt.Fprintf, the standard library's log.Logger built on the logger or set as the
// process-wide log output, and the package-level functions of zerolog/log) -
//   - whose level passes the logger's and the global level, sampling not disabled: consults the sampler of the
//     logger exactly once, with the event's level, and is written (once, at its level) iff that verdict was
//     "admit" (and the statement sends it: a Discard()ed event is consulted and not written);
//   - whose level does not pass, or while sampling is disabled, or on a logger without writer: does not
//     consult the sampler at all (the level comparisons come first; the sampler's state belongs to the events
//     that reach it).
// Two flavours per sampler: wrapped in a recording sampler (counts the consultations per call whatever the
// sampler is), and the library sampler itself with an identically configured twin consulted by the harness
// once per level-passing call (the verdict sequence the logger's events must follow).  Samplers: BasicSampler
// N = 0, 1, 2, 3, 5; BurstSampler with and without NextSampler / Period; LevelSampler over stateful samplers;
// an every-other sampler and a fixed-pattern sampler.  The calls run in list order and then twice more in
// shuffled orders, so that every entry meets the sampler in different states.

import (
	"fmt"
	"io"
	stdlog "log"
	"os"
	"time"

	"github.com/rs/zerolog"
	zlog "github.com/rs/zerolog/log"
	. "verifharness/hlib"
)

type consult struct {
	Lvl     int  `json:"level_passed_to_Sample"`
	Verdict bool `json:"verdict"`
}

// countSampler: records every consultation of the sampler it wraps (single goroutine)
type countSampler struct {
	inner zerolog.Sampler
	log   []consult
}

func (s *countSampler) Sample(l zerolog.Level) bool {
	v := s.inner.Sample(l)
	s.log = append(s.log, consult{int(l), v})
	return v
}

// everyOther admits the 1st, 3rd, 5th ... consultation
type everyOther struct{ n int }

func (s *everyOther) Sample(zerolog.Level) bool { s.n++; return s.n%2 == 1 }

// patternSampler answers along a fixed pattern
type patternSampler struct {
	pat string
	n   int
}

func (s *patternSampler) Sample(zerolog.Level) bool {
	v := s.pat[s.n%len(s.pat)] == 'T'
	s.n++
	return v
}

type samplerKind struct {
	Name string
	mk   func() zerolog.Sampler
}

func statefulSamplers() []samplerKind {
	return []samplerKind{
		{"&BasicSampler{N: 2}", func() zerolog.Sampler { return &zerolog.BasicSampler{N: 2} }},
		{"&BasicSampler{N: 3}", func() zerolog.Sampler { return &zerolog.BasicSampler{N: 3} }},
		{"&BasicSampler{N: 5}", func() zerolog.Sampler { return &zerolog.BasicSampler{N: 5} }},
		{"&BasicSampler{N: 1} [admits all]", func() zerolog.Sampler { return &zerolog.BasicSampler{N: 1} }},
		{"&BasicSampler{N: 0} [rejects all]", func() zerolog.Sampler { return &zerolog.BasicSampler{N: 0} }},
		{"&BurstSampler{Burst: 2, Period: time.Hour}", func() zerolog.Sampler { return &zerolog.BurstSampler{Burst: 2, Period: time.Hour} }},
		{"&BurstSampler{Burst: 7, Period: time.Hour}", func() zerolog.Sampler { return &zerolog.BurstSampler{Burst: 7, Period: time.Hour} }},
		{"&BurstSampler{Burst: 3, Period: time.Hour, NextSampler: &BasicSampler{N: 2}}", func() zerolog.Sampler {
			return &zerolog.BurstSampler{Burst: 3, Period: time.Hour, NextSampler: &zerolog.BasicSampler{N: 2}}
		}},
		{"&BurstSampler{Burst: 1, Period: 0, NextSampler: &BasicSampler{N: 3}}", func() zerolog.Sampler {
			return &zerolog.BurstSampler{Burst: 1, Period: 0, NextSampler: &zerolog.BasicSampler{N: 3}}
		}},
		{"LevelSampler{DebugSampler: &BasicSampler{N: 2}, InfoSampler: &BurstSampler{Burst: 1, Period: time.Hour}, ErrorSampler: &BasicSampler{N: 0}}", func() zerolog.Sampler {
			return zerolog.LevelSampler{DebugSampler: &zerolog.BasicSampler{N: 2}, InfoSampler: &zerolog.BurstSampler{Burst: 1, Period: time.Hour}, ErrorSampler: &zerolog.BasicSampler{N: 0}}
		}},
		{"every-other sampler (admits the 1st, 3rd, ... event it is asked about)", func() zerolog.Sampler { return &everyOther{} }},
		{"pattern sampler T T F T F F F T", func() zerolog.Sampler { return &patternSampler{pat: "TTFTFFFT"} }},
	}
}

// sampledCall: one complete logging call.  lvl: the event's level; viaWithLevel: the entry is WithLevel (7 =
// Disabled returns nil at once); sends: an admitted event is written; fires: Panic()
type sampledCall struct {
	Name         string
	lvl          int
	viaWithLevel bool
	sends        bool
	fires        bool
	run          func(lp *zerolog.Logger)
}

func sampledCalls() []sampledCall {
	var cs []sampledCall
	add := func(name string, lvl int, run func(lp *zerolog.Logger)) {
		cs = append(cs, sampledCall{Name: name, lvl: lvl, sends: true, run: run})
	}
	add("lp.Trace().Msg(m)", -1, func(lp *zerolog.Logger) { lp.Trace().Msg("m") })
	add("lp.Debug().Msg(m)", 0, func(lp *zerolog.Logger) { lp.Debug().Msg("m") })
	add("lp.Info().Msg(m)", 1, func(lp *zerolog.Logger) { lp.Info().Msg("m") })
	add("lp.Info().Send()", 1, func(lp *zerolog.Logger) { lp.Info().Send() })
	add("lp.Info().Msgf(f, 1)", 1, func(lp *zerolog.Logger) { lp.Info().Msgf("%d", 1) })
	add("lp.Info().MsgFunc(f)", 1, func(lp *zerolog.Logger) { lp.Info().MsgFunc(func() string { return "m" }) })
	add("lp.Info().Str(k, v).Int(n, 1).Msg(m)", 1, func(lp *zerolog.Logger) { lp.Info().Str("k", "v").Int("n", 1).Msg("m") })
	add("if e := lp.Info(); e.Enabled() { e.Msg(m) }", 1, func(lp *zerolog.Logger) {
		if e := lp.Info(); e.Enabled() {
			e.Msg("m")
		}
	})
	add("lp.Warn().Msg(m)", 2, func(lp *zerolog.Logger) { lp.Warn().Msg("m") })
	add("lp.Error().Msg(m)", 3, func(lp *zerolog.Logger) { lp.Error().Msg("m") })
	add("lp.Err(nil).Msg(m)", 1, func(lp *zerolog.Logger) { lp.Err(nil).Msg("m") })
	add("lp.Err(err).Msg(m)", 3, func(lp *zerolog.Logger) { lp.Err(errors_e).Msg("m") })
	add("lp.Log().Msg(m)", 6, func(lp *zerolog.Logger) { lp.Log().Msg("m") })
	add("lp.Log().Send()", 6, func(lp *zerolog.Logger) { lp.Log().Send() })
	for _, lv := range []int{-5, 0, 4, 5, 6, 7, 9} {
		lv := lv
		cs = append(cs, sampledCall{Name: fmt.Sprintf("lp.WithLevel(%d).Msg(m)", lv), lvl: lv, viaWithLevel: true, sends: true,
			run: func(lp *zerolog.Logger) { lp.WithLevel(zerolog.Level(lv)).Msg("m") }})
	}
	cs = append(cs, sampledCall{Name: "lp.Info().Discard().Msg(m)", lvl: 1, sends: false, run: func(lp *zerolog.Logger) { lp.Info().Discard().Msg("m") }})
	cs = append(cs, sampledCall{Name: "lp.Panic().Msg(m) [recovered]", lvl: 5, sends: true, fires: true, run: func(lp *zerolog.Logger) { lp.Panic().Msg("m") }})
	// no event in the caller's hands
	add("lp.Print(m)", 0, func(lp *zerolog.Logger) { lp.Print("m") })
	add("lp.Printf(f, 1)", 0, func(lp *zerolog.Logger) { lp.Printf("%d", 1) })
	add("lp.Println(m)", 0, func(lp *zerolog.Logger) { lp.Println("m") })
	add("lp.Write([]byte(\"line\\n\"))", 6, func(lp *zerolog.Logger) { lp.Write([]byte("line\n")) })
	add("(*lp).Write([]byte(\"line\")) [Logger value]", 6, func(lp *zerolog.Logger) { (*lp).Write([]byte("line")) })
	add("lp.Write(nil)", 6, func(lp *zerolog.Logger) { lp.Write(nil) })
	add("io.WriteString(lp, s)", 6, func(lp *zerolog.Logger) { io.WriteString(lp, "line\n") })
	add("fmt.Fprintf(lp, f, 1)", 6, func(lp *zerolog.Logger) { fmt.Fprintf(lp, "n=%d\n", 1) })
	add("fmt.Fprintln(*lp, s) [Logger value as io.Writer]", 6, func(lp *zerolog.Logger) { fmt.Fprintln(*lp, "line") })
	add("log.New(lp, \"\", 0).Print(m) [standard library log]", 6, func(lp *zerolog.Logger) { stdlog.New(lp, "", 0).Print("m") })
	add("log.New(lp, \"\", 0).Printf(f, 1)", 6, func(lp *zerolog.Logger) { stdlog.New(lp, "", 0).Printf("%d", 1) })
	add("log.New(lp, \"\", 0).Println(m)", 6, func(lp *zerolog.Logger) { stdlog.New(lp, "", 0).Println("m") })
	add("log.New(*lp, \"pfx \", log.Lshortfile).Output(1, m)", 6, func(lp *zerolog.Logger) { stdlog.New(*lp, "pfx ", stdlog.Lshortfile).Output(1, "m") })
	add("log.SetOutput(lp); log.Print(m) [the process-wide standard logger]", 6, func(lp *zerolog.Logger) {
		fl := stdlog.Flags()
		stdlog.SetFlags(0)
		stdlog.SetOutput(lp)
		defer func() { stdlog.SetOutput(os.Stderr); stdlog.SetFlags(fl) }()
		stdlog.Print("m")
	})
	// package zerolog/log: the global logger is a copy of *lp (it shares the sampler object)
	global := func(f func()) func(lp *zerolog.Logger) {
		return func(lp *zerolog.Logger) {
			old := zlog.Logger
			zlog.Logger = *lp
			defer func() { zlog.Logger = old }()
			f()
		}
	}
	add("zerolog/log: log.Logger = *lp; log.Print(m)", 0, global(func() { zlog.Print("m") }))
	add("zerolog/log: log.Logger = *lp; log.Printf(f, 1)", 0, global(func() { zlog.Printf("%d", 1) }))
	add("zerolog/log: log.Logger = *lp; log.Info().Msg(m)", 1, global(func() { zlog.Info().Msg("m") }))
	add("zerolog/log: log.Logger = *lp; log.Log().Msg(m)", 6, global(func() { zlog.Log().Msg("m") }))
	add("zerolog/log: log.Logger = *lp; log.Err(nil).Msg(m)", 1, global(func() { zlog.Err(nil).Msg("m") }))
	cs = append(cs, sampledCall{Name: "zerolog/log: log.Logger = *lp; log.WithLevel(2).Msg(m)", lvl: 2, viaWithLevel: true, sends: true,
		run: global(func() { zlog.WithLevel(zerolog.Level(2)).Msg("m") })})
	return cs
}

type sampledCfg struct {
	HasWriter bool   `json:"has_writer"`
	Level     int    `json:"logger_level"`
	Global    int    `json:"global_level"`
	Disabled  bool   `json:"sampling_disabled"`
	Sampler   string `json:"sampler"`
	Flavour   string `json:"sampler_given_as"`
}

// statefulSamplerSweep: (j)
func statefulSamplerSweep(c *Ctx) {
	oldTS := zerolog.TimestampFunc
	fixed := time.Unix(1700000000, 0)
	zerolog.TimestampFunc = func() time.Time { return fixed } // BurstSampler reads the clock through it
	defer func() { zerolog.TimestampFunc = oldTS }()
	defer zerolog.SetGlobalLevel(zerolog.TraceLevel)
	defer zerolog.DisableSampling(false)
	calls := sampledCalls()
	r := c.R.Fork()
	// the call orders: the list, then two shuffles of it
	orders := [][]int{make([]int, len(calls)), make([]int, len(calls)), make([]int, len(calls))}
	for o := range orders {
		for i := range orders[o] {
			orders[o][i] = i
		}
		if o > 0 {
			for i := len(calls) - 1; i > 0; i-- {
				j := r.Intn(i + 1)
				orders[o][i], orders[o][j] = orders[o][j], orders[o][i]
			}
		}
	}
	type lg struct {
		hasW bool
		l, g int
	}
	runs, consulted, admittedN, rejectedN := 0, 0, 0, 0
	for _, cfg := range []lg{{true, -128, -128}, {true, 0, -1}, {true, 1, 0}, {true, -1, 2}, {true, -1, 6}, {true, 7, -1}, {false, -1, -1}} {
		for _, dis := range []bool{false, true} {
			for _, sk := range statefulSamplers() {
				for _, wrapped := range []bool{true, false} {
					zerolog.SetGlobalLevel(zerolog.Level(cfg.g))
					zerolog.DisableSampling(dis)
					w := &lvlWriter{}
					var rec *countSampler
					var twin zerolog.Sampler
					var smp zerolog.Sampler
					flavour := "the sampler itself (the harness asks an identically configured twin once per call that passes the levels)"
					if wrapped {
						rec = &countSampler{inner: sk.mk()}
						smp = rec
						flavour = "wrapped in a sampler that records every consultation"
					} else {
						smp = sk.mk()
						twin = sk.mk()
					}
					var l zerolog.Logger
					if cfg.hasW {
						l = zerolog.New(w)
					}
					l = l.Level(zerolog.Level(cfg.l)).Sample(smp)
					sc := sampledCfg{HasWriter: cfg.hasW, Level: cfg.l, Global: cfg.g, Disabled: dis, Sampler: sk.Name, Flavour: flavour}
					var history []string
					bad := false
					for _, order := range orders {
						for _, k := range order {
							if bad {
								break
							}
							cl := calls[k]
							before := len(w.levels)
							nBefore := 0
							if rec != nil {
								nBefore = len(rec.log)
							}
							panicked := func() (p bool) {
								defer func() {
									if x := recover(); x != nil {
										p = true
									}
								}()
								cl.run(&l)
								return false
							}()
							runs++
							writes := append([]int{}, w.levels[before:]...)
							passLvl := cfg.hasW && cl.lvl >= cfg.l && cl.lvl >= cfg.g && !(cl.viaWithLevel && cl.lvl == 7)
							reaches := passLvl && !dis // the sampler is the one thing left to decide
							prev := history
							if len(prev) > 6 {
								prev = prev[len(prev)-6:]
							}
							cse := map[string]interface{}{"configuration": sc, "call": cl.Name, "event_level": cl.lvl,
								"preceding_calls_on_this_logger": append([]string{}, prev...), "calls_made_before_on_this_logger": len(history)}
							history = append(history, cl.Name)
							verdictKnown, verdict := true, true
							if rec != nil {
								cons := append([]consult{}, rec.log[nBefore:]...)
								consulted += len(cons)
								want := 0
								if reaches {
									want = 1
								}
								if len(cons) != want {
									key := "sampler-consulted-when-filtered"
									what := "does not pass the levels (or sampling is disabled, or the logger has no writer): the sampler has no say"
									if reaches {
										key = "sampler-not-consulted-once"
										what = "passes the logger's and the global level: the sampler decides, once per event"
									}
									c.Violate(Violation{Key: key, Monitor: "sampler-once-per-event",
										Desc: fmt.Sprintf("logger level %d, global level %d, sampling disabled %v, sampler %s: the call %s (level %d) %s; it consulted the sampler %d times (verdicts %v) and wrote %v",
											cfg.l, cfg.g, dis, sk.Name, cl.Name, cl.lvl, what, len(cons), cons, writes),
										Case: cse, Observed: map[string]interface{}{"consultations": cons, "writes": writes}, Expected: map[string]interface{}{"consultations": want}})
									bad = true
									verdictKnown = false
								}
								for _, x := range cons {
									if x.Lvl != cl.lvl {
										c.Violate(Violation{Key: "sampler-level-wrong", Monitor: "sampler-once-per-event",
											Desc: fmt.Sprintf("sampler %s: the call %s has level %d, the sampler was asked about level %d", sk.Name, cl.Name, cl.lvl, x.Lvl),
											Case: cse, Observed: cons, Expected: cl.lvl})
										bad = true
									}
								}
								if len(cons) == 1 {
									verdict = cons[0].Verdict
								}
							} else if reaches {
								verdict = twin.Sample(zerolog.Level(cl.lvl))
							}
							if reaches {
								if verdict {
									admittedN++
								} else {
									rejectedN++
								}
							}
							if verdictKnown {
								want := passLvl && (dis || verdict) && cl.sends
								got := len(writes) == 1
								if got != want || len(writes) > 1 || (got && writes[0] != cl.lvl) {
									c.Violate(Violation{Key: "gate-wrong", Monitor: "gate-stateful-sampler",
										Desc: fmt.Sprintf("logger level %d, global level %d, sampling disabled %v, sampler %s (%s): the call %s (level %d) passes the levels: %v, the sampler's verdict for it: %v; WriteLevel calls %v, want written=%v",
											cfg.l, cfg.g, dis, sk.Name, flavour, cl.Name, cl.lvl, passLvl, map[bool]interface{}{true: verdict, false: "not asked"}[reaches], writes, want),
										Case: cse, Observed: writes, Expected: want})
									bad = true
								}
							}
							if panicked != cl.fires {
								c.Violate(Violation{Key: "panic-callback-wrong", Monitor: "gate-stateful-sampler",
									Desc: fmt.Sprintf("sampler %s: the call %s panicked=%v, want %v (Panic() panics once per call, written or filtered; no other call panics)", sk.Name, cl.Name, panicked, cl.fires), Case: cse})
								bad = true
							}
						}
					}
					c.Count(fmt.Sprintf("sampled %+v", sc), true)
				}
			}
		}
	}
	c.Res.Evaluations += runs
	c.Res.ExtraCoverage["stateful_sampler_complete_calls"] = runs
	c.Res.ExtraCoverage["stateful_sampler_entry_points"] = len(calls)
	c.Res.ExtraCoverage["stateful_sampler_kinds"] = len(statefulSamplers())
	c.Res.ExtraCoverage["stateful_sampler_consultations_recorded"] = consulted
	c.Res.ExtraCoverage["stateful_sampler_verdicts_admit"] = admittedN
	c.Res.ExtraCoverage["stateful_sampler_verdicts_reject"] = rejectedN
}
