package main

// C04, directed sweeps added after the round-4 seeded changes:
//  (f) the gate while another goroutine changes the global level (C04-7: should() loading the
//      global level twice), judged only on events whose fate is the same under EVERY value the
//      global level takes during the run;
//  (g) Level text forms under customised level names: LevelFieldMarshalFunc replaced, and the
//      Level*Value variables reassigned (C04-8: ParseLevel matching String() instead of
//      LevelFieldMarshalFunc).

import (
	"fmt"
	"runtime"
	"strconv"
	"strings"
	"sync"
	"sync/atomic"

	"github.com/rs/zerolog"
	. "verifharness/hlib"
)

// ---------------------------------------------------------------- (f) concurrent SetGlobalLevel

// raceWriter counts the writes per level (index level+128); safe for concurrent use.
type raceWriter struct {
	plain  int64
	writes [256]int64
}

func (w *raceWriter) Write(p []byte) (int, error) { atomic.AddInt64(&w.plain, 1); return len(p), nil }
func (w *raceWriter) WriteLevel(l zerolog.Level, p []byte) (int, error) {
	atomic.AddInt64(&w.writes[int(l)+128], 1)
	return len(p), nil
}

type raceObj struct{ n *int64 }

func (o raceObj) MarshalZerologObject(e *zerolog.Event) { atomic.AddInt64(o.n, 1) }

// raceEntry: how an emitter creates its event
type raceEntry struct {
	name string
	lvl  int
	mk   func(l *zerolog.Logger) *zerolog.Event
}

func raceEntries() []raceEntry {
	es := []raceEntry{
		{"Trace()", -1, func(l *zerolog.Logger) *zerolog.Event { return l.Trace() }},
		{"Debug()", 0, func(l *zerolog.Logger) *zerolog.Event { return l.Debug() }},
		{"Info()", 1, func(l *zerolog.Logger) *zerolog.Event { return l.Info() }},
		{"Warn()", 2, func(l *zerolog.Logger) *zerolog.Event { return l.Warn() }},
		{"Error()", 3, func(l *zerolog.Logger) *zerolog.Event { return l.Error() }},
		{"Log()", 6, func(l *zerolog.Logger) *zerolog.Event { return l.Log() }},
	}
	for _, lv := range []int{-3, -1, 0, 1, 2, 3, 4, 5, 6, 9} {
		lv := lv
		es = append(es, raceEntry{fmt.Sprintf("WithLevel(%d)", lv), lv, func(l *zerolog.Logger) *zerolog.Event { return l.WithLevel(zerolog.Level(lv)) }})
	}
	return es
}

// raceGlobalLevel: logger level L fixed; one goroutine alternates SetGlobalLevel(A) / SetGlobalLevel(B);
// G goroutines send a fixed number of events through every entry.  The global level is A or B at every
// instant of the run, so
//   - an event with level < L, or < min(A,B), is filtered under every value: never written, and inert
//     (no hook, no Func / MsgFunc callback, no object marshaler);
//   - an event with level >= L and >= max(A,B) is admitted under every value: written exactly once per
//     call, with its own level;
//   - any other event may go either way and is not judged.
//
// Nothing here depends on the schedule on a correct gate; a gate that combines two different readings of
// the global level, or a setter that passes through a third value, shows up as a leak or a loss.
func raceGlobalLevel(c *Ctx) {
	const emitters = 4
	// every emitter makes at least minPasses passes over the entries and goes on (up to maxPasses) until the
	// emitters together have seen the global level differ between two consecutive passes needSeen times,
	// so that a run in which the alternating goroutine was not on a CPU at the same time (a loaded machine)
	// is prolonged instead of passing for a concurrent one.  The verdicts use the numbers of calls actually
	// made.
	minPasses := 1500
	if c.Thorough() {
		minPasses = 20000
	}
	maxPasses, needSeen := 8*minPasses, minPasses
	if runtime.GOMAXPROCS(0) < 2 || runtime.NumCPU() < 2 {
		maxPasses = minPasses
		c.Note("concurrent global level sweep: a single CPU, the alternating goroutine and the emitters only interleave at preemption points")
	}
	entries := raceEntries()
	globals := []int{-1, 1, 3, 7}
	runs, judgedFiltered, judgedAdmitted := 0, 0, 0
	defer zerolog.SetGlobalLevel(zerolog.TraceLevel)
	for _, L := range []int{0, 1, 2, 4} {
		for _, A := range globals {
			for _, B := range globals {
				if A == B {
					continue
				}
				lo, hi := A, B
				if lo > hi {
					lo, hi = hi, lo
				}
				w := &raceWriter{}
				var hooks [256]int64
				var funcs, msgfuncs, objs = make([]int64, len(entries)), make([]int64, len(entries)), make([]int64, len(entries))
				lg := zerolog.New(w).Level(zerolog.Level(L)).Hook(zerolog.HookFunc(func(e *zerolog.Event, lv zerolog.Level, m string) {
					atomic.AddInt64(&hooks[int(lv)+128], 1)
				}))
				zerolog.SetGlobalLevel(zerolog.Level(A))
				var stop int32
				var tg, wg sync.WaitGroup
				tg.Add(1)
				go func() {
					defer tg.Done()
					for i := 0; atomic.LoadInt32(&stop) == 0; i++ {
						if i&1 == 0 {
							zerolog.SetGlobalLevel(zerolog.Level(B))
						} else {
							zerolog.SetGlobalLevel(zerolog.Level(A))
						}
					}
				}()
				var seenAll int64
				passes := make([]int64, emitters)
								for g := 0; g < emitters; g++ {
					wg.Add(1)
					go func(g int) {
						defer wg.Done()
						l := lg
						last := zerolog.GlobalLevel()
						n := 0
						for n < minPasses || (atomic.LoadInt64(&seenAll) < int64(needSeen) && n < maxPasses) {
							for k := range entries {
								k := (k + g) % len(entries)
								en := &entries[k]
								en.mk(&l).
									Func(func(e *zerolog.Event) { atomic.AddInt64(&funcs[k], 1) }).
									Object("o", raceObj{&objs[k]}).
									MsgFunc(func() string { atomic.AddInt64(&msgfuncs[k], 1); return "" })
							}
							n++
							if cur := zerolog.GlobalLevel(); cur != last {
								last = cur
								atomic.AddInt64(&seenAll, 1)
							}
						}
						passes[g] = int64(n)
					}(g)
				}
				wg.Wait()
				atomic.StoreInt32(&stop, 1)
				tg.Wait()
				var sent int64
				for g := 0; g < emitters; g++ {
					sent += passes[g]
				}
				if sent > int64(emitters*minPasses) {
					c.Hist("concurrent global level: run length", "prolonged")
				} else {
					c.Hist("concurrent global level: run length", "minimal")
				}
				if seenAll < int64(needSeen) {
					c.Hist("concurrent global level: alternations seen by the emitters", "fewer than wanted")
				} else {
					c.Hist("concurrent global level: alternations seen by the emitters", "enough")
				}
				runs++
				c.Count(fmt.Sprintf("race L=%d A=%d B=%d", L, A, B), true)
				// per level: how many calls were made (several entries share a level)
				callsAt := map[int]int64{}
				for _, en := range entries {
					callsAt[en.lvl] += sent
				}
				base := func(en raceEntry) map[string]interface{} {
					return map[string]interface{}{"logger_level": L, "global_level_alternates_between": []int{A, B}, "entry": en.name, "event_level": en.lvl,
						"emitter_goroutines": emitters, "calls_in_all": sent,
						"statement": "l." + en.name + ".Func(f).Object(\"o\", m).MsgFunc(g), while another goroutine loops SetGlobalLevel(B); SetGlobalLevel(A)"}
				}
				if n := atomic.LoadInt64(&w.plain); n != 0 {
					c.Violate(Violation{Key: "writelevel-wrong", Monitor: "gate-concurrent-global", Desc: fmt.Sprintf("a LevelWriter received %d plain Write calls", n), Case: map[string]interface{}{"logger_level": L, "global_level_alternates_between": []int{A, B}}})
				}
				seenLvl := map[int]bool{}
				for k, en := range entries {
					always := en.lvl >= L && en.lvl >= hi && en.lvl != 7
					never := en.lvl < L || en.lvl < lo || en.lvl == 7
					inv := map[string]int64{"func_callbacks": atomic.LoadInt64(&funcs[k]), "msgfunc_callbacks": atomic.LoadInt64(&msgfuncs[k]), "object_marshaler_calls": atomic.LoadInt64(&objs[k])}
					switch {
					case never:
						judgedFiltered++
						if inv["func_callbacks"]+inv["msgfunc_callbacks"]+inv["object_marshaler_calls"] != 0 {
							c.Violate(Violation{Key: "filtered-event-not-inert", Monitor: "gate-concurrent-global",
								Desc: fmt.Sprintf("logger level %d, global level alternating between %d and %d (concurrently): %s (level %d) is filtered under both, yet %v of %d calls ran their callbacks", L, A, B, en.name, en.lvl, inv, sent),
								Case: base(en), Observed: inv, Expected: map[string]int64{"func_callbacks": 0, "msgfunc_callbacks": 0, "object_marshaler_calls": 0}})
						}
					case always:
						judgedAdmitted++
						if inv["func_callbacks"] != sent || inv["msgfunc_callbacks"] != sent || inv["object_marshaler_calls"] != sent {
							c.Violate(Violation{Key: "gate-wrong", Monitor: "gate-concurrent-global",
								Desc: fmt.Sprintf("logger level %d, global level alternating between %d and %d (concurrently): %s (level %d) is admitted under both, yet of %d calls only %v were built", L, A, B, en.name, en.lvl, sent, inv),
								Case: base(en), Observed: inv, Expected: sent})
						}
					}
					if seenLvl[en.lvl] {
						continue
					}
					seenLvl[en.lvl] = true
					wr, hk := atomic.LoadInt64(&w.writes[en.lvl+128]), atomic.LoadInt64(&hooks[en.lvl+128])
					switch {
					case never:
						if wr != 0 || hk != 0 {
							c.Violate(Violation{Key: "gate-wrong", Monitor: "gate-concurrent-global",
								Desc: fmt.Sprintf("logger level %d, global level alternating between %d and %d (concurrently): events of level %d are filtered under both values, yet %d were written and the hook ran %d times (of %d calls)", L, A, B, en.lvl, wr, hk, callsAt[en.lvl]),
								Case: base(en), Observed: map[string]int64{"written": wr, "hook_runs": hk}, Expected: map[string]int64{"written": 0, "hook_runs": 0}})
						}
					case always:
						if wr != callsAt[en.lvl] || hk != callsAt[en.lvl] {
							c.Violate(Violation{Key: "gate-wrong", Monitor: "gate-concurrent-global",
								Desc: fmt.Sprintf("logger level %d, global level alternating between %d and %d (concurrently): events of level %d are admitted under both values, yet of %d calls %d were written and the hook ran %d times", L, A, B, en.lvl, callsAt[en.lvl], wr, hk),
								Case: base(en), Observed: map[string]int64{"written": wr, "hook_runs": hk}, Expected: callsAt[en.lvl]})
						}
					}
				}
				// levels nobody sent must not appear at the writer
				for lv := -128; lv <= 127; lv++ {
					if callsAt[lv] == 0 && atomic.LoadInt64(&w.writes[lv+128]) != 0 {
						c.Violate(Violation{Key: "writelevel-wrong", Monitor: "gate-concurrent-global", Desc: fmt.Sprintf("WriteLevel received level %d, which no event had", lv), Case: map[string]interface{}{"logger_level": L, "global_level_alternates_between": []int{A, B}}})
					}
				}
				c.Res.Evaluations += len(entries) * int(sent)
			}
		}
	}
	c.Res.ExtraCoverage["concurrent_global_level_runs"] = runs
	c.Res.ExtraCoverage["concurrent_global_level_entries_always_filtered"] = judgedFiltered
	c.Res.ExtraCoverage["concurrent_global_level_entries_always_admitted"] = judgedAdmitted
}

// ---------------------------------------------------------------- (g) customised level names

var namedLevels = []zerolog.Level{zerolog.TraceLevel, zerolog.DebugLevel, zerolog.InfoLevel, zerolog.WarnLevel, zerolog.ErrorLevel,
	zerolog.FatalLevel, zerolog.PanicLevel, zerolog.NoLevel, zerolog.Disabled}

type nameCfg struct {
	Name  string   `json:"naming"`
	Names []string `json:"names_trace_debug_info_warn_error_fatal_panic_nolevel_disabled"`
}

// the namings: each gives the nine named levels a text; every other level keeps its decimal text
var levelNamings = []nameCfg{
	{"defaults in upper case", []string{"TRACE", "DEBUG", "INFO", "WARN", "ERROR", "FATAL", "PANIC", "", "DISABLED"}},
	{"syslog severities", []string{"TRACE", "DEBUG", "INFORMATIONAL", "WARNING", "ERR", "CRIT", "EMERG", "NONE", "OFF"}},
	{"single letters", []string{"t", "d", "i", "w", "e", "f", "p", "-", "x"}},
	{"the default names rotated by one level", []string{"debug", "info", "warn", "error", "fatal", "panic", "", "disabled", "trace"}},
	{"prefixed", []string{"lvl:trace", "lvl:debug", "lvl:info", "lvl:warn", "lvl:error", "lvl:fatal", "lvl:panic", "lvl:none", "lvl:disabled"}},
	{"non-ASCII", []string{"Spur", "Fehlersuche", "Auskunft", "Warnung", "Störung", "tödlich", "Panik", "ohne", "aus"}},
	{"names that look like other levels' numbers", []string{"L-1", "L0", "L1", "L2", "L3", "L4", "L5", "L6", "L7"}},
	{"only one level renamed", []string{"trace", "debug", "notice", "warn", "error", "fatal", "panic", "", "disabled"}},
}

// namingAdmissible: the round trip can only be demanded when the naming is injective up to case over all
// 256 levels and no name reads as a decimal level.
func namingAdmissible(n nameCfg) bool {
	seen := map[string]bool{}
	for _, s := range n.Names {
		f := strings.ToLower(s)
		if seen[f] {
			return false
		}
		seen[f] = true
		if _, err := strconv.Atoi(s); err == nil {
			return false
		}
	}
	return len(n.Names) == len(namedLevels)
}

func customLevelNames(c *Ctx) {
	oldF := zerolog.LevelFieldMarshalFunc
	oldV := []string{zerolog.LevelTraceValue, zerolog.LevelDebugValue, zerolog.LevelInfoValue, zerolog.LevelWarnValue, zerolog.LevelErrorValue, zerolog.LevelFatalValue, zerolog.LevelPanicValue}
	restore := func() {
		zerolog.LevelFieldMarshalFunc = oldF
		zerolog.LevelTraceValue, zerolog.LevelDebugValue, zerolog.LevelInfoValue, zerolog.LevelWarnValue, zerolog.LevelErrorValue, zerolog.LevelFatalValue, zerolog.LevelPanicValue =
			oldV[0], oldV[1], oldV[2], oldV[3], oldV[4], oldV[5], oldV[6]
	}
	defer restore()
	checked := 0
	roundTrip := func(how string, n nameCfg, viaString bool) {
		for l := -128; l <= 127; l++ {
			lv := zerolog.Level(l)
			mt, merr := lv.MarshalText()
			var back zerolog.Level = 99
			uerr := back.UnmarshalText(mt)
			p, perr := zerolog.ParseLevel(string(mt))
			checked++
			cs := map[string]interface{}{"level": l, "customisation": how, "naming": n}
			if merr != nil || uerr != nil || perr != nil || int(back) != l || int(p) != l {
				c.Violate(Violation{Key: "level-text-roundtrip", Monitor: "level-roundtrip-custom-names",
					Desc: fmt.Sprintf("%s = %q: Level(%d).MarshalText() = %q (%v); UnmarshalText of it -> %d (%v); ParseLevel of it -> %d (%v)", how, n.Name, l, mt, merr, back, uerr, p, perr),
					Case: cs, Observed: map[string]interface{}{"text": string(mt), "unmarshal": int(back), "parse": int(p)}, Expected: l})
			}
			if viaString {
				s := lv.String()
				q, qerr := zerolog.ParseLevel(s)
				if qerr != nil || int(q) != l {
					c.Violate(Violation{Key: "level-text-roundtrip", Monitor: "level-roundtrip-custom-names",
						Desc: fmt.Sprintf("%s = %q: Level(%d).String() = %q; ParseLevel of it -> %d (%v)", how, n.Name, l, s, q, qerr),
						Case: cs, Observed: map[string]interface{}{"text": s, "parse": int(q)}, Expected: l})
				}
			}
		}
		c.Count("names "+how+" "+n.Name, true)
	}
	for _, n := range levelNamings {
		if !namingAdmissible(n) {
			c.Note("level naming %q skipped: not injective up to case, or numeric", n.Name)
			continue
		}
		// (1) LevelFieldMarshalFunc replaced (MarshalText uses it; String() keeps the default names, so only
		// the MarshalText form is demanded to round-trip)
		names := map[zerolog.Level]string{}
		for i, lv := range namedLevels {
			names[lv] = n.Names[i]
		}
		zerolog.LevelFieldMarshalFunc = func(l zerolog.Level) string {
			if s, ok := names[l]; ok {
				return s
			}
			return strconv.Itoa(int(l))
		}
		roundTrip("LevelFieldMarshalFunc", n, false)
		restore()
		// (2) the Level*Value variables reassigned, LevelFieldMarshalFunc left at its default (String()):
		// both String() and MarshalText round-trip.  NoLevel / Disabled have no variable: they keep "" / "disabled",
		// so a naming is used here only if its first seven names avoid those two.
		ok := true
		for _, s := range n.Names[:7] {
			if s == "" || strings.EqualFold(s, "disabled") {
				ok = false
			}
		}
		if ok {
			zerolog.LevelTraceValue, zerolog.LevelDebugValue, zerolog.LevelInfoValue, zerolog.LevelWarnValue, zerolog.LevelErrorValue, zerolog.LevelFatalValue, zerolog.LevelPanicValue =
				n.Names[0], n.Names[1], n.Names[2], n.Names[3], n.Names[4], n.Names[5], n.Names[6]
			roundTrip("Level*Value variables", n, true)
			restore()
		}
	}
	c.Res.Evaluations += checked
	c.Res.ExtraCoverage["custom_level_name_roundtrips"] = checked
	c.Res.ExtraCoverage["custom_level_namings"] = len(levelNamings)
}
