package main

// C04, directed sweeps added after the round-4 seeded changes:
//  (f) the gate while another goroutine changes the global level (C04-7: should() loading the
//      global level twice), judged only on events whose fate is the same under EVERY value the
//      global level takes during the run;
//  (g) Level text forms under customised level names: LevelFieldMarshalFunc replaced, and the
//      Level*Value variables reassigned (C04-8: ParseLevel matching String() instead of
//      LevelFieldMarshalFunc).

import (
	"fmt"
	"runtime"
	"strconv"
	"strings"
	"sync"
	"sync/atomic"

	"github.com/rs/zerolog"
	. "verifharness/hlib"
)

// ---------------------------------------------------------------- (f) concurrent SetGlobalLevel

// raceWriter counts the writes per level (index level+128); safe for concurrent use.
type raceWriter struct {
	plain  int64
	writes [256]int64
}

func (w *raceWriter) Write(p []byte) (int, error) { atomic.AddInt64(&w.plain, 1); return len(p), nil }
func (w *raceWriter) WriteLevel(l zerolog.Level, p []byte) (int, error) {
	atomic.AddInt64(&w.writes[int(l)+128], 1)
	return len(p), nil
}

type raceObj struct{ n *int64 }

func (o raceObj) MarshalZerologObject(e *zerolog.Event) { atomic.AddInt64(o.n, 1) }

// raceEntry: how an emitter creates its event
type raceEntry struct {
	name string
	lvl  int
	mk   func(l *zerolog.Logger) *zerolog.Event
}

func raceEntries() []raceEntry {
	es := []raceEntry{
		{"Trace()", -1, func(l *zerolog.Logger) *zerolog.Event { return l.Trace() }},
		{"Debug()", 0, func(l *zerolog.Logger) *zerolog.Event { return l.Debug() }},
		{"Info()", 1, func(l *zerolog.Logger) *zerolog.Event { return l.Info() }},
		{"Warn()", 2, func(l *zerolog.Logger) *zerolog.Event { return l.Warn() }},
		{"Error()", 3, func(l *zerolog.Logger) *zerolog.Event { return l.Error() }},
		{"Log()", 6, func(l *zerolog.Logger) *zerolog.Event { return l.Log() }},
	}
	for _, lv := range []int{-3, -1, 0, 1, 2, 3, 4, 5, 6, 9} {
		lv := lv
		es = append(es, raceEntry{fmt.Sprintf("WithLevel(%d)", lv), lv, func(l *zerolog.Logger) *zerolog.Event { return l.WithLevel(zerolog.Level(lv)) }})
	}
	return es
}

// raceGlobalLevel: logger level L fixed; one goroutine alternates SetGlobalLevel(A) / SetGlobalLevel(B);
// G goroutines send events through every entry, pass after pass (at least a fixed number of passes, more
// while they have not yet seen the global level change often enough).  The global level is A or B at
// every instant of the run, so
//   - an event with level < L, or < min(A,B), is filtered under every value: never written, and inert
//     (no hook, no Func / MsgFunc callback, no object marshaler);
//   - an event with level >= L and >= max(A,B) is admitted under every value: written exactly once per
//     call, with its own level;
//   - any other event may go either way and is not judged.
//
// Nothing here depends on the schedule on a correct gate; a gate that combines two different readings of
// the global level, or a setter that passes through a third value, shows up as a leak or a loss.
func raceGlobalLevel(c *Ctx) {
	const emitters = 4
	// every emitter makes at least minPasses passes over the entries and goes on (up to maxPasses) until the
	// emitters together have seen the global level differ between two consecutive passes needSeen times,
	// so that a run in which the alternating goroutine was not on a CPU at the same time (a loaded machine)
	// is prolonged instead of passing for a concurrent one.  The verdicts use the numbers of calls actually
	// made.
	minPasses := 1500
	if c.Thorough() {
		minPasses = 20000
	}
	maxPasses, needSeen := 8*minPasses, minPasses
	if runtime.GOMAXPROCS(0) < 2 || runtime.NumCPU() < 2 {
		maxPasses = minPasses
		c.Note("concurrent global level sweep: a single CPU, the alternating goroutine and the emitters only interleave at preemption points")
	}
	entries := raceEntries()
	globals := []int{-1, 1, 3, 7}
	runs, judgedFiltered, judgedAdmitted := 0, 0, 0
	defer zerolog.SetGlobalLevel(zerolog.TraceLevel)
	for _, L := range []int{0, 1, 2, 4} {
		for _, A := range globals {
			for _, B := range globals {
				if A == B {
					continue
				}
				lo, hi := A, B
				if lo > hi {
					lo, hi = hi, lo
				}
				w := &raceWriter{}
				var hooks [256]int64
				var funcs, msgfuncs, objs = make([]int64, len(entries)), make([]int64, len(entries)), make([]int64, len(entries))
				panics := make([]int64, len(entries))
				lg := zerolog.New(w).Level(zerolog.Level(L)).Hook(zerolog.HookFunc(func(e *zerolog.Event, lv zerolog.Level, m string) {
					atomic.AddInt64(&hooks[int(lv)+128], 1)
				}))
				zerolog.SetGlobalLevel(zerolog.Level(A))
				var stop int32
				var tg, wg sync.WaitGroup
				tg.Add(1)
				go func() {
					defer tg.Done()
					for i := 0; atomic.LoadInt32(&stop) == 0; i++ {
						if i&1 == 0 {
							zerolog.SetGlobalLevel(zerolog.Level(B))
						} else {
							zerolog.SetGlobalLevel(zerolog.Level(A))
						}
					}
				}()
				var seenAll int64
				passes := make([]int64, emitters)
				for g := 0; g < emitters; g++ {
					wg.Add(1)
					go func(g int) {
						defer wg.Done()
						l := lg
						last := zerolog.GlobalLevel()
						n := 0
						for n < minPasses || (atomic.LoadInt64(&seenAll) < int64(needSeen) && n < maxPasses) {
							for k := range entries {
								k := (k + g) % len(entries)
								en := &entries[k]
								func() {
									// none of the entries is Panic(): a panic is counted and judged below instead of ending the run
									defer func() {
										if r := recover(); r != nil {
											atomic.AddInt64(&panics[k], 1)
										}
									}()
									en.mk(&l).
										Func(func(e *zerolog.Event) { atomic.AddInt64(&funcs[k], 1) }).
										Object("o", raceObj{&objs[k]}).
										MsgFunc(func() string { atomic.AddInt64(&msgfuncs[k], 1); return "" })
								}()
							}
							n++
							if cur := zerolog.GlobalLevel(); cur != last {
								last = cur
								atomic.AddInt64(&seenAll, 1)
							}
						}
						passes[g] = int64(n)
					}(g)
				}
				wg.Wait()
				atomic.StoreInt32(&stop, 1)
				tg.Wait()
				var sent int64
				for g := 0; g < emitters; g++ {
					sent += passes[g]
				}
				if sent > int64(emitters*minPasses) {
					c.Hist("concurrent global level: run length", "prolonged")
				} else {
					c.Hist("concurrent global level: run length", "minimal")
				}
				if seenAll < int64(needSeen) {
					c.Hist("concurrent global level: alternations seen by the emitters", "fewer than wanted")
				} else {
					c.Hist("concurrent global level: alternations seen by the emitters", "enough")
				}
				runs++
				c.Count(fmt.Sprintf("race L=%d A=%d B=%d", L, A, B), true)
				// per level: how many calls were made (several entries share a level)
				callsAt := map[int]int64{}
				for _, en := range entries {
					callsAt[en.lvl] += sent
				}
				base := func(en raceEntry) map[string]interface{} {
					return map[string]interface{}{"logger_level": L, "global_level_alternates_between": []int{A, B}, "entry": en.name, "event_level": en.lvl,
						"emitter_goroutines": emitters, "calls_in_all": sent,
						"statement": "l." + en.name + ".Func(f).Object(\"o\", m).MsgFunc(g), while another goroutine loops SetGlobalLevel(B); SetGlobalLevel(A)"}
				}
				if n := atomic.LoadInt64(&w.plain); n != 0 {
					c.Violate(Violation{Key: "writelevel-wrong", Monitor: "gate-concurrent-global", Desc: fmt.Sprintf("a LevelWriter received %d plain Write calls", n), Case: map[string]interface{}{"logger_level": L, "global_level_alternates_between": []int{A, B}}})
				}
				seenLvl := map[int]bool{}
				for k, en := range entries {
					always := en.lvl >= L && en.lvl >= hi && en.lvl != 7
					never := en.lvl < L || en.lvl < lo || en.lvl == 7
					inv := map[string]int64{"func_callbacks": atomic.LoadInt64(&funcs[k]), "msgfunc_callbacks": atomic.LoadInt64(&msgfuncs[k]), "object_marshaler_calls": atomic.LoadInt64(&objs[k])}
					if np := atomic.LoadInt64(&panics[k]); np != 0 {
						c.Violate(Violation{Key: "panic-callback-wrong", Monitor: "gate-concurrent-global",
							Desc: fmt.Sprintf("logger level %d, global level alternating between %d and %d (concurrently): %d of %d %s statements panicked (only Panic() may)", L, A, B, np, sent, en.name),
							Case: base(en), Observed: np, Expected: 0})
					}
					switch {
					case never:
						judgedFiltered++
						if inv["func_callbacks"]+inv["msgfunc_callbacks"]+inv["object_marshaler_calls"] != 0 {
							c.Violate(Violation{Key: "filtered-event-not-inert", Monitor: "gate-concurrent-global",
								Desc: fmt.Sprintf("logger level %d, global level alternating between %d and %d (concurrently): %s (level %d) is filtered under both, yet %v of %d calls ran their callbacks", L, A, B, en.name, en.lvl, inv, sent),
								Case: base(en), Observed: inv, Expected: map[string]int64{"func_callbacks": 0, "msgfunc_callbacks": 0, "object_marshaler_calls": 0}})
						}
					case always:
						judgedAdmitted++
						if inv["func_callbacks"] != sent || inv["msgfunc_callbacks"] != sent || inv["object_marshaler_calls"] != sent {
							c.Violate(Violation{Key: "gate-wrong", Monitor: "gate-concurrent-global",
								Desc: fmt.Sprintf("logger level %d, global level alternating between %d and %d (concurrently): %s (level %d) is admitted under both, yet of %d calls only %v were built", L, A, B, en.name, en.lvl, sent, inv),
								Case: base(en), Observed: inv, Expected: sent})
						}
					}
					if seenLvl[en.lvl] {
						continue
					}
					seenLvl[en.lvl] = true
					wr, hk := atomic.LoadInt64(&w.writes[en.lvl+128]), atomic.LoadInt64(&hooks[en.lvl+128])
					switch {
					case never:
						if wr != 0 || hk != 0 {
							c.Violate(Violation{Key: "gate-wrong", Monitor: "gate-concurrent-global",
								Desc: fmt.Sprintf("logger level %d, global level alternating between %d and %d (concurrently): events of level %d are filtered under both values, yet %d were written and the hook ran %d times (of %d calls)", L, A, B, en.lvl, wr, hk, callsAt[en.lvl]),
								Case: base(en), Observed: map[string]int64{"written": wr, "hook_runs": hk}, Expected: map[string]int64{"written": 0, "hook_runs": 0}})
						}
					case always:
						if wr != callsAt[en.lvl] || hk != callsAt[en.lvl] {
							c.Violate(Violation{Key: "gate-wrong", Monitor: "gate-concurrent-global",
								Desc: fmt.Sprintf("logger level %d, global level alternating between %d and %d (concurrently): events of level %d are admitted under both values, yet of %d calls %d were written and the hook ran %d times", L, A, B, en.lvl, callsAt[en.lvl], wr, hk),
								Case: base(en), Observed: map[string]int64{"written": wr, "hook_runs": hk}, Expected: callsAt[en.lvl]})
						}
					}
				}
				// levels nobody sent must not appear at the writer
				for lv := -128; lv <= 127; lv++ {
					if callsAt[lv] == 0 && atomic.LoadInt64(&w.writes[lv+128]) != 0 {
						c.Violate(Violation{Key: "writelevel-wrong", Monitor: "gate-concurrent-global", Desc: fmt.Sprintf("WriteLevel received level %d, which no event had", lv), Case: map[string]interface{}{"logger_level": L, "global_level_alternates_between": []int{A, B}}})
					}
				}
				c.Res.Evaluations += len(entries) * int(sent)
			}
		}
	}
	c.Res.ExtraCoverage["concurrent_global_level_runs"] = runs
	c.Res.ExtraCoverage["concurrent_global_level_entries_always_filtered"] = judgedFiltered
	c.Res.ExtraCoverage["concurrent_global_level_entries_always_admitted"] = judgedAdmitted
}

// ---------------------------------------------------------------- (g) customised level names

var namedLevels = []zerolog.Level{zerolog.TraceLevel, zerolog.DebugLevel, zerolog.InfoLevel, zerolog.WarnLevel, zerolog.ErrorLevel,
	zerolog.FatalLevel, zerolog.PanicLevel, zerolog.NoLevel, zerolog.Disabled}

var defaultLevelNames = []string{"trace", "debug", "info", "warn", "error", "fatal", "panic", "", "disabled"}

type nameCfg struct {
	Name  string   `json:"naming"`
	Names []string `json:"names_trace_debug_info_warn_error_fatal_panic_nolevel_disabled"`
}

// the namings: each gives the nine named levels a text; every other level keeps its decimal text
var levelNamings = []nameCfg{
	{"defaults in upper case", []string{"TRACE", "DEBUG", "INFO", "WARN", "ERROR", "FATAL", "PANIC", "", "DISABLED"}},
	{"defaults in mixed case", []string{"Trace", "dEBUG", "InFo", "warN", "ErroR", "fAtAl", "PaNiC", "", "Disabled"}},
	{"syslog severities", []string{"TRACE", "DEBUG", "INFORMATIONAL", "WARNING", "ERR", "CRIT", "EMERG", "NONE", "OFF"}},
	{"single letters", []string{"t", "d", "i", "w", "e", "f", "p", "-", "x"}},
	{"the default names rotated by one level", []string{"debug", "info", "warn", "error", "fatal", "panic", "", "disabled", "trace"}},
	{"the default names swapped in pairs", []string{"debug", "trace", "warn", "info", "fatal", "error", "panic", "disabled", ""}},
	{"prefixed", []string{"lvl:trace", "lvl:debug", "lvl:info", "lvl:warn", "lvl:error", "lvl:fatal", "lvl:panic", "lvl:none", "lvl:disabled"}},
	{"non-ASCII", []string{"Spur", "Fehlersuche", "Auskunft", "Warnung", "Störung", "tödlich", "Panik", "ohne", "aus"}},
	{"names that look like other levels' numbers", []string{"L-1", "L0", "L1", "L2", "L3", "L4", "L5", "L6", "L7"}},
	{"only one level renamed", []string{"trace", "debug", "notice", "warn", "error", "fatal", "panic", "", "disabled"}},
	{"only Disabled renamed", []string{"trace", "debug", "info", "warn", "error", "fatal", "panic", "", "off"}},
	{"Disabled answers the empty text, NoLevel a word", []string{"trace", "debug", "info", "warn", "error", "fatal", "panic", "none", ""}},
	{"Trace answers the empty text, NoLevel a word", []string{"", "debug", "info", "warn", "error", "fatal", "panic", "nolevel", "disabled"}},
	{"every named level as its own number", []string{"-1", "0", "1", "2", "3", "4", "5", "6", "7"}},
	{"the named levels' numbers in reverse", []string{"7", "6", "5", "4", "3", "2", "1", "0", "-1"}},
	{"the named levels' numbers rotated, with a sign and zeros", []string{"+0", "01", "2", "3", "4", "5", "6", "7", "-01"}},
	{"names with blanks", []string{" trace", "debug ", "in fo", "warn\t", "error", "fatal", "panic", " ", "disabled"}},
	// not injective: several levels share a text (up to case), or a name is the decimal text of a level
	// that has no name.  Only the text round trip is demanded of these.
	{"every named level answers the empty text", []string{"", "", "", "", "", "", "", "", ""}},
	{"two groups of levels share a name", []string{"low", "low", "info", "warn", "high", "high", "high", "", "disabled"}},
	{"names that differ in case only", []string{"x", "X", "info", "Info", "error", "fatal", "panic", "", "disabled"}},
	{"a name is the number of an unnamed level", []string{"trace", "debug", "info", "42", "error", "-128", "panic", "", "disabled"}},
	{"NoLevel and Disabled both answer the empty text", []string{"trace", "debug", "info", "warn", "error", "fatal", "panic", "", ""}},
}

// namingText: the text of level l under the naming
func namingText(names []string, l int) string {
	for i, lv := range namedLevels {
		if int(lv) == l {
			return names[i]
		}
	}
	return strconv.Itoa(l)
}

// namingInjective: the 256 levels have pairwise different texts up to case (strings.EqualFold).  Only
// then can a text be demanded to read back as the level it came from.
func namingInjective(names []string) bool {
	if len(names) != len(namedLevels) {
		return false
	}
	texts := make([]string, 256)
	for l := -128; l <= 127; l++ {
		texts[l+128] = namingText(names, l)
	}
	for i, lv := range namedLevels {
		for l := -128; l <= 127; l++ {
			if l != int(lv) && strings.EqualFold(names[i], texts[l+128]) {
				return false
			}
		}
	}
	return true // the decimal texts of two different unnamed levels never coincide
}

func isASCII(s string) bool {
	for i := 0; i < len(s); i++ {
		if s[i] >= 0x80 {
			return false
		}
	}
	return true
}

func namingCoq(names []string) string {
	f := []string{"n_trace", "n_debug", "n_info", "n_warn", "n_error", "n_fatal", "n_panic", "n_nolevel", "n_disabled"}
	xs := make([]string, len(f))
	for i := range f {
		xs[i] = f[i] + " := " + CoqBytes([]byte(names[i]))
	}
	return "{| " + strings.Join(xs, "; ") + " |}"
}

// customLevelNames: for each naming, installed (1) as a replaced LevelFieldMarshalFunc and (2) through the
// Level*Value variables (NoLevel and Disabled have no variable and keep "" / "disabled"):
//   - injective naming: MarshalText of each of the 256 levels reads back (UnmarshalText, ParseLevel) as that
//     level; under (2) String() does too;
//   - any naming: the text reads back without error as a level whose text is this text (up to case);
//   - ParseLevel on the names, their case variants, the default names and numbers, against
//     Misc/LevelNames.v parse_level_with (ASCII only).
func customLevelNames(c *Ctx) {
	oldF := zerolog.LevelFieldMarshalFunc
	oldV := []string{zerolog.LevelTraceValue, zerolog.LevelDebugValue, zerolog.LevelInfoValue, zerolog.LevelWarnValue, zerolog.LevelErrorValue, zerolog.LevelFatalValue, zerolog.LevelPanicValue}
	restore := func() {
		zerolog.LevelFieldMarshalFunc = oldF
		zerolog.LevelTraceValue, zerolog.LevelDebugValue, zerolog.LevelInfoValue, zerolog.LevelWarnValue, zerolog.LevelErrorValue, zerolog.LevelFatalValue, zerolog.LevelPanicValue =
			oldV[0], oldV[1], oldV[2], oldV[3], oldV[4], oldV[5], oldV[6]
	}
	defer restore()
	checked, injective, modelCases := 0, 0, 0
	errKind := func(err error) int {
		switch {
		case err == nil:
			return 0
		case strings.HasPrefix(err.Error(), "Out-Of-Bounds"):
			return 2
		}
		return 1
	}
	// sweep: the configuration is installed; names = the effective texts of the nine named levels
	sweep := func(how string, n nameCfg, names []string, viaString bool) {
		inj := namingInjective(names)
		if inj {
			injective++
		}
		cfg := map[string]interface{}{"customisation": how, "naming": n, "effective_names": names, "injective_up_to_case": inj}
		for l := -128; l <= 127; l++ {
			lv := zerolog.Level(l)
			mt, merr := lv.MarshalText()
			var back zerolog.Level = 99
			uerr := back.UnmarshalText(mt)
			p, perr := zerolog.ParseLevel(string(mt))
			checked++
			cs := map[string]interface{}{"level": l, "configuration": cfg}
			if inj {
				if merr != nil || uerr != nil || perr != nil || int(back) != l || int(p) != l {
					c.Violate(Violation{Key: "level-text-roundtrip", Monitor: "level-roundtrip-custom-names",
						Desc: fmt.Sprintf("%s = %q: Level(%d).MarshalText() = %q (%v); UnmarshalText of it -> %d (%v); ParseLevel of it -> %d (%v)", how, n.Name, l, mt, merr, back, uerr, p, perr),
						Case: cs, Observed: map[string]interface{}{"text": string(mt), "unmarshal": int(back), "parse": int(p)}, Expected: l})
				}
			} else {
				// the text must read back, without error, as a level that has this text
				bt, _ := back.MarshalText()
				pt, _ := p.MarshalText()
				if merr != nil || uerr != nil || perr != nil || !strings.EqualFold(string(bt), string(mt)) || !strings.EqualFold(string(pt), string(mt)) {
					c.Violate(Violation{Key: "level-text-roundtrip", Monitor: "level-text-form-roundtrip",
						Desc: fmt.Sprintf("%s = %q: Level(%d).MarshalText() = %q (%v); UnmarshalText of it -> %d (%v) whose text is %q; ParseLevel of it -> %d (%v) whose text is %q", how, n.Name, l, mt, merr, back, uerr, bt, p, perr, pt),
						Case: cs, Observed: map[string]interface{}{"text": string(mt), "unmarshal": int(back), "unmarshal_text": string(bt), "parse": int(p), "parse_text": string(pt)}, Expected: string(mt)})
				}
			}
			if viaString && inj {
				s := lv.String()
				q, qerr := zerolog.ParseLevel(s)
				if qerr != nil || int(q) != l {
					c.Violate(Violation{Key: "level-text-roundtrip", Monitor: "level-roundtrip-custom-names",
						Desc: fmt.Sprintf("%s = %q: Level(%d).String() = %q; ParseLevel of it -> %d (%v)", how, n.Name, l, s, q, qerr),
						Case: cs, Observed: map[string]interface{}{"text": s, "parse": int(q)}, Expected: l})
				}
			}
		}
		c.Count("names "+how+" "+n.Name, true)
		// ParseLevel against the model
		ascii := true
		for _, s := range names {
			ascii = ascii && isASCII(s)
		}
		if !ascii {
			return // non-ASCII folding is outside the model (Misc/Level.v equal_fold)
		}
		qs := []string{}
		seen := map[string]bool{}
		add := func(s string) {
			if !seen[s] && isASCII(s) {
				seen[s] = true
				qs = append(qs, s)
			}
		}
		for _, s := range names {
			add(s)
			add(strings.ToUpper(s))
			add(strings.ToLower(s))
		}
		for _, s := range defaultLevelNames {
			add(s)
		}
		for _, s := range []string{"-2", "-1", "0", "1", "3", "6", "7", "8", "42", "127", "128", "-128", "-129", "+7", "007", "x", "none", "off"} {
			add(s)
		}
		for _, s := range qs {
			p, err := zerolog.ParseLevel(s)
			obs := fmt.Sprintf("OParse None %d", errKind(err))
			if err == nil {
				obs = fmt.Sprintf("OParse (Some %s) 0", CoqZ(int64(p)))
			}
			c.AddCase(fmt.Sprintf("(CParseNamed %s %s, %s)", namingCoq(names), CoqBytes([]byte(s)), obs),
				map[string]interface{}{"configuration": cfg, "parse": s, "ok": err == nil, "level": int(p)})
			modelCases++
		}
	}
	for _, n := range levelNamings {
		// (1) LevelFieldMarshalFunc replaced (MarshalText uses it; String() keeps the default names, so only
		// the MarshalText form is looked at)
		names := map[zerolog.Level]string{}
		for i, lv := range namedLevels {
			names[lv] = n.Names[i]
		}
		zerolog.LevelFieldMarshalFunc = func(l zerolog.Level) string {
			if s, ok := names[l]; ok {
				return s
			}
			return strconv.Itoa(int(l))
		}
		sweep("LevelFieldMarshalFunc", n, n.Names, false)
		restore()
		// (2) the Level*Value variables reassigned, LevelFieldMarshalFunc left at its default (String()):
		// both String() and MarshalText are looked at.  NoLevel / Disabled have no variable: they keep "" / "disabled".
		eff := append(append([]string{}, n.Names[:7]...), "", "disabled")
		zerolog.LevelTraceValue, zerolog.LevelDebugValue, zerolog.LevelInfoValue, zerolog.LevelWarnValue, zerolog.LevelErrorValue, zerolog.LevelFatalValue, zerolog.LevelPanicValue =
			eff[0], eff[1], eff[2], eff[3], eff[4], eff[5], eff[6]
		sweep("Level*Value variables", n, eff, true)
		restore()
	}
	c.Res.Evaluations += checked
	c.Res.ExtraCoverage["custom_level_name_roundtrips"] = checked
	c.Res.ExtraCoverage["custom_level_namings"] = len(levelNamings)
	c.Res.ExtraCoverage["custom_level_configurations_injective"] = injective
	c.Res.ExtraCoverage["custom_level_parse_model_cases"] = modelCases
}
