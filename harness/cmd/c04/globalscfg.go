package main

// C04 (l): filtered events are inert under every setting of the documented package-level variables that Event
// methods read (C04-14: Event.Err read e.stack before its nil check on a path taken only when
// ErrorStackMarshaler is installed, as every pkgerrors user does).
//
// Configurations: ErrorStackMarshaler nil / returning a string / returning an object marshaler, x
// ErrorMarshalFunc, InterfaceMarshalFunc, TimestampFunc, CallerMarshalFunc default / replaced, x ErrorHandler
// nil / set, x the value variables (TimeFieldFormat, DurationFieldUnit / Integer, FloatingPointPrecision,
// CallerSkipFrameCount, field names, LevelFieldMarshalFunc) default / all changed.  Under each of them, for
// every way of filtering an event (logger level, global level, a rejecting sampler, Nop(), the zero Logger,
// WithLevel(Disabled), zerolog.Ctx of a context without logger, the Logger.Err(err) / Err(nil) shortcuts),
// with and without Stack() enabled on the logger: every reflected *Event method (2 argument variants) on the
// event the entry returned, and a few chained statements (Stack().Err(err).Msg ...).  A panic out of the entry
// or of any method, an invoked hook / callback / marshaler argument, a write, or a live event returned from a
// method on a nil event is a violation.  (Whether the replaced package-level functions themselves are called
// is not judged: the property text lists hooks, callbacks, object marshalers and the writer.)

import (
	"context"
	"errors"
	"fmt"
	"reflect"
	"time"

	"github.com/rs/zerolog"
	. "verifharness/hlib"
)

type globalOpt struct {
	name   string
	values []string
	set    func(v int)
}

func eventGlobalOpts(st *recState) []globalOpt {
	return []globalOpt{
		{"ErrorStackMarshaler", []string{"nil", "func returning a string", "func returning a LogObjectMarshaler"}, func(v int) {
			switch v {
			case 0:
				zerolog.ErrorStackMarshaler = nil
			case 1:
				zerolog.ErrorStackMarshaler = func(err error) interface{} { return "trace" }
			case 2:
				zerolog.ErrorStackMarshaler = func(err error) interface{} { return recObj{st} }
			}
		}},
		{"ErrorMarshalFunc", []string{"default", "func returning a LogObjectMarshaler"}, func(v int) {
			if v == 1 {
				zerolog.ErrorMarshalFunc = func(err error) interface{} { return recObj{st} }
			}
		}},
		{"InterfaceMarshalFunc", []string{"default", "replaced"}, func(v int) {
			if v == 1 {
				zerolog.InterfaceMarshalFunc = func(v interface{}) ([]byte, error) { return []byte(`"i"`), nil }
			}
		}},
		{"TimestampFunc", []string{"default", "replaced"}, func(v int) {
			if v == 1 {
				zerolog.TimestampFunc = func() time.Time { return time.Unix(7, 0) }
			}
		}},
		{"CallerMarshalFunc", []string{"default", "replaced"}, func(v int) {
			if v == 1 {
				zerolog.CallerMarshalFunc = func(pc uintptr, file string, line int) string { return "caller" }
			}
		}},
		{"ErrorHandler", []string{"nil", "set"}, func(v int) {
			if v == 1 {
				zerolog.ErrorHandler = func(err error) {}
			}
		}},
		{"value variables (TimeFieldFormat, DurationFieldUnit, DurationFieldInteger, FloatingPointPrecision, CallerSkipFrameCount, field names, LevelFieldMarshalFunc)", []string{"default", "all changed"}, func(v int) {
			if v == 1 {
				zerolog.TimeFieldFormat = zerolog.TimeFormatUnixMs
				zerolog.DurationFieldUnit = time.Second
				zerolog.DurationFieldInteger = true
				zerolog.FloatingPointPrecision = 2
				zerolog.CallerSkipFrameCount = 0
				zerolog.ErrorFieldName = "e"
				zerolog.ErrorStackFieldName = "s"
				zerolog.MessageFieldName = "m"
				zerolog.TimestampFieldName = "t"
				zerolog.CallerFieldName = "c"
				zerolog.LevelFieldMarshalFunc = func(l zerolog.Level) string { return "L" }
			}
		}},
	}
}

// saveEventGlobals returns a function restoring every variable eventGlobalOpts may touch
func saveEventGlobals() func() {
	esm, emf, imf, tsf, cmf, eh := zerolog.ErrorStackMarshaler, zerolog.ErrorMarshalFunc, zerolog.InterfaceMarshalFunc, zerolog.TimestampFunc, zerolog.CallerMarshalFunc, zerolog.ErrorHandler
	tff, dfu, dfi, fpp, csf := zerolog.TimeFieldFormat, zerolog.DurationFieldUnit, zerolog.DurationFieldInteger, zerolog.FloatingPointPrecision, zerolog.CallerSkipFrameCount
	efn, esfn, mfn, tfn, cfn, lfm := zerolog.ErrorFieldName, zerolog.ErrorStackFieldName, zerolog.MessageFieldName, zerolog.TimestampFieldName, zerolog.CallerFieldName, zerolog.LevelFieldMarshalFunc
	return func() {
		zerolog.ErrorStackMarshaler, zerolog.ErrorMarshalFunc, zerolog.InterfaceMarshalFunc, zerolog.TimestampFunc, zerolog.CallerMarshalFunc, zerolog.ErrorHandler = esm, emf, imf, tsf, cmf, eh
		zerolog.TimeFieldFormat, zerolog.DurationFieldUnit, zerolog.DurationFieldInteger, zerolog.FloatingPointPrecision, zerolog.CallerSkipFrameCount = tff, dfu, dfi, fpp, csf
		zerolog.ErrorFieldName, zerolog.ErrorStackFieldName, zerolog.MessageFieldName, zerolog.TimestampFieldName, zerolog.CallerFieldName, zerolog.LevelFieldMarshalFunc = efn, esfn, mfn, tfn, cfn, lfm
	}
}

// filteredWay: one way of obtaining a filtered event.  base builds the logger (writer w, recording hook
// attached where the logger can carry one); ev takes the event from it; global, when not nil, is the global
// level the way needs.
type filteredWay struct {
	name   string
	global *zerolog.Level
	base   func(w *lvlWriter) zerolog.Logger
	ev     func(l *zerolog.Logger) *zerolog.Event
}

func filteredWays() []filteredWay {
	dis := zerolog.Disabled
	nw := func(w *lvlWriter) zerolog.Logger { return zerolog.New(w) }
	return []filteredWay{
		{"New(w).Level(WarnLevel) -> l.Info()", nil, func(w *lvlWriter) zerolog.Logger { return zerolog.New(w).Level(zerolog.WarnLevel) }, func(l *zerolog.Logger) *zerolog.Event { return l.Info() }},
		{"SetGlobalLevel(Disabled); New(w) -> l.Error()", &dis, nw, func(l *zerolog.Logger) *zerolog.Event { return l.Error() }},
		{"New(w).Sample(&BasicSampler{N: 0}) -> l.Warn()", nil, func(w *lvlWriter) zerolog.Logger { return zerolog.New(w).Sample(&zerolog.BasicSampler{N: 0}) }, func(l *zerolog.Logger) *zerolog.Event { return l.Warn() }},
		{"Nop() -> l.Error()", nil, func(w *lvlWriter) zerolog.Logger { return zerolog.Nop() }, func(l *zerolog.Logger) *zerolog.Event { return l.Error() }},
		{"Logger{} -> l.Info()", nil, func(w *lvlWriter) zerolog.Logger { return zerolog.Logger{} }, func(l *zerolog.Logger) *zerolog.Event { return l.Info() }},
		{"New(w) -> l.WithLevel(Disabled)", nil, nw, func(l *zerolog.Logger) *zerolog.Event { return l.WithLevel(zerolog.Disabled) }},
		{"New(w).Level(Disabled) -> l.Log()", nil, func(w *lvlWriter) zerolog.Logger { return zerolog.New(w).Level(zerolog.Disabled) }, func(l *zerolog.Logger) *zerolog.Event { return l.Log() }},
		{"New(w).Level(Disabled) -> l.Err(errors.New(\"x\"))", nil, func(w *lvlWriter) zerolog.Logger { return zerolog.New(w).Level(zerolog.Disabled) }, func(l *zerolog.Logger) *zerolog.Event { return l.Err(errors.New("x")) }},
		{"New(w).Level(WarnLevel) -> l.Err(nil)", nil, func(w *lvlWriter) zerolog.Logger { return zerolog.New(w).Level(zerolog.WarnLevel) }, func(l *zerolog.Logger) *zerolog.Event { return l.Err(nil) }},
		{"SetGlobalLevel(Disabled); New(w) -> l.Err(errors.New(\"x\"))", &dis, nw, func(l *zerolog.Logger) *zerolog.Event { return l.Err(errors.New("x")) }},
		{"*zerolog.Ctx(context.Background()) -> l.Error()", nil, func(w *lvlWriter) zerolog.Logger { return *zerolog.Ctx(context.Background()) }, func(l *zerolog.Logger) *zerolog.Event { return l.Error() }},
	}
}

// chained statements on the filtered event, beside the single reflected methods
var filteredChains = []struct {
	name string
	run  func(e *zerolog.Event, st *recState)
}{
	{".Stack().Err(err).Msg", func(e *zerolog.Event, st *recState) { e.Stack().Err(errors.New("x")).Msg("m") }},
	{".Err(err).Stack().Err(nil).Send", func(e *zerolog.Event, st *recState) { e.Err(errors.New("x")).Stack().Err(nil).Send() }},
	{".Stack().Fields(map with an error).AnErr.Errs.Msg", func(e *zerolog.Event, st *recState) {
		e.Stack().Fields(map[string]interface{}{"cause": errors.New("x")}).AnErr("a", errors.New("y")).Errs("es", []error{errors.New("z"), nil}).Msg("m")
	}},
	{".Timestamp().Caller().Interface.Dur.Time.Float64.Msgf", func(e *zerolog.Event, st *recState) {
		e.Timestamp().Caller().Caller(1).Interface("i", struct{ A int }{1}).Dur("d", time.Second).Time("t", time.Unix(1, 0)).Float64("f", 1.5).Msgf("%d", 1)
	}},
	{".Stack().Err(object-marshaler error).Object.Msg", func(e *zerolog.Event, st *recState) {
		e.Stack().Err(recErrObj{st}).Object("o", recObj{st}).Msg("m")
	}},
}

// recErrObj: an error that is also an object marshaler
type recErrObj struct{ s *recState }

func (r recErrObj) Error() string { r.s.calls = append(r.s.calls, "Error"); return "e" }
func (r recErrObj) MarshalZerologObject(e *zerolog.Event) {
	r.s.calls = append(r.s.calls, "MarshalZerologObject")
}

func filteredUnderGlobals(c *Ctx) {
	restore := saveEventGlobals()
	defer restore()
	defer zerolog.SetGlobalLevel(zerolog.TraceLevel)
	st := &recState{}
	opts := eventGlobalOpts(st)
	ways := filteredWays()
	nConf := 1
	for _, o := range opts {
		nConf *= len(o.values)
	}
	calls, entries := 0, 0
	for conf := 0; conf < nConf; conf++ {
		restore()
		setting := map[string]string{}
		x := conf
		for _, o := range opts {
			v := x % len(o.values)
			x /= len(o.values)
			o.set(v)
			setting[o.name] = o.values[v]
		}
		for _, way := range ways {
			for _, stack := range []bool{false, true} {
				if way.global != nil {
					zerolog.SetGlobalLevel(*way.global)
				} else {
					zerolog.SetGlobalLevel(zerolog.TraceLevel)
				}
				w := &lvlWriter{}
				l := way.base(w).Hook(zerolog.HookFunc(func(e *zerolog.Event, lv zerolog.Level, m string) {
					st.calls = append(st.calls, "hook")
				}))
				if stack {
					l = l.With().Stack().Logger()
				}
				base := func(extra map[string]interface{}) map[string]interface{} {
					m := map[string]interface{}{"package_variables": setting, "event_filtered_by": way.name, "logger_has_Stack()": stack}
					for k, v := range extra {
						m[k] = v
					}
					return m
				}
				where := fmt.Sprintf("%s (Stack() on the logger: %v) under %v", way.name, stack, setting)
				// the entry itself
				mk := func() (e *zerolog.Event, pan interface{}) {
					defer func() { pan = recover() }()
					return way.ev(&l), nil
				}
				st.calls = nil
				e0, pan := mk()
				entries++
				if pan != nil || len(st.calls) > 0 || len(w.levels) > 0 {
					c.Violate(Violation{Key: "filtered-event-not-inert", Monitor: "filtered-under-globals", Desc: fmt.Sprintf("%s: the entry call panicked (%v), invoked %v, writes %d", where, pan, st.calls, len(w.levels)),
						Case: base(map[string]interface{}{"method": "(the entry call itself)"}), Observed: fmt.Sprint(pan), Expected: "no panic, nothing invoked, nothing written"})
					continue
				}
				judge := func(what string, e *zerolog.Event, variant int, run func() []reflect.Value) {
					st.calls = nil
					before := len(w.levels)
					var res []reflect.Value
					var pan interface{}
					func() {
						defer func() { pan = recover() }()
						res = run()
					}()
					calls++
					desc := ""
					switch {
					case pan != nil:
						desc = fmt.Sprintf("%s on the filtered event panicked: %v", what, pan)
					case len(st.calls) > 0:
						desc = fmt.Sprintf("%s on the filtered event invoked %v", what, st.calls)
					case len(w.levels) > before:
						desc = fmt.Sprintf("%s on the filtered event wrote %d line(s)", what, len(w.levels)-before)
					case e == nil:
						for _, r := range res {
							if r.Type() == tEvt && !r.IsNil() {
								desc = fmt.Sprintf("%s on the filtered (nil) event returned a live event", what)
							}
							if r.Kind() == reflect.Bool && r.Bool() {
								desc = fmt.Sprintf("%s on the filtered (nil) event returned true", what)
							}
						}
					}
					if desc != "" {
						c.Violate(Violation{Key: "filtered-event-not-inert", Monitor: "filtered-under-globals", Desc: where + ": " + desc,
							Case: base(map[string]interface{}{"method": what, "variadic_args": variant}), Observed: desc, Expected: "a no-op"})
					}
				}
				for i := 0; i < tEvt.NumMethod(); i++ {
					m := tEvt.Method(i)
					for variant := 0; variant < 2; variant++ {
						e := e0
						if e0 != nil {
							// a live event although filtered (judged by the inert grid): a fresh one per method
							if e, pan = mk(); pan != nil {
								continue
							}
						}
						mt := m.Type
						args := []reflect.Value{reflect.ValueOf(e)}
						n := mt.NumIn()
						for j := 1; j < n; j++ {
							pt := mt.In(j)
							if mt.IsVariadic() && j == n-1 {
								if variant == 1 {
									args = append(args, synth(pt.Elem(), st))
								}
								continue
							}
							args = append(args, synth(pt, st))
						}
						judge("Event."+m.Name, e, variant, func() []reflect.Value { return m.Func.Call(args) })
					}
				}
				for _, ch := range filteredChains {
					e := e0
					if e0 != nil {
						if e, pan = mk(); pan != nil {
							continue
						}
					}
					ch := ch
					judge("the statement e"+ch.name, e, 0, func() []reflect.Value { ch.run(e, st); return nil })
				}
			}
		}
		c.Count(fmt.Sprintf("filtered-under-globals %d", conf), true)
	}
	c.Res.Evaluations += calls + entries
	c.Res.ExtraCoverage["filtered_under_globals_configurations"] = nConf
	c.Res.ExtraCoverage["filtered_under_globals_ways_of_filtering"] = len(ways) * 2
	c.Res.ExtraCoverage["filtered_under_globals_method_calls"] = calls
}
