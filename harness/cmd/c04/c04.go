package main

// C04 - level gate exact; filtered events inert.
// (a) gate rows through the real Logger vs Misc/Gate.v log_call (writes with
//     their levels, Panic/Fatal callbacks), (b) exhaustive Go-side table
//     256 x 256 x 256, (c) every reflected *Event method on a nil event,
//     (d) Fatal in a re-executed child, (e) Level text forms vs Misc/Level.v.

import (
	"context"
	"errors"
	"fmt"
	stdlog "log"
	"os"
	"os/exec"
	"reflect"
	"sort"
	"strings"
	"time"

	"github.com/rs/zerolog"
	"verifharness/hlib"
	. "verifharness/hlib"
)

func main() {
	if m := os.Getenv("VERIF_C04_CHILD"); m != "" {
		child(m)
		return
	}
	hlib.Main(map[string]func(*hlib.Ctx){"C04": runC04})
}

type lvlWriter struct{ levels []int }

func (w *lvlWriter) Write(p []byte) (int, error) {
	w.levels = append(w.levels, 999)
	return len(p), nil
}
func (w *lvlWriter) WriteLevel(l zerolog.Level, p []byte) (int, error) {
	w.levels = append(w.levels, int(l))
	return len(p), nil
}

type call struct {
	// trace debug info warn error fatal panic log withlevel; and the complete calls that hand the caller no event:
	// print printf println (Logger.Print..., debug level), write fprintf stdlog (Logger.Write, directly, through
	// fmt.Fprintf and through a standard library log.Logger built on the logger; no level)
	Entry   string `json:"entry"`
	Lvl     int    `json:"lvl"`
	Discard bool   `json:"discard"`
}

func (c call) coq() string {
	e := ""
	switch c.Entry {
	case "trace":
		e = "ETrace"
	case "debug":
		e = "EDebug"
	case "info":
		e = "EInfo"
	case "warn":
		e = "EWarn"
	case "error":
		e = "EError"
	case "panic":
		e = "EPanic"
	case "fatal":
		e = "EFatal"
	case "log", "write", "fprintf", "stdlog":
		e = "ELog" // Logger.Write is l.Log()...Msg(line)
	case "print", "printf", "println":
		e = "EDebug" // Logger.Print is l.Debug() ... Msg(fmt.Sprint(v...)) when enabled
	default:
		e = "(EWithLevel " + CoqZ(int64(c.Lvl)) + ")"
	}
	return fmt.Sprintf("(0%%Z, %s, %s)", e, CoqBool(c.Discard))
}

type gateCfg struct {
	HasWriter bool   `json:"has_writer"`
	Level     int    `json:"level"`
	Global    int    `json:"global"`
	Disabled  bool   `json:"sampling_disabled"`
	BasicN    uint32 `json:"basic_n"` // 0 = no sampler
	// Source: when non-empty, the logger is not built from the fields above but obtained in this way
	// (sources.go: Nop(), zerolog.Ctx of a context without logger, ...); HasWriter and Level then describe
	// the logger the source yields
	Source string `json:"logger_obtained_as,omitempty"`
}

func (g gateCfg) coq() string {
	s := "None"
	if g.BasicN > 0 {
		s = fmt.Sprintf("(Some (SBasic %d 0))", g.BasicN)
	}
	return fmt.Sprintf("{| g_has_writer := %s; g_level := %s; g_global := %s; g_sampling_disabled := %s; g_sampler := %s |}",
		CoqBool(g.HasWriter), CoqZ(int64(g.Level)), CoqZ(int64(g.Global)), CoqBool(g.Disabled), s)
}

type callObs struct {
	Writes []int `json:"writes"`
	Dones  []int `json:"dones"`
}

// one call on the real code; Fatal is never executed in-process
func doCall(l *zerolog.Logger, w *lvlWriter, c call) (obs callObs) {
	before := len(w.levels)
	defer func() {
		if r := recover(); r != nil {
			obs.Dones = append(obs.Dones, 1)
		}
		obs.Writes = append([]int{}, w.levels[before:]...)
	}()
	var e *zerolog.Event
	switch c.Entry {
	case "trace":
		e = l.Trace()
	case "debug":
		e = l.Debug()
	case "info":
		e = l.Info()
	case "warn":
		e = l.Warn()
	case "error":
		e = l.Error()
	case "panic":
		e = l.Panic()
	case "log":
		e = l.Log()
	case "print":
		l.Print("m")
		return
	case "printf":
		l.Printf("%s", "m")
		return
	case "println":
		l.Println("m")
		return
	case "write":
		l.Write([]byte("m\n"))
		return
	case "fprintf":
		fmt.Fprintf(l, "%s\n", "m")
		return
	case "stdlog":
		stdlog.New(l, "", 0).Print("m")
		return
	default:
		e = l.WithLevel(zerolog.Level(c.Lvl))
	}
	if c.Discard {
		e.Discard()
	}
	e.Msg("m")
	return
}

func runRow(g gateCfg, calls []call) []callObs {
	zerolog.SetGlobalLevel(zerolog.Level(g.Global))
	zerolog.DisableSampling(g.Disabled)
	defer zerolog.SetGlobalLevel(zerolog.TraceLevel)
	defer zerolog.DisableSampling(false)
	w := &lvlWriter{}
	var l zerolog.Logger
	lp := &l
	if g.Source != "" {
		src := sourceByName(g.Source)
		if src == nil || src.HasWriter != g.HasWriter || src.Level != g.Level || g.BasicN != 0 {
			panic("driver: gate row names an unknown logger source, or parameters that are not the source's: " + g.Source)
		}
		var restore func()
		lp, restore = src.mk(w, zerolog.HookFunc(func(e *zerolog.Event, lv zerolog.Level, m string) {}))
		defer restore()
	} else {
		if g.HasWriter {
			l = zerolog.New(w)
		}
		l = l.Level(zerolog.Level(g.Level))
		if g.BasicN > 0 {
			l = l.Sample(&zerolog.BasicSampler{N: g.BasicN})
		}
	}
	out := make([]callObs, len(calls))
	for i, c := range calls {
		out[i] = doCall(lp, w, c)
	}
	return out
}

func obsCoq(os []callObs) string {
	xs := make([]string, len(os))
	for i, o := range os {
		ws := make([]string, len(o.Writes))
		for j, x := range o.Writes {
			ws[j] = CoqZ(int64(x))
		}
		ds := make([]string, len(o.Dones))
		for j, x := range o.Dones {
			ds[j] = fmt.Sprintf("%d%%N", x)
		}
		xs[i] = "(" + CoqList(ws) + "%Z, " + CoqList(ds) + ")"
	}
	return CoqList(xs)
}

// ---- nil-event reflection ----
type recState struct{ calls []string }

type recObj struct{ s *recState }

func (r recObj) MarshalZerologObject(e *zerolog.Event) {
	r.s.calls = append(r.s.calls, "MarshalZerologObject")
}

type recArr struct{ s *recState }

func (r recArr) MarshalZerologArray(a *zerolog.Array) {
	r.s.calls = append(r.s.calls, "MarshalZerologArray")
}

type recErr struct{ s *recState }

func (r recErr) Error() string { r.s.calls = append(r.s.calls, "Error"); return "e" }

type recStr struct{ s *recState }

func (r recStr) String() string { r.s.calls = append(r.s.calls, "String"); return "s" }

var (
	tObj = reflect.TypeOf((*zerolog.LogObjectMarshaler)(nil)).Elem()
	tArr = reflect.TypeOf((*zerolog.LogArrayMarshaler)(nil)).Elem()
	tErr = reflect.TypeOf((*error)(nil)).Elem()
	tStr = reflect.TypeOf((*fmt.Stringer)(nil)).Elem()
	tCtx = reflect.TypeOf((*context.Context)(nil)).Elem()
	tEvt = reflect.TypeOf((*zerolog.Event)(nil))
)

func synth(t reflect.Type, s *recState) reflect.Value {
	switch {
	case t == tEvt:
		return reflect.ValueOf(zerolog.Dict().Str("k", "v"))
	case t.Kind() == reflect.Func:
		return reflect.MakeFunc(t, func(args []reflect.Value) []reflect.Value {
			s.calls = append(s.calls, "callback "+t.String())
			outs := make([]reflect.Value, t.NumOut())
			for i := range outs {
				outs[i] = reflect.Zero(t.Out(i))
			}
			return outs
		})
	case t.Kind() == reflect.Interface:
		switch {
		case t == tObj:
			return reflect.ValueOf(recObj{s}).Convert(t)
		case t == tArr:
			return reflect.ValueOf(recArr{s}).Convert(t)
		case t == tErr:
			return reflect.ValueOf(recErr{s}).Convert(t)
		case t == tStr:
			return reflect.ValueOf(recStr{s}).Convert(t)
		case t == tCtx:
			return reflect.ValueOf(context.Background()).Convert(t)
		case t.NumMethod() == 0:
			return reflect.ValueOf(recObj{s}).Convert(t) // interface{}: an object marshaler, the most dangerous choice
		}
		return reflect.Zero(t)
	case t.Kind() == reflect.Slice:
		sl := reflect.MakeSlice(t, 2, 2)
		for i := 0; i < 2; i++ {
			el := synth(t.Elem(), s)
			if el.IsValid() {
				sl.Index(i).Set(el)
			}
		}
		return sl
	case t.Kind() == reflect.String:
		return reflect.ValueOf("x").Convert(t)
	case t == reflect.TypeOf(time.Time{}):
		return reflect.ValueOf(time.Unix(1, 0))
	}
	return reflect.Zero(t)
}

func nilEventMethods(c *Ctx) []string {
	var e *zerolog.Event
	v := reflect.ValueOf(e)
	t := v.Type()
	var names []string
	for i := 0; i < t.NumMethod(); i++ {
		m := t.Method(i)
		names = append(names, m.Name)
		for variant := 0; variant < 2; variant++ {
			st := &recState{}
			mt := m.Type
			args := []reflect.Value{v}
			n := mt.NumIn()
			for j := 1; j < n; j++ {
				pt := mt.In(j)
				if mt.IsVariadic() && j == n-1 {
					if variant == 1 {
						args = append(args, synth(pt.Elem(), st))
					}
					continue
				}
				args = append(args, synth(pt, st))
			}
			var res []reflect.Value
			var pan interface{}
			func() {
				defer func() { pan = recover() }()
				res = m.Func.Call(args)
			}()
			c.Count("nilcall "+m.Name+fmt.Sprint(variant), true)
			desc := ""
			switch {
			case pan != nil:
				desc = fmt.Sprintf("(*Event)(nil).%s panicked: %v", m.Name, pan)
			case len(st.calls) > 0:
				desc = fmt.Sprintf("(*Event)(nil).%s invoked %v", m.Name, st.calls)
			default:
				for _, r := range res {
					if r.Type() == tEvt && !r.IsNil() {
						desc = fmt.Sprintf("(*Event)(nil).%s returned a non-nil event", m.Name)
					}
					if r.Kind() == reflect.Bool && r.Bool() {
						desc = fmt.Sprintf("(*Event)(nil).%s returned true", m.Name)
					}
				}
			}
			if desc != "" {
				c.Violate(Violation{Key: "nil-event-not-inert", Monitor: "nil-event-reflection", Desc: desc, Case: map[string]interface{}{"method": m.Name, "variadic_args": variant}})
			}
		}
	}
	sort.Strings(names)
	return names
}

// inertShapes: statements built on the event an entry point returned.  sends: the statement ends in a
// finalizer (so an admitted event is written and a Panic() event fires); skipPlain: shapes that add nothing
// for a filtered non-firing entry (those return nil; the nil-event reflection covers every method).
type inertShape struct {
	name      string
	sends     bool // an admitted event reaches a finalizer
	skipPlain bool
	run       func(e *zerolog.Event, st *recState)
}

var inertShapes = []inertShape{
	{".Func.Object.EmbedObject.Interface.MsgFunc", true, false, func(e *zerolog.Event, st *recState) {
		e.Func(func(e *zerolog.Event) { st.calls = append(st.calls, "Func callback") }).
			Object("o", recObj{st}).EmbedObject(recObj{st}).Interface("i", recObj{st}).
			MsgFunc(func() string { st.calls = append(st.calls, "MsgFunc callback"); return "m" })
	}},
	{".Array.Any.Fields(map).Fields(slice).Msg", true, false, func(e *zerolog.Event, st *recState) {
		e.Array("a", recArr{st}).Any("y", recObj{st}).Fields(map[string]interface{}{"f": recObj{st}}).
			Fields([]interface{}{"g", recArr{st}}).Msg("m")
	}},
	{".Msg", true, true, func(e *zerolog.Event, st *recState) { e.Msg("m") }},
	{".Send", true, true, func(e *zerolog.Event, st *recState) { e.Send() }},
	{".Msgf", true, true, func(e *zerolog.Event, st *recState) { e.Msgf("%d", 1) }},
	{".MsgFunc", true, true, func(e *zerolog.Event, st *recState) {
		e.MsgFunc(func() string { st.calls = append(st.calls, "MsgFunc callback"); return "m" })
	}},
	{" [if e.Enabled() { e.Object.Msg }]", true, true, func(e *zerolog.Event, st *recState) {
		if e.Enabled() {
			e.Object("o", recObj{st}).Msg("m")
		}
	}},
	{" [result dropped]", false, true, func(e *zerolog.Event, st *recState) {}},
}

// liveFilteredMethods: mk returns a non-nil event although the call is filtered out.  Every reflected
// method is applied to a fresh such event with recording arguments; whatever the method, nothing may be
// invoked and nothing written (a panic is not judged here: the Panic() statement is judged in the grid).
func liveFilteredMethods(c *Ctx, mk func() *zerolog.Event, w *lvlWriter, cs map[string]interface{}) {
	t := tEvt
	for i := 0; i < t.NumMethod(); i++ {
		m := t.Method(i)
		for variant := 0; variant < 2; variant++ {
			st := &recState{}
			var e *zerolog.Event
			func() {
				defer func() { recover() }()
				e = mk()
			}()
			if e == nil {
				return
			}
			mt := m.Type
			args := []reflect.Value{reflect.ValueOf(e)}
			n := mt.NumIn()
			for j := 1; j < n; j++ {
				pt := mt.In(j)
				if mt.IsVariadic() && j == n-1 {
					if variant == 1 {
						args = append(args, synth(pt.Elem(), st))
					}
					continue
				}
				args = append(args, synth(pt, st))
			}
			before := len(w.levels)
			func() {
				defer func() { recover() }()
				m.Func.Call(args)
			}()
			c.Count("livecall "+m.Name+fmt.Sprint(variant), true)
			if len(st.calls) > 0 || len(w.levels) > before {
				cc := map[string]interface{}{"method": m.Name, "variadic_args": variant}
				for k, v := range cs {
					cc[k] = v
				}
				c.Violate(Violation{Key: "filtered-event-not-inert", Monitor: "live-filtered-reflection", Desc: fmt.Sprintf("%v returned a live event although filtered; %s on it invoked %v, writes %d", cs["entry"], m.Name, st.calls, len(w.levels)-before), Case: cc, Observed: st.calls, Expected: []string{}})
			}
		}
	}
}

type printObj struct{}

func (printObj) MarshalZerologObject(e *zerolog.Event) { fmt.Println("invoked MarshalZerologObject") }

type printArr struct{}

func (printArr) MarshalZerologArray(a *zerolog.Array) { fmt.Println("invoked MarshalZerologArray") }

type printWriter struct{}

func (printWriter) Write(p []byte) (int, error) { fmt.Println("written"); return len(p), nil }

func child(mode string) {
	if strings.HasPrefix(mode, "fatal-src-") {
		idx := -1
		fmt.Sscanf(strings.TrimPrefix(mode, "fatal-src-"), "%d", &idx)
		childFatalSource(idx)
		os.Exit(0)
	}
	if mode == "history-fatal" {
		childHistoryFatal()
		os.Exit(0)
	}
	if strings.HasPrefix(mode, "fatal-obs-") {
		l := zerolog.New(printWriter{}).Hook(zerolog.HookFunc(func(e *zerolog.Event, lv zerolog.Level, m string) { fmt.Println("invoked hook") }))
		switch mode {
		case "fatal-obs-level":
			l = l.Level(zerolog.Disabled)
		case "fatal-obs-global":
			zerolog.SetGlobalLevel(zerolog.Disabled)
		case "fatal-obs-sampler":
			l = l.Sample(&zerolog.BasicSampler{N: 0})
		case "fatal-obs-nop":
			l = zerolog.Nop()
		}
		l.Fatal().Object("o", printObj{}).Array("a", printArr{}).Interface("i", printObj{}).
			Fields(map[string]interface{}{"f": printObj{}}).
			MsgFunc(func() string { fmt.Println("invoked MsgFunc callback"); return "m" })
		fmt.Println("survived")
		os.Exit(0)
	}
	w := &lvlWriter{}
	l := zerolog.New(w).Level(zerolog.Disabled)
	switch mode {
	case "fatal-filtered":
		l.Fatal().Msg("x")
	case "fatal-enabled":
		l = l.Level(zerolog.TraceLevel)
		l.Fatal().Msg("x")
	case "withlevel-fatal":
		l = l.Level(zerolog.TraceLevel)
		l.WithLevel(zerolog.FatalLevel).Msg("x")
		l.WithLevel(zerolog.PanicLevel).Msg("x")
	}
	fmt.Printf("survived writes=%d\n", len(w.levels))
	os.Exit(0)
}

func runChild(mode string) (int, string) {
	ctx, cancel := context.WithTimeout(context.Background(), 30*time.Second)
	defer cancel()
	cmd := exec.CommandContext(ctx, os.Args[0])
	cmd.Env = append(os.Environ(), "VERIF_C04_CHILD="+mode)
	out, err := cmd.CombinedOutput()
	code := 0
	var ee *exec.ExitError
	if errors.As(err, &ee) {
		code = ee.ExitCode()
	} else if err != nil {
		code = -1
	}
	return code, string(out)
}

var gateLevels = []int{-128, -2, -1, 0, 1, 3, 5, 6, 7, 8, 127}

func runC04(c *Ctx) {
	c.Res.Rule = "gate rows: (logger level, global level, optional BasicSampler, DisableSampling) x calls through every entry point (all 256 levels via WithLevel, the named level methods, Panic under recover, with and without Discard); history rows: every ordered pair of 14 calls (Panic() written / filtered / discarded, WithLevel(Panic/Fatal), custom levels, discarded events) back to back on one goroutine x 12 gates, each call judged whatever preceded it, and Fatal() after such a history in a child; 19 ways of obtaining a logger that filters everything (Nop(), zerolog.Ctx / log.Ctx / hlog.FromRequest of a context without logger with DefaultContextLogger unset or disabled, copies and derivations of that logger, a stored Level(Disabled) logger, Logger{}, the global log.Logger) x 2 global levels: gate row, inert grid through the pointer handed out, Fatal() in a child; exhaustive Go-side table 256x256x256; every reflected *Event method on a nil event (2 argument variants); Fatal in a child process; Level String/ParseLevel on all 256 levels and hostile strings; MarshalText/UnmarshalText/ParseLevel on all 256 levels under 22 namings of the nine named levels (upper/mixed case, renamed, rotated and swapped default names, numbers as names, empty texts, blanks, non-ASCII; also namings that give several levels one text), each installed as a replaced LevelFieldMarshalFunc and through the Level*Value variables: the level must read back when the 256 texts are pairwise different up to case, otherwise the text must read back as a level with that text; ParseLevel under each ASCII naming on its names, their case variants, the default names and numbers against Misc/LevelNames.v; the gate and inertness for 16 entry points while another goroutine alternates the global level between two values (4 logger levels x 12 ordered pairs, 4 emitting goroutines, runs prolonged until the emitters have seen the level change), judged on the events whose fate is the same under both values; the complete calls that hand the caller no event (Logger.Print / Printf / Println, Logger.Write directly, through fmt.Fprintf and through a standard library log.Logger) in every gate row and history, the rows with a BasicSampler judged call by call against an identically configured twin asked once per call that passes the levels; 12 stateful samplers (BasicSampler N = 0,1,2,3,5, BurstSampler with / without NextSampler and Period, LevelSampler over stateful samplers, every-other, fixed pattern), each wrapped in a recording sampler and as itself with a twin, x 7 (logger level, global level, writer) x DisableSampling x 43 complete calls (every entry point and finalizer, Discard, Panic() recovered, Print*, Write / io.WriteString / fmt.Fprint* on the logger as pointer and as value, log.New(logger) and log.SetOutput(logger), the package-level functions of zerolog/log) in list order and two shuffled orders: a call that passes the levels asks the sampler exactly once, with its level, and is written iff that verdict admits it, any other call does not ask it; rounds of concurrent setters (1-3 goroutines calling SetGlobalLevel, each sequence of 1-40 calls ending with the same level, against 1-2 goroutines calling DisableSampling, each sequence ending with the same value; 5 sets of levels incl. -128, 127 and Disabled, two more goroutines logging throughout): once all have returned, 14 complete calls through a logger with a rejecting and one with an every-other sampler are decided by exactly the final level and the final switch; filtered events under 192 settings of the package-level variables Event methods read (ErrorStackMarshaler nil / string / object marshaler, ErrorMarshalFunc, InterfaceMarshalFunc, TimestampFunc, CallerMarshalFunc, ErrorHandler, the value variables) x 11 ways of filtering (logger level, global level, rejecting sampler, Nop(), Logger{}, WithLevel(Disabled), zerolog.Ctx without logger, Logger.Err(err) / Err(nil)) x Stack() on the logger or not: the entry, every reflected Event method (2 argument variants) and 5 chained statements (Stack().Err(err).Msg ...) neither panic nor invoke a hook / callback / marshaler nor write. Non-trivial gate row = has both written and filtered calls"
	header := "From Coq Require Import String.\nFrom Verif Require Import Base.Prelude Misc.Level Misc.LevelNames Lts.Sampler Misc.Gate Harness.C04H.\nLocal Open Scope string_scope."
	// gate rows are long terms (hundreds of calls each): small shards, evaluated in parallel
	openShards := func(limit int) { c.OpenShards(header, "c04_case * c04_obs", "mismatches c04_run c04_eqb", limit) }
	openShards(24)

	// (a) gate rows
	var calls []call
	for l := -128; l <= 127; l++ {
		calls = append(calls, call{Entry: "withlevel", Lvl: l})
	}
	for _, e := range []string{"trace", "debug", "info", "warn", "error", "log", "panic"} {
		calls = append(calls, call{Entry: e}, call{Entry: e, Discard: true})
	}
	for _, l := range []int{-1, 0, 4, 5, 6, 8} {
		calls = append(calls, call{Entry: "withlevel", Lvl: l, Discard: true})
	}
	// the complete calls that hand the caller no event, between calls that do (so that a stateful sampler meets
	// them in different states)
	for _, e := range []string{"print", "write", "info", "printf", "stdlog", "println", "fprintf", "debug", "write", "log", "print"} {
		calls = append(calls, call{Entry: e})
	}
	rows := 0
	emitRow := func(g gateCfg, cs []call) {
		obs := runRow(g, cs)
		xs := make([]string, len(cs))
		for i, x := range cs {
			xs[i] = x.coq()
		}
		term := fmt.Sprintf("(CGate %s %s, OGate %s)", g.coq(), CoqList(xs), obsCoq(obs))
		wr, fl := false, false
		var oracle *zerolog.BasicSampler
		if g.BasicN > 0 && !g.Disabled && g.Source == "" {
			oracle = &zerolog.BasicSampler{N: g.BasicN}
		}
		for i, o := range obs {
			if len(o.Writes) > 0 {
				wr = true
			} else {
				fl = true
			}
			// monitor: property stated directly
			cl := cs[i]
			// the calls made just before on the same goroutine and logger belong to the input (event pool)
			prev := cs[:i]
			if len(prev) > 4 {
				prev = prev[len(prev)-4:]
			}
			cse := map[string]interface{}{"gate": g, "call": cl, "preceding_calls_on_this_logger": prev}
			lvl := cl.Lvl
			switch cl.Entry {
			case "trace":
				lvl = -1
			case "debug":
				lvl = 0
			case "info":
				lvl = 1
			case "warn":
				lvl = 2
			case "error":
				lvl = 3
			case "panic":
				lvl = 5
			case "log", "write", "fprintf", "stdlog":
				lvl = 6
			case "print", "printf", "println":
				lvl = 0
			}
			pass := g.HasWriter && lvl >= g.Level && lvl >= g.Global && !(cl.Entry == "withlevel" && lvl == 7)
			if oracle != nil {
				// a stateful sampler: an identically configured twin is asked once per call that passes the
				// levels; the call is written iff the twin admits it
				admitted := pass && oracle.Sample(zerolog.Level(lvl))
				want := admitted && !cl.Discard
				if (len(o.Writes) == 1) != want || len(o.Writes) > 1 {
					c.Violate(Violation{Key: "gate-wrong", Monitor: "gate-iff-sampled", Desc: fmt.Sprintf("logger level %d, global %d, BasicSampler{N: %d} (one consultation per call that passes the levels, %d calls before this one): %s(%d) discard=%v wrote %v, want written=%v", g.Level, g.Global, g.BasicN, i, cl.Entry, lvl, cl.Discard, o.Writes, want),
						Case: cse, Observed: o.Writes, Expected: want})
				}
			}
			if g.BasicN == 0 || g.Disabled {
				want := pass && !cl.Discard
				if (len(o.Writes) == 1) != want || len(o.Writes) > 1 {
					c.Violate(Violation{Key: "gate-wrong", Monitor: "gate-iff", Desc: fmt.Sprintf("logger level %d, global %d: %s(%d) discard=%v wrote %v, want written=%v", g.Level, g.Global, cl.Entry, lvl, cl.Discard, o.Writes, want),
						Case: cse, Observed: o.Writes, Expected: want})
				}
			}
			if len(o.Writes) == 1 && o.Writes[0] != lvl {
				c.Violate(Violation{Key: "writelevel-wrong", Monitor: "writelevel-exact", Desc: fmt.Sprintf("%s(%d) reached WriteLevel with level %d", cl.Entry, lvl, o.Writes[0]), Case: cse, Observed: o.Writes, Expected: lvl})
			}
			if !pass && len(o.Writes) > 0 {
				c.Violate(Violation{Key: "gate-wrong", Monitor: "gate-iff", Desc: fmt.Sprintf("filtered call %s(%d) was written", cl.Entry, lvl), Case: cse})
			}
			wantPanic := cl.Entry == "panic"
			if (len(o.Dones) == 1) != wantPanic {
				c.Violate(Violation{Key: "panic-callback-wrong", Monitor: "panic-when-filtered", Desc: fmt.Sprintf("%s(%d) discard=%v: panicked=%v, want %v (logger level %d, global %d%s; preceding calls %+v): Panic() panics once per call, written or filtered; no other call panics", cl.Entry, lvl, cl.Discard, len(o.Dones) == 1, wantPanic, g.Level, g.Global, srcNote(g), prev), Case: cse})
			}
		}
		c.AddCase(term, map[string]interface{}{"gate": g, "calls": len(cs)})
		c.Count(g.coq(), wr && fl)
		c.Res.Evaluations += len(cs) - 1
		rows++
	}
	for _, ll := range gateLevels {
		for _, gl := range gateLevels {
			emitRow(gateCfg{HasWriter: true, Level: ll, Global: gl}, calls)
		}
	}
	emitRow(gateCfg{HasWriter: false, Level: -1, Global: -1}, calls)
	for _, n := range []uint32{1, 2, 3} {
		emitRow(gateCfg{HasWriter: true, Level: 0, Global: -1, BasicN: n}, calls)
		emitRow(gateCfg{HasWriter: true, Level: 0, Global: 1, BasicN: n, Disabled: true}, calls)
	}
	c.Sample(map[string]interface{}{"gate": gateCfg{HasWriter: true, Level: 1, Global: -1}, "calls": calls[126:134]})
	// (i) histories: every ordered pair of calls from an alphabet of entry points, back to back (sources.go)
	callHistories(c, emitRow)
	openShards(200)
	c.Res.ExtraCoverage["gate_rows_model_checked"] = rows

	// (b) exhaustive table on the real code
	{
		w := &lvlWriter{}
		n := 0
		bad := 0
		for ll := -128; ll <= 127; ll++ {
			l := zerolog.New(w).Level(zerolog.Level(ll))
			for gl := -128; gl <= 127; gl++ {
				zerolog.SetGlobalLevel(zerolog.Level(gl))
				for lv := -128; lv <= 127; lv++ {
					w.levels = w.levels[:0]
					if pan := withLevelMsg(&l, lv); pan != nil {
						bad++
						if bad <= 3 {
							c.Violate(Violation{Key: "panic-callback-wrong", Monitor: "gate-exhaustive", Desc: fmt.Sprintf("logger level %d, global %d, WithLevel(%d).Msg(\"\") panicked (%v): WithLevel never panics", ll, gl, lv, pan),
								Case: map[string]interface{}{"logger_level": ll, "global_level": gl, "event_level": lv, "note": "events are taken from a pool: the calls this process made before (the gate rows and histories, Panic() under recover included) belong to the input"}, Observed: fmt.Sprint(pan), Expected: "no panic"})
						}
					}
					n++
					want := lv >= ll && lv >= gl && lv != 7
					got := len(w.levels) == 1 && w.levels[0] == lv
					if want != got || len(w.levels) > 1 {
						bad++
						if bad <= 3 {
							c.Violate(Violation{Key: "gate-wrong", Monitor: "gate-exhaustive", Desc: fmt.Sprintf("logger level %d, global %d, WithLevel(%d): writes %v, want written=%v", ll, gl, lv, w.levels, want),
								Case: map[string]interface{}{"logger_level": ll, "global_level": gl, "event_level": lv}, Observed: append([]int{}, w.levels...), Expected: want})
						}
					}
				}
			}
		}
		zerolog.SetGlobalLevel(zerolog.TraceLevel)
		c.Res.ExtraCoverage["exhaustive_gate_cells"] = n
		c.Res.Evaluations += n
		c.Res.Exhaustive = true
	}

	// (c) nil-event methods, and the reflected set against the translated table
	names := nilEventMethods(c)
	{
		xs := make([]string, len(names))
		for i, n := range names {
			xs[i] = "\"" + n + "\""
		}
		c.AddCase("(CMethods, OMethods "+CoqList(xs)+")", map[string]interface{}{"reflected_methods": names})
		c.Res.ExtraCoverage["event_methods_reflected"] = len(names)
	}

	// (d) Fatal
	{
		code, out := runChild("fatal-filtered")
		if code != 1 || strings.Contains(out, "survived") {
			c.Violate(Violation{Key: "fatal-filtered-no-exit", Monitor: "fatal-child", Desc: fmt.Sprintf("filtered Fatal().Msg did not exit(1): code=%d out=%q", code, out), Case: "logger.Level(Disabled).Fatal().Msg(x)"})
		}
		code, out = runChild("fatal-enabled")
		if code != 1 || strings.Contains(out, "survived") {
			c.Violate(Violation{Key: "fatal-enabled-no-exit", Monitor: "fatal-child", Desc: fmt.Sprintf("enabled Fatal().Msg did not exit(1): code=%d out=%q", code, out), Case: "logger.Fatal().Msg(x)"})
		}
		code, out = runChild("withlevel-fatal")
		if code != 0 || !strings.Contains(out, "survived writes=2") {
			c.Violate(Violation{Key: "withlevel-fatal-exits", Monitor: "fatal-child", Desc: fmt.Sprintf("WithLevel(Fatal/Panic).Msg must not exit or panic and must write: code=%d out=%q", code, out), Case: "logger.WithLevel(FatalLevel).Msg(x); logger.WithLevel(PanicLevel).Msg(x)"})
		}
		c.Res.Evaluations += 3
	}

	// (d2) a filtered-out event is inert also beyond the writer: no hook, no Func / MsgFunc callback, no
	// object / array marshaler is invoked, whichever way the event was filtered (logger level, global level, a
	// sampler that rejects, WithLevel(Disabled)), whichever entry point created it (Panic() included, under
	// recover) and whichever argument shapes and finalizer the statement uses; a filtered Panic() statement
	// still panics, every other entry never does.  Should a filtered entry hand out a live (non-nil) event,
	// every reflected Event method is tried on it with recording arguments.
	{
		runs, filtered, live := 0, 0, 0
		for _, ll := range []int{-128, 0, 2, 5, 7} {
			for _, gl := range []int{-128, 1, 4, 7} {
				for _, reject := range []bool{false, true} {
					zerolog.SetGlobalLevel(zerolog.Level(gl))
					st := &recState{}
					w := &lvlWriter{}
					l := zerolog.New(w).Level(zerolog.Level(ll)).Hook(zerolog.HookFunc(func(e *zerolog.Event, lv zerolog.Level, m string) {
						st.calls = append(st.calls, "hook")
					}))
					if reject {
						l = l.Sample(&zerolog.BasicSampler{N: 0})
					}
					ents := gridEntries(&l, 7)
					r, f, lv := inertGridRun(c, ents, func(en gridEnt) bool { return en.lvl >= ll && en.lvl >= gl && en.lvl != 7 && !reject }, st, w,
						fmt.Sprintf("logger level %d, global %d, rejecting sampler %v", ll, gl, reject),
						map[string]interface{}{"logger_level": ll, "global_level": gl, "rejecting_sampler": reject})
					runs, filtered, live = runs+r, filtered+f, live+lv
				}
			}
		}
		zerolog.SetGlobalLevel(zerolog.TraceLevel)
		c.Res.Evaluations += runs
		c.Res.ExtraCoverage["inert_grid_calls"] = runs
		c.Res.ExtraCoverage["inert_grid_filtered"] = filtered
		c.Res.ExtraCoverage["inert_grid_live_filtered_events"] = live
	}

	// (d3) filtered Fatal() with observers among its arguments, in a child per way of filtering: exit status 1,
	// nothing written, no observer invoked before the exit
	for _, mode := range []string{"fatal-obs-level", "fatal-obs-global", "fatal-obs-sampler", "fatal-obs-nop"} {
		code, out := runChild(mode)
		if code != 1 || strings.Contains(out, "survived") {
			c.Violate(Violation{Key: "fatal-filtered-no-exit", Monitor: "fatal-child", Desc: fmt.Sprintf("filtered Fatal() statement with marshaler arguments (%s) did not exit(1): code=%d out=%q", mode, code, out), Case: mode})
		}
		if strings.Contains(out, "invoked") || strings.Contains(out, "written") {
			c.Violate(Violation{Key: "filtered-event-not-inert", Monitor: "fatal-child", Desc: fmt.Sprintf("filtered Fatal() statement (%s) invoked observers or wrote before exiting: out=%q", mode, out), Case: mode + ": l.Fatal().Object(o).Array(a).Interface(i).Fields(map).MsgFunc(f)", Observed: out, Expected: ""})
		}
		c.Res.Evaluations++
	}

	// (h) every way of obtaining a logger that filters everything (sources.go)
	openShards(24)
	disabledLoggerSources(c, emitRow, calls)
	openShards(200)

	// (e) level text
	for l := -128; l <= 127; l++ {
		s := zerolog.Level(l).String()
		c.AddCase(fmt.Sprintf("(CString %s, OString %s)", CoqZ(int64(l)), CoqBytes([]byte(s))), map[string]interface{}{"level": l, "string": s})
		mt, _ := zerolog.Level(l).MarshalText()
		var back zerolog.Level
		err := back.UnmarshalText(mt)
		p, err2 := zerolog.ParseLevel(s)
		if err != nil || err2 != nil || int(back) != l || int(p) != l {
			c.Violate(Violation{Key: "level-text-roundtrip", Monitor: "level-roundtrip", Desc: fmt.Sprintf("level %d: String=%q ParseLevel->%d (%v) Marshal/UnmarshalText->%d (%v)", l, s, p, err2, back, err), Case: l})
		}
		c.Count(fmt.Sprintf("lvl%d", l), true)
	}
	strs := []string{"", "TRACE", "Debug", "iNfO", "WARN", "Error", "FATAL", "panic", "DISABLED", "disabled ", " info", "inf", "information",
		"0", "7", "8", "127", "128", "-128", "-129", "+5", "+128", "-0", "007", "1e3", "0x10", "1_0", "99999999999999999999", "-99999999999999999999", "9223372036854775807", "9223372036854775808", "-", "+", "--1", "1-", "٣"}
	r := c.R.Fork()
	for i := 0; i < 150; i++ {
		n := r.Intn(6)
		b := make([]byte, n)
		alphabet := "0123456789-+ aAdDeEiInNfFoOtTrRcC"
		for j := range b {
			b[j] = alphabet[r.Intn(len(alphabet))]
		}
		strs = append(strs, string(b))
	}
	for _, s := range strs {
		ascii := true
		for i := 0; i < len(s); i++ {
			if s[i] >= 0x80 {
				ascii = false
			}
		}
		p, err := zerolog.ParseLevel(s)
		if !ascii {
			continue // non-ASCII folding is outside the model (Misc/Level.v)
		}
		obs := ""
		if err == nil {
			obs = fmt.Sprintf("OParse (Some %s) 0", CoqZ(int64(p)))
		} else if strings.HasPrefix(err.Error(), "Out-Of-Bounds") {
			obs = "OParse None 2"
		} else {
			obs = "OParse None 1"
		}
		c.AddCase(fmt.Sprintf("(CParse %s, %s)", CoqBytes([]byte(s)), obs), map[string]interface{}{"parse": s, "ok": err == nil, "level": int(p)})
		c.Count("parse "+s, true)
	}

	// (f) the gate while the global level is being changed by another goroutine; (g) Level text forms under
	// customised level names (more.go)
	raceGlobalLevel(c)
	customLevelNames(c)
	// (j) stateful samplers behind every complete logging call (sampled.go); (k) the gate after concurrent
	// SetGlobalLevel / DisableSampling calls have all returned (setters.go)
	statefulSamplerSweep(c)
	raceGlobalSetters(c)
	// (l) filtered events under every setting of the package-level variables Event methods read (globalscfg.go)
	filteredUnderGlobals(c)
}
