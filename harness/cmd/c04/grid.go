package main

// The inert grid of (d2), as a function of the logger (so that (h) can run it on loggers obtained in other
// ways than New(w).Level(x)), and small helpers shared by the sweeps.

import (
	"fmt"
	"strings"

	"github.com/rs/zerolog"
	. "verifharness/hlib"
)

type gridEnt struct {
	name  string
	lvl   int
	mk    func() *zerolog.Event
	fires bool // Panic(): the statement panics, written or filtered
}

// gridEntries: every entry point of the logger lp points to (through that pointer), WithLevel for all levels
// -128..maxLvl
func gridEntries(lp *zerolog.Logger, maxLvl int) []gridEnt {
	ents := []gridEnt{{"Trace", -1, lp.Trace, false}, {"Debug", 0, lp.Debug, false}, {"Info", 1, lp.Info, false}, {"Warn", 2, lp.Warn, false}, {"Error", 3, lp.Error, false}, {"Log", 6, lp.Log, false}, {"Panic", 5, lp.Panic, true}}
	for lv := -128; lv <= maxLvl; lv++ {
		lv := lv
		ents = append(ents, gridEnt{fmt.Sprintf("WithLevel(%d)", lv), lv, func() *zerolog.Event { return lp.WithLevel(zerolog.Level(lv)) }, false})
	}
	return ents
}

// inertGridRun: every entry x every statement shape.  want(en): the event is admitted (written if the
// statement sends it).  where: the configuration in words; base: the same as the replay's case fields.
func inertGridRun(c *Ctx, ents []gridEnt, wantOf func(gridEnt) bool, st *recState, w *lvlWriter, where string, base map[string]interface{}) (runs, filtered, live int) {
	withBase := func(m map[string]interface{}) map[string]interface{} {
		for k, v := range base {
			m[k] = v
		}
		return m
	}
	for _, en := range ents {
		want := wantOf(en)
		wasLive := false
		for _, sh := range inertShapes {
			if !en.fires && !want && sh.skipPlain {
				continue
			}
			st.calls = nil
			before := len(w.levels)
			var e *zerolog.Event
			panicked := func() (p bool) {
				defer func() {
					if r := recover(); r != nil {
						p = true
					}
				}()
				e = en.mk()
				sh.run(e, st)
				return false
			}()
			written := len(w.levels) > before
			runs++
			cs := withBase(map[string]interface{}{"entry": en.name, "statement": sh.name})
			if written != (want && sh.sends) {
				c.Violate(Violation{Key: "gate-wrong", Monitor: "inert-grid", Desc: fmt.Sprintf("%s, %s%s: written=%v, want %v", where, en.name, sh.name, written, want && sh.sends), Case: cs})
			}
			if !en.fires && panicked {
				c.Violate(Violation{Key: "panic-callback-wrong", Monitor: "inert-grid", Desc: fmt.Sprintf("%s: %s%s panicked (only Panic() may)", where, en.name, sh.name), Case: cs})
			}
			guarded := strings.HasPrefix(sh.name, " [")
			if en.fires && sh.sends && !guarded && !panicked {
				c.Violate(Violation{Key: "panic-callback-wrong", Monitor: "inert-grid", Desc: fmt.Sprintf("%s: %s%s did not panic (filtered: %v)", where, en.name, sh.name, !want), Case: cs})
			}
			if en.fires && want && panicked != sh.sends {
				c.Violate(Violation{Key: "panic-callback-wrong", Monitor: "inert-grid", Desc: fmt.Sprintf("%s: admitted %s%s: panicked=%v, want %v", where, en.name, sh.name, panicked, sh.sends), Case: cs})
			}
			if !want {
				filtered++
				if e != nil {
					wasLive = true
				}
				if len(st.calls) != 0 {
					c.Violate(Violation{Key: "filtered-event-not-inert", Monitor: "inert-grid", Desc: fmt.Sprintf("%s: the filtered event from %s, used as %s%s, invoked %v (event nil: %v)", where, en.name, en.name, sh.name, st.calls, e == nil),
						Case: cs, Observed: st.calls, Expected: []string{}})
				}
				if en.fires && guarded && !panicked {
					// "Panic() still panics ... when filtered": the call itself, whatever is done with its result
					c.Violate(Violation{Key: "filtered-panic-deferred", Monitor: "inert-grid", Desc: fmt.Sprintf("%s: filtered %s%s (event never sent) did not panic", where, en.name, sh.name), Case: cs})
				}
			}
		}
		if wasLive {
			live++
			liveFilteredMethods(c, en.mk, w, withBase(map[string]interface{}{"entry": en.name}))
		}
	}
	return
}

// withLevelMsg: l.WithLevel(lv).Msg("") - a panic comes back as a value instead of ending the run
func withLevelMsg(l *zerolog.Logger, lv int) (pan interface{}) {
	defer func() { pan = recover() }()
	l.WithLevel(zerolog.Level(lv)).Msg("")
	return nil
}

func srcNote(g gateCfg) string {
	if g.Source == "" {
		return ""
	}
	return ", logger obtained as " + g.Source
}
