package main

// C04, directed sweep added after the round-6 seeded changes:
//
//  (k) the gate after concurrent setters (C04-11: the global level and the sampling switch packed into one
//      atomic word, SetGlobalLevel and DisableSampling as load / modify / store without CAS: each loses the
//      other's update, and the gate goes on using a global level that the last SetGlobalLevel replaced).
//
// Rounds.  In every round several goroutines call SetGlobalLevel (each a short sequence of levels whose LAST
// element is the round's final level F - the same F for all of them) and several others call DisableSampling
// (each a sequence of switches whose LAST element is the round's final value v), all released together.  When
// all of them have returned (each goroutine announces the end of its sequence through an atomic counter the judging goroutine waits for), the last SetGlobalLevel call to take effect was some goroutine's last
// one, so the global level is F, and likewise the sampling switch is v - whatever the interleaving.  In the
// quiet phase that follows nobody changes either, and the judging goroutine sends one complete call per entry
// point through two loggers (a sampler that rejects everything, an every-other sampler; both record their
// consultations): each is decided by exactly F and v -
//     passes := level >= logger level && level >= F
//     written once at its level iff passes && (v || the sampler admitted it); the sampler is asked iff passes && !v.
// Meanwhile (through noisy and quiet phases alike) two more goroutines log through every entry point of a third
// logger: of their events only those are judged whose fate is the same under every level of the run's set
// (below the logger's level or below the lowest: never written, no hook, the sampler never asked; at or above
// the logger's level and the highest: written once per call).
//
// Nothing depends on the schedule on a correct tree.  The lengths of the sequences differ from goroutine to
// goroutine and from round to round (1 .. 40 calls), so that the final call of one kind of setter lands at
// the beginning, in the middle or after the end of the other kind's sequence.  A round counts as concurrent
// when at least two setters were inside their sequences at the same time; the rounds go on until enough of
// them were (bounded).

import (
	"fmt"
	"runtime"
	"sync"
	"sync/atomic"

	"github.com/rs/zerolog"
	. "verifharness/hlib"
)

// rejectAll / admitAll: samplers that count how often they are asked, per level (index level+128)
type constSampler struct {
	verdict bool
	asked   [256]int64
}

func (s *constSampler) Sample(l zerolog.Level) bool {
	atomic.AddInt64(&s.asked[int(l)+128], 1)
	return s.verdict
}

type judgeEntry struct {
	name string
	lvl  int
	run  func(l *zerolog.Logger)
}

func judgeEntries() []judgeEntry {
	es := []judgeEntry{
		{"Trace().Msg(m)", -1, func(l *zerolog.Logger) { l.Trace().Msg("m") }},
		{"Debug().Msg(m)", 0, func(l *zerolog.Logger) { l.Debug().Msg("m") }},
		{"Info().Msg(m)", 1, func(l *zerolog.Logger) { l.Info().Msg("m") }},
		{"Warn().Msg(m)", 2, func(l *zerolog.Logger) { l.Warn().Msg("m") }},
		{"Error().Msg(m)", 3, func(l *zerolog.Logger) { l.Error().Msg("m") }},
		{"Log().Msg(m)", 6, func(l *zerolog.Logger) { l.Log().Msg("m") }},
		{"Print(m)", 0, func(l *zerolog.Logger) { l.Print("m") }},
		{"Write([]byte(\"m\\n\"))", 6, func(l *zerolog.Logger) { l.Write([]byte("m\n")) }},
	}
	for _, lv := range []int{-100, -3, 4, 5, 9, 100} {
		lv := lv
		es = append(es, judgeEntry{fmt.Sprintf("WithLevel(%d).Msg(m)", lv), lv, func(l *zerolog.Logger) { l.WithLevel(zerolog.Level(lv)).Msg("m") }})
	}
	return es
}

type settersRound struct {
	Round        int      `json:"round"`
	LevelSetters [][]int  `json:"SetGlobalLevel_sequences_one_goroutine_each"`
	FlagSetters  [][]bool `json:"DisableSampling_sequences_one_goroutine_each"`
	FinalLevel   int      `json:"every_SetGlobalLevel_sequence_ends_with"`
	FinalFlag    bool     `json:"every_DisableSampling_sequence_ends_with"`
}

func raceGlobalSetters(c *Ctx) {
	minRounds := 600
	if c.Thorough() {
		minRounds = 20000
	}
	maxRounds, needConcurrent := 6*minRounds, minRounds/4
	if runtime.GOMAXPROCS(0) < 2 || runtime.NumCPU() < 2 {
		maxRounds = minRounds
		c.Note("concurrent setters sweep: a single CPU, the setters only interleave at preemption points")
	}
	defer zerolog.SetGlobalLevel(zerolog.TraceLevel)
	defer zerolog.DisableSampling(false)
	jes := judgeEntries()
	res := raceEntries()
	lens := []int{1, 1, 2, 3, 5, 8, 16, 40}
	totalRounds, concurrentRounds, judged := 0, 0, 0
	for _, cfg := range []struct {
		L int
		G []int
	}{
		{0, []int{-1, 1, 3}},
		{1, []int{0, 2, 4, 6}},
		{-1, []int{1, 5, 7}},
		{2, []int{-1, 0, 3, 9}},
		{-128, []int{-128, 0, 127}},
	} {
		r := c.R.Fork()
		lo, hi := cfg.G[0], cfg.G[0]
		for _, g := range cfg.G {
			if g < lo {
				lo = g
			}
			if g > hi {
				hi = g
			}
		}
		zerolog.SetGlobalLevel(zerolog.Level(cfg.G[0]))
		zerolog.DisableSampling(false)
		// the emitters, on a logger of their own, through noisy and quiet phases
		ew := &raceWriter{}
		es := &constSampler{verdict: true}
		var ehooks [256]int64
		el := zerolog.New(ew).Level(zerolog.Level(cfg.L)).Sample(es).Hook(zerolog.HookFunc(func(e *zerolog.Event, lv zerolog.Level, m string) {
			atomic.AddInt64(&ehooks[int(lv)+128], 1)
		}))
		var stopEmit int32
		var ewg sync.WaitGroup
		epasses := make([]int64, 2)
		epanics := make([]int64, 2)
		for g := 0; g < 2; g++ {
			ewg.Add(1)
			go func(g int) {
				defer ewg.Done()
				l := el
				n := int64(0)
				for atomic.LoadInt32(&stopEmit) == 0 {
					for k := range res {
						en := &res[(k+g)%len(res)]
						func() {
							defer func() {
								if x := recover(); x != nil {
									atomic.AddInt64(&epanics[g], 1)
								}
							}()
							en.mk(&l).Msg("m")
						}()
					}
					n++
					if n%64 == 0 {
						runtime.Gosched()
					}
				}
				epasses[g] = n
			}(g)
		}
		// the judging loggers
		jw := [2]*lvlWriter{{}, {}}
		rej := &constSampler{verdict: false}
		alt := &countSampler{inner: &everyOther{}}
		jl := [2]zerolog.Logger{zerolog.New(jw[0]).Level(zerolog.Level(cfg.L)).Sample(rej), zerolog.New(jw[1]).Level(zerolog.Level(cfg.L)).Sample(alt)}
		jname := [2]string{"a sampler that rejects everything", "an every-other sampler"}
		// the setter goroutines: 3 for SetGlobalLevel, 2 for DisableSampling, alive for the whole run and
		// spinning between rounds, so that a round's sequences start together
		var gen, done, active, maxActive, stopSetters int32
		lvlSeq := make([][]int, 3)
		flagSeq := make([][]bool, 2)
		var swg sync.WaitGroup
		worker := func(body func()) {
			defer swg.Done()
			last := int32(0)
			for {
				for spins := 0; atomic.LoadInt32(&gen) == last; spins++ {
					if atomic.LoadInt32(&stopSetters) != 0 {
						return
					}
					if spins%64 == 63 {
						runtime.Gosched()
					}
				}
				last++
				body()
				atomic.AddInt32(&done, 1)
			}
		}
		enter := func() {
			a := atomic.AddInt32(&active, 1)
			for {
				m := atomic.LoadInt32(&maxActive)
				if a <= m || atomic.CompareAndSwapInt32(&maxActive, m, a) {
					break
				}
			}
		}
		for i := range lvlSeq {
			i := i
			swg.Add(1)
			go worker(func() {
				if seq := lvlSeq[i]; seq != nil {
					enter()
					for _, x := range seq {
						zerolog.SetGlobalLevel(zerolog.Level(x))
					}
					atomic.AddInt32(&active, -1)
				}
			})
		}
		for j := range flagSeq {
			j := j
			swg.Add(1)
			go worker(func() {
				if seq := flagSeq[j]; seq != nil {
					enter()
					for _, x := range seq {
						zerolog.DisableSampling(x)
					}
					atomic.AddInt32(&active, -1)
				}
			})
		}
		bad := false
		conc := 0
		for round := 0; !bad && (round < minRounds || (conc < needConcurrent && round < maxRounds)); round++ {
			F := cfg.G[r.Intn(len(cfg.G))]
			v := r.Bool()
			nS, nD := 1+r.Intn(3), 1+r.Intn(2)
			rd := settersRound{Round: round, FinalLevel: F, FinalFlag: v}
			for i := 0; i < nS; i++ {
				n := lens[r.Intn(len(lens))]
				seq := make([]int, n)
				for k := range seq {
					seq[k] = cfg.G[r.Intn(len(cfg.G))]
				}
				seq[n-1] = F
				if n >= 2 && seq[n-2] == F { // the call before the last sets another level
					seq[n-2] = cfg.G[(indexOf(cfg.G, F)+1+r.Intn(len(cfg.G)-1))%len(cfg.G)]
				}
				rd.LevelSetters = append(rd.LevelSetters, seq)
			}
			for j := 0; j < nD; j++ {
				n := lens[r.Intn(len(lens))]
				seq := make([]bool, n)
				for k := range seq {
					seq[n-1-k] = v != (k%2 == 1) // alternating, ending with v
				}
				rd.FlagSetters = append(rd.FlagSetters, seq)
			}
			// hand the sequences to the setter goroutines (they are spinning on gen), wait until all are through
			atomic.StoreInt32(&active, 0)
			atomic.StoreInt32(&maxActive, 0)
			atomic.StoreInt32(&done, 0)
			for i := range lvlSeq {
				lvlSeq[i] = nil
				if i < len(rd.LevelSetters) {
					lvlSeq[i] = rd.LevelSetters[i]
				}
			}
			for j := range flagSeq {
				flagSeq[j] = nil
				if j < len(rd.FlagSetters) {
					flagSeq[j] = rd.FlagSetters[j]
				}
			}
			atomic.AddInt32(&gen, 1)
			for spins := 0; atomic.LoadInt32(&done) < int32(len(lvlSeq)+len(flagSeq)); spins++ {
				if spins%64 == 63 {
					runtime.Gosched()
				}
			}
			if atomic.LoadInt32(&maxActive) >= 2 {
				conc++
			}
			totalRounds++
			// the quiet phase: every setter has returned; F and v decide
			readBack := int(zerolog.GlobalLevel())
			for li := 0; li < 2 && !bad; li++ {
				for _, je := range jes {
					before := len(jw[li].levels)
					var asked int64
					if li == 0 {
						asked = -atomic.LoadInt64(&rej.asked[je.lvl+128])
					} else {
						asked = -int64(len(alt.log))
					}
					je.run(&jl[li])
					verdict := false
					if li == 0 {
						asked += atomic.LoadInt64(&rej.asked[je.lvl+128])
					} else {
						asked += int64(len(alt.log))
						if len(alt.log) > 0 {
							verdict = alt.log[len(alt.log)-1].Verdict
						}
					}
					writes := append([]int{}, jw[li].levels[before:]...)
					judged++
					passes := je.lvl >= cfg.L && je.lvl >= F
					wantAsked := int64(0)
					if passes && !v {
						wantAsked = 1
					}
					want := passes && (v || (asked == 1 && verdict))
					got := len(writes) == 1 && writes[0] == je.lvl
					if got != want || len(writes) > 1 || asked != wantAsked {
						c.Violate(Violation{Key: "gate-wrong", Monitor: "gate-after-concurrent-setters",
							Desc: fmt.Sprintf("logger level %d with %s; %d goroutines called SetGlobalLevel (each sequence ending with %d) while %d goroutines called DisableSampling (each sequence ending with %v); all have returned (GlobalLevel() now reads %d): %s (level %d) must be decided by global level %d and sampling disabled = %v: want written=%v with the sampler asked %d times; WriteLevel calls %v, the sampler was asked %d times",
								cfg.L, jname[li], len(rd.LevelSetters), F, len(rd.FlagSetters), v, readBack, je.name, je.lvl, F, v, want, wantAsked, writes, asked),
							Case:     map[string]interface{}{"logger_level": cfg.L, "logger_sampler": jname[li], "global_levels_of_the_run": cfg.G, "round": rd, "statement_after_all_setters_returned": "l." + je.name, "event_level": je.lvl},
							Observed: map[string]interface{}{"writes": writes, "sampler_asked": asked, "GlobalLevel()": readBack},
							Expected: map[string]interface{}{"written": want, "sampler_asked": wantAsked, "GlobalLevel()": F}})
						bad = true
						break
					}
				}
			}
			if len(jw[0].levels) > 1<<16 {
				jw[0].levels = jw[0].levels[:0]
			}
			if len(jw[1].levels) > 1<<16 {
				jw[1].levels = jw[1].levels[:0]
			}
			if len(alt.log) > 1<<16 {
				alt.log = alt.log[:0]
			}
		}
		atomic.StoreInt32(&stopSetters, 1)
		swg.Wait()
		atomic.StoreInt32(&stopEmit, 1)
		ewg.Wait()
		concurrentRounds += conc
		if conc >= needConcurrent {
			c.Hist("concurrent setters: rounds in which two setters ran at the same time", "enough")
		} else {
			c.Hist("concurrent setters: rounds in which two setters ran at the same time", "fewer than wanted")
		}
		c.Count(fmt.Sprintf("setters L=%d G=%v", cfg.L, cfg.G), true)
		// the emitters' events
		sent := epasses[0] + epasses[1]
		callsAt := map[int]int64{}
		for _, en := range res {
			callsAt[en.lvl] += sent
		}
		ecase := func(lvl int) map[string]interface{} {
			return map[string]interface{}{"logger_level": cfg.L, "global_levels_of_the_run": cfg.G, "event_level": lvl, "emitter_goroutines": 2, "calls_of_this_level": callsAt[lvl],
				"statement": "two goroutines log through every entry point while others call SetGlobalLevel (levels of the run's set) and DisableSampling(true/false)"}
		}
		if np := epanics[0] + epanics[1]; np != 0 {
			c.Violate(Violation{Key: "panic-callback-wrong", Monitor: "gate-concurrent-setters", Desc: fmt.Sprintf("logger level %d, global level moving over %v, sampling switched on and off (concurrently): %d logging statements panicked (none is Panic())", cfg.L, cfg.G, np), Case: ecase(0), Observed: np, Expected: 0})
		}
		if n := atomic.LoadInt64(&ew.plain); n != 0 {
			c.Violate(Violation{Key: "writelevel-wrong", Monitor: "gate-concurrent-setters", Desc: fmt.Sprintf("a LevelWriter received %d plain Write calls", n), Case: ecase(0)})
		}
		for lvl, n := range callsAt {
			wr, hk, ask := atomic.LoadInt64(&ew.writes[lvl+128]), atomic.LoadInt64(&ehooks[lvl+128]), atomic.LoadInt64(&es.asked[lvl+128])
			never := lvl < cfg.L || lvl < lo || lvl == 7
			always := lvl >= cfg.L && lvl >= hi && lvl != 7
			obs := map[string]int64{"written": wr, "hook_runs": hk, "sampler_asked": ask}
			switch {
			case never && (wr != 0 || hk != 0 || ask != 0):
				c.Violate(Violation{Key: "gate-wrong", Monitor: "gate-concurrent-setters",
					Desc: fmt.Sprintf("logger level %d, global level moving over %v, sampling switched on and off (concurrently): events of level %d are filtered under every one of these, yet of %d calls %d were written, the hook ran %d times and the sampler was asked %d times", cfg.L, cfg.G, lvl, n, wr, hk, ask),
					Case: ecase(lvl), Observed: obs, Expected: map[string]int64{"written": 0, "hook_runs": 0, "sampler_asked": 0}})
			case always && (wr != n || hk != n || ask > n):
				c.Violate(Violation{Key: "gate-wrong", Monitor: "gate-concurrent-setters",
					Desc: fmt.Sprintf("logger level %d (a sampler that admits everything), global level moving over %v, sampling switched on and off (concurrently): events of level %d are admitted under every one of these, yet of %d calls %d were written, the hook ran %d times and the sampler was asked %d times", cfg.L, cfg.G, lvl, n, wr, hk, ask),
					Case: ecase(lvl), Observed: obs, Expected: map[string]int64{"written": n, "hook_runs": n}})
			}
		}
		for lv := -128; lv <= 127; lv++ {
			if callsAt[lv] == 0 && (atomic.LoadInt64(&ew.writes[lv+128]) != 0 || atomic.LoadInt64(&es.asked[lv+128]) != 0) {
				c.Violate(Violation{Key: "writelevel-wrong", Monitor: "gate-concurrent-setters", Desc: fmt.Sprintf("WriteLevel / the sampler received level %d, which no event had", lv), Case: ecase(lv)})
			}
		}
		c.Res.Evaluations += len(res) * int(sent)
	}
	c.Res.Evaluations += judged
	c.Res.ExtraCoverage["concurrent_setters_rounds"] = totalRounds
	c.Res.ExtraCoverage["concurrent_setters_rounds_with_overlapping_setters"] = concurrentRounds
	c.Res.ExtraCoverage["concurrent_setters_quiet_phase_calls_judged"] = judged
}

func indexOf(xs []int, x int) int {
	for i, y := range xs {
		if y == x {
			return i
		}
	}
	return 0
}
