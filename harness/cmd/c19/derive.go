package main

// C19 - caller reporting survives the derivation of the logger.
//
// "Whenever caller reporting is on, the caller field holds the file and line of the
// user's statement": a logger made from a caller-reporting logger by any of the
// library's derivation steps (each documented as duplicating the logger or creating a
// child of it) still reports the caller, and the site is still the user's.  The main
// enumeration switches caller reporting on LAST (only Hook calls follow it); this
// sweep puts every derivation step AFTER it:
//
//   caller source   With().Caller() under the global skip, CallerWithSkipFrameCount(2+k),
//                   both next to Event.Caller (two fields), Event.Caller alone (control:
//                   the event's own request must not depend on the derivation either)
//   step            Output (plain writer, SyncWriter, MultiLevelWriter), Level, Sample,
//                   With()...Logger() (empty, Str, Timestamp, Stack, Ctx), UpdateContext,
//                   a struct copy, a copy through a pointer, WithContext/Ctx,
//                   log.Output / log.Level / log.Sample / log.With().Logger() / log.Ctx
//                   (package log's functions, after log.Logger = l)
//   sequences       every single step, pairs (Output first / Output last / two Outputs /
//                   package-level then method), all steps in a row; with and without a
//                   Hook(...) between the caller step and the derivation
//   statements      one of every shape that relies on the logger's caller (plain
//                   finalizer, Print family / Write / package log, CallerSkipFrame(a)),
//                   rotating through the generated table, wrapper depth 2, k = 0..2
//
// None of the steps adds or removes a hook, so the model's hook list (and with it the
// predicted frame) is that of the underived logger.  The steps themselves are code of the
// generated program (c19.go, derive); derivCode is the same text for the standalone program
// of a replay file.

import (
	. "verifharness/hlib"
)

var derivSteps = []string{
	"Output", "Output(SyncWriter)", "Output(MultiLevelWriter)", "Level", "Sample",
	"With().Logger()", "With().Str().Logger()", "With().Timestamp().Logger()", "With().Stack().Logger()", "With().Ctx().Logger()",
	"UpdateContext", "copy", "pointer-copy", "WithContext/Ctx",
	"log.Output", "log.Level", "log.Sample", "log.With().Logger()", "log.Ctx",
}

var derivCode = map[string]string{
	"Output":                      "l = l.Output(os.Stdout)",
	"Output(SyncWriter)":          "l = l.Output(zerolog.SyncWriter(os.Stdout))",
	"Output(MultiLevelWriter)":    "l = l.Output(zerolog.MultiLevelWriter(os.Stdout))",
	"Level":                       "l = l.Level(zerolog.TraceLevel)",
	"Sample":                      "l = l.Sample(&zerolog.BasicSampler{N: 1})",
	"With().Logger()":             "l = l.With().Logger()",
	"With().Str().Logger()":       "l = l.With().Str(\"d\", \"v\").Logger()",
	"With().Timestamp().Logger()": "l = l.With().Timestamp().Logger()",
	"With().Stack().Logger()":     "l = l.With().Stack().Logger()",
	"With().Ctx().Logger()":       "l = l.With().Ctx(context.Background()).Logger()",
	"UpdateContext":               "l.UpdateContext(func(c zerolog.Context) zerolog.Context { return c.Str(\"u\", \"v\") })",
	"copy":                        "l = func(l2 zerolog.Logger) zerolog.Logger { return l2 }(l)",
	"pointer-copy":                "l = *(&l)",
	"WithContext/Ctx":             "l = *zerolog.Ctx(l.WithContext(context.Background()))",
	"log.Output":                  "zlog.Logger = l; l = zlog.Output(os.Stdout)",
	"log.Level":                   "zlog.Logger = l; l = zlog.Level(zerolog.TraceLevel)",
	"log.Sample":                  "zlog.Logger = l; l = zlog.Sample(&zerolog.BasicSampler{N: 1})",
	"log.With().Logger()":         "zlog.Logger = l; l = zlog.With().Logger()",
	"log.Ctx":                     "l = *zlog.Ctx(l.WithContext(context.Background()))",
}

func deriveSweep(c *Ctx, leaves []leafT, add func(caseT, leafT)) int {
	byKind := map[leafKind][]leafT{}
	for _, l := range leaves {
		if !l.Fatal {
			byKind[l.Kind] = append(byKind[l.Kind], l)
		}
	}
	var seqs [][]string
	for _, s := range derivSteps {
		seqs = append(seqs, []string{s})
	}
	// pairs: the re-targeting step first / last / twice, a package-level step and a method
	seqs = append(seqs,
		[]string{"Output", "With().Str().Logger()"}, []string{"With().Str().Logger()", "Output"}, []string{"Output", "Output"},
		[]string{"Level", "Output"}, []string{"Output", "Level"}, []string{"Sample", "log.Output"}, []string{"log.Output", "Sample"},
		[]string{"UpdateContext", "Output"}, []string{"Output", "UpdateContext"}, []string{"copy", "Level", "copy"},
		[]string{"WithContext/Ctx", "Output"}, []string{"log.With().Logger()", "log.Level"}, []string{"With().Stack().Logger()", "With().Ctx().Logger()"},
		append([]string{}, derivSteps...))
	if c.Thorough() {
		for i, a := range derivSteps {
			b := derivSteps[(i*7+3)%len(derivSteps)]
			seqs = append(seqs, []string{a, b}, []string{b, a})
		}
	}
	reps := 2
	if c.Thorough() {
		reps = 6
	}
	n, total := 0, 0
	for _, seq := range seqs {
		for _, first := range []string{"ctx", "count"} {
			for _, kind := range []leafKind{shPlain, shTerminal, shSkip, shCaller, shSkipCallerArg} {
				ls := byKind[kind]
				if len(ls) == 0 {
					continue
				}
				for rep := 0; rep < reps; rep++ {
					n++
					k := n % 3
					cs := caseT{D: 2, G: 2, K: k, Caller: first, Lvl: c19levels[n%len(c19levels)], Err: n%2 == 0, Deriv: seq}
					if n%3 == 1 {
						cs.Post = []int{0} // a Hook between the caller step and the derivation
					}
					if n%5 == 2 {
						cs.Pre = []int{0}
					}
					switch {
					case kind == shSkipCallerArg:
						// Event.Caller alone, its skip split over CallerSkipFrame and Caller(b): the logger carries no caller
						cs.Caller = "none"
						cs.A, cs.B = k/2, k-k/2
						if first == "count" {
							cs.Caller, cs.N = "count", 2+k-cs.A // and next to the logger's own (two fields, the same frame)
						}
					case kind == shSkip:
						cs.A = k
						if first == "count" {
							cs.N = 2
						}
					case first == "ctx" || kind == shCaller:
						cs.G = 2 + k
						if first == "count" {
							cs.N = 2 + k
						}
					default:
						cs.N = 2 + k
					}
					add(cs, ls[(n*7+int(kind))%len(ls)])
					total++
				}
			}
		}
	}
	return total
}
