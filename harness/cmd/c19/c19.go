package main

// C19 - the caller field names the user's call site.
//
// The driver reads the same table as the Coq side (package chains, from
// $VERIF_REPO), generates a Go program with one source line per
// (entry point x way of asking for the caller x finalizer) and per Print-like
// function, builds it against $VERIF_REPO with the DEFAULT compiler settings
// (inlining on - what users get) and runs every combination of wrapper depth
// 0..4, skip k <= depth, source of the skip (CallerSkipFrame, Caller(k),
// CallerWithSkipFrameCount(2+k), global CallerSkipFrameCount, other hooks
// calling CallerSkipFrame) and other hooks present/absent.  Each logging
// statement shares its source line with `p.Want[0] = here()` (runtime.Caller(0)
// of the same line); every wrapper records the line of its call the same way.
//
// Monitor (independent of the Coq model): the caller field must be the recorded
// file:line of the user frame k levels up, as the property says.
// Shards: the model's predicted user-frame index vs. the observed one.

import (
	"bufio"
	"bytes"
	"encoding/json"
	"fmt"
	"os"
	"os/exec"
	"path/filepath"
	"strings"

	"verifharness/cmd/c19/chains"
	"verifharness/hlib"
	. "verifharness/hlib"
)

func main() { hlib.Main(map[string]func(*hlib.Ctx){"C19": runC19}) }

// ---------------------------------------------------------------- leaves

type leafKind int

const (
	shCaller        leafKind = iota // .Caller()
	shSkipCaller                    // .CallerSkipFrame(A).Caller()
	shCallerArg                     // .Caller(B)
	shSkipCallerArg                 // .CallerSkipFrame(A).Caller(B)
	shPlain                         // (nothing: the logger carries the caller hook)
	shSkip                          // .CallerSkipFrame(A)
	shTerminal                      // Print-like
)

var shapeNames = []string{"Caller()", "CallerSkipFrame(a).Caller()", "Caller(b)", "CallerSkipFrame(a).Caller(b)", "hook", "CallerSkipFrame(a)+hook", "terminal"}

type leafT struct {
	Idx    int
	Kind   leafKind
	Entry  string // table name of the entry ("Logger.Info", "log.Err") or terminal
	Fin    string // table name of the finalizer ("Event.Msg"); "" for terminals
	Code   string // the Go statement
	Fatal  bool   // the statement ends the process (Logger.Fatal / log.Fatal)
	UsesL  bool   // uses p.L (else the package-level log.Logger)
	Iface  bool   // Logger.Write through an io.Writer value
	NeedsE bool   // takes p.Err
	NeedsV bool   // takes p.Lvl
}

func argFor(t string) (string, error) {
	switch t {
	case "error":
		return "p.Err", nil
	case "Level", "zerolog.Level":
		return "p.Lvl", nil
	case "string":
		return `"m%d"`, nil
	case "...interface{}":
		return "1", nil
	case "func() string":
		return `func() string { return "m" }`, nil
	case "[]byte":
		return `[]byte("m\n")`, nil
	}
	return "", fmt.Errorf("the program generator has no value for a parameter of type %q", t)
}

func callExpr(f chains.Func) (recv string, call string, err error) {
	recv, calls, err := callExprs(f)
	if err != nil {
		return "", "", err
	}
	return recv, calls[0], nil
}

// callExprs: the call with its default arguments first, then the argument shapes an
// implementation may treat differently: no variadic arguments with a literal format, and
// the empty message.
func callExprs(f chains.Func) (recv string, calls []string, err error) {
	var args []string
	variadic, str := -1, -1
	for i, p := range f.Params {
		a, e := argFor(p)
		if e != nil {
			return "", nil, fmt.Errorf("%s: %v", f.Name, e)
		}
		if p == "...interface{}" {
			variadic = i
		}
		if p == "string" {
			str = i
		}
		args = append(args, a)
	}
	name := f.Name[strings.LastIndex(f.Name, ".")+1:]
	switch {
	case f.Pkg == "log" && f.Recv == "":
		recv = "zlog."
	case f.Recv == "Logger" || f.Recv == "*Logger":
		recv = "p.L."
	case f.Recv == "*Event":
		recv = "."
	default:
		return "", nil, fmt.Errorf("%s: receiver %q not handled by the program generator", f.Name, f.Recv)
	}
	calls = []string{name + "(" + strings.Join(args, ", ") + ")"}
	if variadic >= 0 {
		a2 := append([]string{}, args[:variadic]...)
		if str >= 0 && str < variadic {
			a2[str] = `"literal"`
		}
		calls = append(calls, name+"("+strings.Join(a2, ", ")+")")
	} else if str >= 0 {
		a2 := append([]string{}, args...)
		a2[str] = `""`
		calls = append(calls, name+"("+strings.Join(a2, ", ")+")")
	}
	return recv, calls, nil
}

func buildLeaves(t *chains.Table) ([]leafT, error) {
	var ls []leafT
	add := func(l leafT) {
		l.Idx = len(ls)
		ls = append(ls, l)
	}
	ops := []string{".Caller()", ".CallerSkipFrame(p.A).Caller()", ".Caller(p.B)", ".CallerSkipFrame(p.A).Caller(p.B)", "", ".CallerSkipFrame(p.A)"}
	for _, e := range t.Entries {
		r, c, err := callExpr(e)
		if err != nil {
			return nil, err
		}
		for _, f := range t.Finalizers {
			_, fcs, err := callExprs(f)
			if err != nil {
				return nil, err
			}
			for _, fc := range fcs {
				for k := shCaller; k <= shSkip; k++ {
					add(leafT{Kind: k, Entry: e.Name, Fin: f.Name, Code: r + c + ops[k] + "." + fc,
						Fatal: strings.HasSuffix(e.Name, ".Fatal"), UsesL: r == "p.L.",
						NeedsE: strings.Contains(c, "p.Err"), NeedsV: strings.Contains(c, "p.Lvl")})
				}
			}
		}
	}
	for _, tm := range t.Terminals {
		r, cs, err := callExprs(tm)
		if err != nil {
			return nil, err
		}
		for _, c := range cs {
			add(leafT{Kind: shTerminal, Entry: tm.Name, Code: r + c, UsesL: r == "p.L."})
		}
		if tm.Name == "Logger.Write" {
			add(leafT{Kind: shTerminal, Entry: tm.Name, Code: "p.W." + cs[0], UsesL: true, Iface: true})
		}
	}
	return ls, nil
}

const progHead = `// GENERATED by the C19 driver - do not edit.
package main

import (
	"bufio"
	"context"
	"encoding/json"
	"errors"
	"io"
	"os"
	"runtime"
	"strconv"
	"strings"

	"github.com/rs/zerolog"
	zlog "github.com/rs/zerolog/log"
)

type P struct {
	L    *zerolog.Logger
	W    io.Writer
	A, B int
	Lvl  zerolog.Level
	Err  error
	Want []string
}

func here() string { _, f, l, _ := runtime.Caller(1); return f + ":" + strconv.Itoa(l) }

type leaf func(p *P)

func w1(p *P, f leaf) { p.Want[1] = here(); f(p) }
func w2(p *P, f leaf) { p.Want[2] = here(); w1(p, f) }
func w3(p *P, f leaf) { p.Want[3] = here(); w2(p, f) }
func w4(p *P, f leaf) { p.Want[4] = here(); w3(p, f) }

//DEEPWRAPPERS

// rec: d wrapper frames by recursion (depths beyond the generated chain): user frame 1 is the
// f(p) line, user frames 2..d are the recursive call's line, user frame d+1 is the line in runRec.
// Want is [leaf, f(p) line, recursive call line, runRec line].
func rec(n int, p *P, f leaf) {
	if n <= 1 {
		p.Want[1] = here(); f(p)
		return
	}
	if p.Want[2] == "" { p.Want[2] = here() }; rec(n-1, p, f) // one source line: the recording and the call
}

func runRec(d int, p *P, f leaf) (panicked bool) {
	defer func() {
		if r := recover(); r != nil {
			panicked = true
		}
	}()
	p.Want[3] = here(); rec(d, p, f)
	return
}

func run(d int, p *P, f leaf) (panicked bool) {
	defer func() {
		if r := recover(); r != nil {
			panicked = true
		}
	}()
	switch d {
	case 0:
		p.Want[1] = here(); f(p)
	case 1:
		p.Want[2] = here(); w1(p, f)
	case 2:
		p.Want[3] = here(); w2(p, f)
	case 3:
		p.Want[4] = here(); w3(p, f)
	case 4:
		p.Want[5] = here(); w4(p, f)
	default:
		p.Want[d+1] = here(); deep[d](p, f)
	}
	return
}

type Case struct {
	ID     int   ` + "`json:\"id\"`" + `
	Leaf   int   ` + "`json:\"leaf\"`" + `
	D      int   ` + "`json:\"d\"`" + `
	A      int   ` + "`json:\"a\"`" + `
	B      int   ` + "`json:\"b\"`" + `
	G      int   ` + "`json:\"g\"`" + `
	Caller string ` + "`json:\"caller\"`" + ` // none | ctx | count
	N      int   ` + "`json:\"n\"`" + `
	Pre    []int ` + "`json:\"pre\"`" + `
	Post   []int ` + "`json:\"post\"`" + `
	Lvl    int   ` + "`json:\"lvl\"`" + `
	Err    bool  ` + "`json:\"err\"`" + `
	Sib    []Sib ` + "`json:\"sib\"`" + `
	Rec    bool  ` + "`json:\"rec\"`" + `
	Keep   []int ` + "`json:\"keep\"`" + ` // deep chains: the user frames whose recorded line the driver asks for
	Deriv  []string ` + "`json:\"deriv\"`" + ` // derivation steps applied to the logger AFTER caller reporting was switched on
}

// derive: one derivation step; every one of them yields a logger that still writes to cp, lets every
// level through and has the same hooks (none adds or removes a hook).
func derive(l zerolog.Logger, step string, cp io.Writer) zerolog.Logger {
	switch step {
	case "Output":
		return l.Output(cp)
	case "Output(SyncWriter)":
		return l.Output(zerolog.SyncWriter(cp))
	case "Output(MultiLevelWriter)":
		return l.Output(zerolog.MultiLevelWriter(cp))
	case "Level":
		return l.Level(zerolog.TraceLevel)
	case "Sample":
		return l.Sample(&zerolog.BasicSampler{N: 1})
	case "With().Logger()":
		return l.With().Logger()
	case "With().Str().Logger()":
		return l.With().Str("d", "v").Logger()
	case "With().Timestamp().Logger()":
		return l.With().Timestamp().Logger()
	case "With().Stack().Logger()":
		return l.With().Stack().Logger()
	case "With().Ctx().Logger()":
		return l.With().Ctx(context.Background()).Logger()
	case "UpdateContext":
		l.UpdateContext(func(c zerolog.Context) zerolog.Context { return c.Str("u", "v") })
		return l
	case "copy":
		l2 := l
		return l2
	case "pointer-copy":
		pl := &l
		l3 := *pl
		return l3
	case "WithContext/Ctx":
		return *zerolog.Ctx(l.WithContext(context.Background()))
	case "log.Output":
		zlog.Logger = l
		return zlog.Output(cp)
	case "log.Level":
		zlog.Logger = l
		return zlog.Level(zerolog.TraceLevel)
	case "log.Sample":
		zlog.Logger = l
		return zlog.Sample(&zerolog.BasicSampler{N: 1})
	case "log.With().Logger()":
		zlog.Logger = l
		return zlog.With().Logger()
	case "log.Ctx":
		return *zlog.Ctx(l.WithContext(context.Background()))
	}
	panic("unknown derivation step " + step)
}

// Sib: a sibling logger derived, AFTER the logger under test exists, from one of its ancestors
// (From = number of derivation steps that ancestor went through) and used once on another writer.
type Sib struct {
	From int    ` + "`json:\"from\"`" + `
	Kind string ` + "`json:\"kind\"`" + ` // ctx | count | hook | hooks2
	N    int    ` + "`json:\"n\"`" + `
}

type Result struct {
	ID       int      ` + "`json:\"id\"`" + `
	Want     []string ` + "`json:\"want\"`" + `
	WantAt   map[string]string ` + "`json:\"want_at,omitempty\"`" + ` // deep chains: user frame -> recorded line, for the frames asked for and those a caller field names
	Callers  []string ` + "`json:\"callers\"`" + `
	Events   int      ` + "`json:\"events\"`" + `
	Raw      string   ` + "`json:\"raw\"`" + `
	Panicked bool     ` + "`json:\"panicked\"`" + `
}

type capture struct {
	events int
	raw    []byte
	onWrite func()
}

func (c *capture) Write(b []byte) (int, error) {
	c.events++
	c.raw = append(c.raw[:0], b...)
	if c.onWrite != nil {
		c.onWrite()
	}
	return len(b), nil
}

type structHook struct{ adds int }

func (h structHook) Run(e *zerolog.Event, _ zerolog.Level, _ string) {
	if h.adds != 0 {
		e.CallerSkipFrame(h.adds)
	}
	e.Str("sh", "x")
}

func otherHook(i, adds int) zerolog.Hook {
	k := i % 3
	if adds != 0 {
		k = i % 2 // a LevelHook runs nothing for custom levels: keep the skipping hooks unconditional
	}
	switch k {
	case 0:
		return structHook{adds}
	case 1:
		return zerolog.HookFunc(func(e *zerolog.Event, _ zerolog.Level, _ string) {
			if adds != 0 {
				e.CallerSkipFrame(adds)
			}
			e.Int("hf", 1)
		})
	default:
		h := structHook{adds}
		return zerolog.LevelHook{NoLevelHook: h, TraceHook: h, DebugHook: h, InfoHook: h, WarnHook: h, ErrorHook: h, FatalHook: h, PanicHook: h}
	}
}

func callersOf(raw []byte) []string {
	var out []string
	dec := json.NewDecoder(strings.NewReader(string(raw)))
	depth := 0
	key := ""
	expectKey := false
	for {
		t, err := dec.Token()
		if err != nil {
			return out
		}
		switch v := t.(type) {
		case json.Delim:
			switch v {
			case '{', '[':
				depth++
				expectKey = v == '{' && depth == 1
			default:
				depth--
				expectKey = depth == 1
			}
		case string:
			if depth == 1 && expectKey {
				key = v
				expectKey = false
				continue
			}
			if depth == 1 {
				if key == "caller" {
					out = append(out, v)
				}
				expectKey = true
			}
		default:
			if depth == 1 {
				expectKey = true
			}
		}
	}
}

func main() {
	fatalMode := len(os.Args) > 1 && os.Args[1] == "-fatal"
	zerolog.CallerMarshalFunc = func(pc uintptr, file string, line int) string { return file + ":" + strconv.Itoa(line) }
	zerolog.SetGlobalLevel(zerolog.TraceLevel)
	out := bufio.NewWriterSize(os.Stdout, 1<<20)
	defer out.Flush()
	enc := json.NewEncoder(out)
	in := bufio.NewScanner(os.Stdin)
	in.Buffer(make([]byte, 1<<20), 1<<20)
	for in.Scan() {
		var c Case
		if err := json.Unmarshal(in.Bytes(), &c); err != nil {
			panic(err)
		}
		cp := &capture{}
		l := zerolog.New(cp)
		anc := []zerolog.Logger{l}
		for i, a := range c.Pre {
			l = l.Hook(otherHook(i, a))
			anc = append(anc, l)
		}
		switch c.Caller {
		case "ctx":
			l = l.With().Caller().Logger()
			anc = append(anc, l)
		case "count":
			l = l.With().CallerWithSkipFrameCount(c.N).Logger()
			anc = append(anc, l)
		}
		for i, a := range c.Post {
			l = l.Hook(otherHook(i+1, a))
			anc = append(anc, l)
		}
		for _, step := range c.Deriv {
			l = derive(l, step, cp)
			anc = append(anc, l)
		}
		// siblings: derived later from an ancestor of l, used on their own writer; l must not notice
		for i, s := range c.Sib {
			from := anc[len(anc)-1]
			if s.From >= 0 && s.From < len(anc) {
				from = anc[s.From]
			}
			var sl zerolog.Logger
			switch s.Kind {
			case "ctx":
				sl = from.With().Caller().Logger()
			case "count":
				sl = from.With().CallerWithSkipFrameCount(s.N).Logger()
			case "hooks2":
				sl = from.Hook(otherHook(i, 0), otherHook(i+1, s.N))
			default:
				sl = from.Hook(otherHook(i, s.N))
			}
			sl = sl.Output(io.Discard)
			sl.Info().Msg("sibling")
		}
		zerolog.CallerSkipFrameCount = c.G
		zlog.Logger = l
		p := &P{L: &l, W: l, A: c.A, B: c.B, Lvl: zerolog.Level(c.Lvl), Want: make([]string, c.D+8)}
		nWant := c.D + 2
		doRun := run
		if c.Rec {
			nWant, doRun = 4, runRec
		}
		if c.Err {
			p.Err = errors.New("boom")
		}
		emit := func(panicked bool) {
			r := Result{ID: c.ID, Want: append([]string{}, p.Want[:nWant]...), Events: cp.events, Raw: string(cp.raw), Panicked: panicked}
			r.Callers = callersOf(cp.raw)
			if r.Callers == nil {
				r.Callers = []string{}
			}
			if len(r.Want) > 16 {
				at := map[string]string{}
				for _, i := range append([]int{0, 1, c.D, c.D + 1}, c.Keep...) {
					if i >= 0 && i < len(r.Want) {
						at[strconv.Itoa(i)] = r.Want[i]
					}
				}
				for i, w := range r.Want {
					for _, s := range r.Callers {
						if w == s {
							at[strconv.Itoa(i)] = w
						}
					}
				}
				r.WantAt, r.Want = at, nil
			}
			enc.Encode(r)
		}
		if fatalMode {
			cp.onWrite = func() { emit(false); out.Flush() }
			doRun(c.D, p, leaves[c.Leaf])
			continue // not reached for a Fatal statement
		}
		panicked := doRun(c.D, p, leaves[c.Leaf])
		emit(panicked)
	}
}

var leaves = []leaf{
`

// maxChain: the deepest chain of distinct generated wrapper functions (one source line each, so
// that every frame is told apart); beyond it wrapper depth is made by recursion (rec).
const maxChain = 1000

func genProgram(ls []leafT) string {
	var b strings.Builder
	var dw strings.Builder
	// wrappers 5..maxChain, one source line each (same shape as w1..w4), and the table run() indexes
	for i := 5; i <= maxChain; i++ {
		fmt.Fprintf(&dw, "func w%d(p *P, f leaf) { p.Want[%d] = here(); w%d(p, f) }\n", i, i, i-1)
	}
	dw.WriteString("\nvar deep = []func(*P, leaf){nil")
	for i := 1; i <= maxChain; i++ {
		fmt.Fprintf(&dw, ", w%d", i)
	}
	dw.WriteString("}\n")
	b.WriteString(strings.Replace(progHead, "//DEEPWRAPPERS\n", dw.String(), 1))
	for _, l := range ls {
		fmt.Fprintf(&b, "\tfunc(p *P) { p.Want[0] = here(); %s }, // %d %s\n", l.Code, l.Idx, shapeNames[l.Kind])
	}
	b.WriteString("}\n")
	return b.String()
}

// ---------------------------------------------------------------- cases

type hookCfg struct {
	Caller string `json:"caller"` // none | ctx | count
	N      int    `json:"n"`
	Pre    []int  `json:"pre"`
	Post   []int  `json:"post"`
}

type caseT struct {
	ID     int    `json:"id"`
	Leaf   int    `json:"leaf"`
	D      int    `json:"d"`
	A      int    `json:"a"`
	B      int    `json:"b"`
	G      int    `json:"g"`
	Caller string `json:"caller"`
	N      int    `json:"n"`
	Pre    []int  `json:"pre"`
	Post   []int  `json:"post"`
	Lvl    int    `json:"lvl"`
	Err    bool   `json:"err"`
	Sib    []sibT `json:"sib"`
	Keep   []int  `json:"keep,omitempty"` // deep chains: the frames whose recorded line the program must report (filled by the driver)
	Rec    bool   `json:"rec,omitempty"`  // wrapper depth by recursion (D > maxChain): frames 2..D share one source line
	// derivation steps applied after caller reporting was switched on (derive.go); none of them touches the hooks
	Deriv []string `json:"deriv,omitempty"`
	K      int    `json:"-"`              // intended skip: the user frame the property promises
}

// sibT: a sibling logger derived after the logger under test from one of its ancestors (From =
// number of derivation steps of that ancestor: 0 = zerolog.New, len(Pre) = the parent of the
// With().Caller() step, ...), then used once on another writer.  Nothing is promised about the
// sibling here; the logger under test must report exactly what it reports without it.
type sibT struct {
	From int    `json:"from"`
	Kind string `json:"kind"` // ctx | count | hook | hooks2
	N    int    `json:"n"`
}

type resultT struct {
	ID       int               `json:"id"`
	Want     []string          `json:"want"`
	WantAt   map[string]string `json:"want_at"`
	Callers  []string          `json:"callers"`
	Events   int               `json:"events"`
	Raw      string            `json:"raw"`
	Panicked bool              `json:"panicked"`
}

func sum(xs []int) int {
	s := 0
	for _, x := range xs {
		s += x
	}
	return s
}

func coqHooks(c caseT, flag int64) string {
	var hs []string
	for _, a := range c.Pre {
		hs = append(hs, "HOther "+CoqZ(int64(a)))
	}
	switch c.Caller {
	case "ctx":
		hs = append(hs, "HCaller "+CoqZ(flag))
	case "count":
		hs = append(hs, "HCaller "+CoqZ(int64(c.N)))
	}
	for _, a := range c.Post {
		hs = append(hs, "HOther "+CoqZ(int64(a)))
	}
	return CoqList(hs)
}

func coqStmt(l leafT, c caseT) string {
	q := func(s string) string { return "\"" + s + "\"" }
	if l.Kind == shTerminal {
		return "STerminal " + q(l.Entry)
	}
	var ops []string
	switch l.Kind {
	case shCaller:
		ops = []string{"OCaller None"}
	case shSkipCaller:
		ops = []string{"OSkipFrame " + CoqZ(int64(c.A)), "OCaller None"}
	case shCallerArg:
		ops = []string{"OCaller (Some " + CoqZ(int64(c.B)) + ")"}
	case shSkipCallerArg:
		ops = []string{"OSkipFrame " + CoqZ(int64(c.A)), "OCaller (Some " + CoqZ(int64(c.B)) + ")"}
	case shSkip:
		ops = []string{"OSkipFrame " + CoqZ(int64(c.A))}
	}
	return "SLog " + q(l.Entry) + " " + CoqList(ops) + " " + q(l.Fin)
}

// expectedFrames: the property, stated directly: which user frame each caller field must name.
// Event.Caller field first (if the statement calls Caller), then one per caller hook.
func expectedFrames(l leafT, c caseT) []int {
	var out []int
	a, b := 0, 0
	switch l.Kind {
	case shSkipCaller, shSkipCallerArg, shSkip:
		a = c.A
	}
	switch l.Kind {
	case shCallerArg, shSkipCallerArg:
		b = c.B
	}
	if l.Kind <= shSkipCallerArg {
		out = append(out, a+b+(c.G-2))
	}
	switch c.Caller {
	case "ctx":
		out = append(out, a+sum(c.Pre)+(c.G-2))
	case "count":
		out = append(out, a+sum(c.Pre)+(c.N-2))
	}
	return out
}

// standalone: the case as a self-contained Go program (for the reader of a replay file)
func standalone(l leafT, cs caseT) string {
	var b strings.Builder
	imports := "\t\"errors\"\n\t\"io\"\n\t\"os\"\n"
	for _, step := range cs.Deriv {
		if strings.Contains(derivCode[step], "context.") {
			imports = "\t\"context\"\n" + imports
			break
		}
	}
	b.WriteString("package main\n\nimport (\n" + imports + "\n\t\"github.com/rs/zerolog\"\n\tzlog \"github.com/rs/zerolog/log\"\n)\n\n")
	b.WriteString("type P struct {\n\tL *zerolog.Logger\n\tW io.Writer\n\tA, B int\n\tLvl zerolog.Level\n\tErr error\n}\n\n")
	b.WriteString("type skipHook int\n\nfunc (h skipHook) Run(e *zerolog.Event, _ zerolog.Level, _ string) { e.CallerSkipFrame(int(h)) }\n\n")
	fmt.Fprintf(&b, "func w0(p *P) { %s } // user frame 0\n", l.Code)
	top := fmt.Sprintf("w%d(p)", cs.D)
	if cs.D <= 8 {
		for i := 1; i <= cs.D; i++ {
			fmt.Fprintf(&b, "func w%d(p *P) { w%d(p) } // user frame %d\n", i, i-1, i)
		}
	} else {
		// (the driver's program has one function per level up to 1000; the recursive helper is the short way to write it)
		b.WriteString("func wrap(n int, p *P) {\n\tif n == 1 {\n\t\tw0(p) // user frame 1\n\t\treturn\n\t}\n\twrap(n-1, p) // user frames 2..n\n}\n")
		top = fmt.Sprintf("wrap(%d, p)", cs.D)
	}
	b.WriteString("\nfunc main() {\n\tl := zerolog.New(os.Stdout)\n")
	keep := ""
	if len(cs.Sib) > 0 {
		b.WriteString("\tanc := []zerolog.Logger{l} // anc[i] = l after i derivation steps\n")
		keep = "\tanc = append(anc, l)\n"
	}
	for _, a := range cs.Pre {
		fmt.Fprintf(&b, "\tl = l.Hook(skipHook(%d))\n%s", a, keep)
	}
	switch cs.Caller {
	case "ctx":
		b.WriteString("\tl = l.With().Caller().Logger()\n" + keep)
	case "count":
		fmt.Fprintf(&b, "\tl = l.With().CallerWithSkipFrameCount(%d).Logger()\n%s", cs.N, keep)
	}
	for _, a := range cs.Post {
		fmt.Fprintf(&b, "\tl = l.Hook(skipHook(%d))\n%s", a, keep)
	}
	for _, step := range cs.Deriv {
		b.WriteString("\t" + derivCode[step] + " // derived after caller reporting was switched on\n")
	}
	for _, s := range cs.Sib {
		switch s.Kind {
		case "ctx":
			fmt.Fprintf(&b, "\t_ = anc[%d].With().Caller().Logger() // sibling, derived after l\n", s.From)
		case "count":
			fmt.Fprintf(&b, "\t_ = anc[%d].With().CallerWithSkipFrameCount(%d).Logger() // sibling, derived after l\n", s.From, s.N)
		case "hooks2":
			fmt.Fprintf(&b, "\t_ = anc[%d].Hook(skipHook(0), skipHook(%d)) // sibling, derived after l\n", s.From, s.N)
		default:
			fmt.Fprintf(&b, "\t_ = anc[%d].Hook(skipHook(%d)) // sibling, derived after l\n", s.From, s.N)
		}
	}
	fmt.Fprintf(&b, "\tzerolog.CallerSkipFrameCount = %d\n\tzlog.Logger = l\n", cs.G)
	errv := "nil"
	if cs.Err {
		errv = "errors.New(\"boom\")"
	}
	fmt.Fprintf(&b, "\tp := &P{L: &l, W: l, A: %d, B: %d, Lvl: zerolog.Level(%d), Err: %s}\n", cs.A, cs.B, cs.Lvl, errv)
	fmt.Fprintf(&b, "\t%s // user frame %d; every caller field must be file:line of user frame %v\n}\n", top, cs.D+1, expectedFrames(l, cs))
	return b.String()
}

func sibNote(cs caseT) string {
	if len(cs.Deriv) > 0 {
		return fmt.Sprintf("; after caller reporting was switched on the logger was derived further: %s", strings.Join(cs.Deriv, ", then "))
	}
	if len(cs.Sib) == 0 {
		return ""
	}
	return fmt.Sprintf("; parent with %d hooks added one at a time, then %d sibling logger(s) derived from an ancestor after this logger was made: %+v", len(cs.Pre), len(cs.Sib), cs.Sib)
}

var c19levels = []int{-1, 0, 1, 2, 3, 4, 5, 6, 8}

func runC19(c *Ctx) {
	repo := os.Getenv("VERIF_REPO")
	if repo == "" {
		repo = "/repo"
	}
	repo, _ = filepath.Abs(repo)
	if r, err := filepath.EvalSymlinks(repo); err == nil {
		repo = r
	}
	verifDir := os.Getenv("VERIF_DIR")
	if verifDir == "" {
		verifDir = "/verif"
	}
	work := os.Getenv("VERIF_WORK")
	if work == "" {
		work = c.Out
	}
	baseline := filepath.Join(verifDir, "harness", "cmd", "c19", "baseline_table.json")
	tab, err := chains.Extract(repo)
	fallback := false
	if err != nil {
		// the translator cannot read the source any more: that obligation is broken.  The
		// monitors need only the lists of entry points and finalizers; take them from the
		// table recorded for the pinned tree and go on looking for a failing statement.
		fmt.Fprintln(os.Stderr, "C19: call-chain extraction failed:", err)
		c.Res.Broken = append(c.Res.Broken, "call-chain extraction (c19gen translator): "+err.Error())
		b, rerr := os.ReadFile(baseline)
		if rerr != nil {
			fmt.Fprintln(os.Stderr, "C19: no baseline table:", rerr)
			os.Exit(3)
		}
		tab = &chains.Table{}
		must(json.Unmarshal(b, tab))
		fallback = true
	} else if os.Getenv("VERIF_WRITE_BASELINE") == "1" {
		b, _ := json.MarshalIndent(tab, "", " ")
		must(os.WriteFile(baseline, b, 0o644))
	}
	flag := tab.Consts["useGlobalSkipFrameCount"]
	leaves, err := buildLeaves(tab)
	if err != nil {
		fmt.Fprintln(os.Stderr, "C19:", err)
		os.Exit(3)
	}
	// ---- generate and build the program (default compiler settings)
	pdir := filepath.Join(work, "c19prog")
	os.RemoveAll(pdir)
	if err := os.MkdirAll(pdir, 0o755); err != nil {
		panic(err)
	}
	src := genProgram(leaves)
	must(os.WriteFile(filepath.Join(pdir, "main.go"), []byte(src), 0o644))
	hm, err := os.ReadFile(filepath.Join(verifDir, "harness", "go.mod"))
	must(err)
	gomod := strings.Replace(string(hm), "module verifharness", "module c19prog", 1)
	gomod = strings.Replace(gomod, "=> /repo", "=> "+repo, 1)
	must(os.WriteFile(filepath.Join(pdir, "go.mod"), []byte(gomod), 0o644))
	gs, err := os.ReadFile(filepath.Join(repo, "go.sum"))
	must(err)
	must(os.WriteFile(filepath.Join(pdir, "go.sum"), gs, 0o644))
	env := append(os.Environ(), "GOFLAGS=-mod=mod", "GOPROXY=off", "GOSUMDB=off", "GOTOOLCHAIN=local", "CGO_ENABLED=0")
	bin := filepath.Join(pdir, "prog")
	{
		cmd := exec.Command("go", "build", "-o", bin, ".")
		cmd.Dir = pdir
		cmd.Env = env
		if out, err := cmd.CombinedOutput(); err != nil {
			fmt.Fprintf(os.Stderr, "C19: building the generated program against %s failed: %v\n%s\n", repo, err, out)
			os.Exit(3)
		}
	}
	srcLines := strings.Split(src, "\n")
	lineOf := map[int]int{} // leaf -> line number in main.go
	for i, ln := range srcLines {
		if strings.HasPrefix(ln, "\tfunc(p *P) { p.Want[0] = here(); ") {
			lineOf[len(lineOf)] = i + 1
		}
	}

	c.Res.Rule = "one source line per (entry point of the generated table x {Caller(), CallerSkipFrame(a).Caller(), Caller(b), CallerSkipFrame(a).Caller(b), caller hook on the logger, CallerSkipFrame(a) + caller hook} x finalizer) and per Print/Printf/Println/Write/log.Print/log.Printf (Write also through an io.Writer value); each run for every wrapper depth d=0..4 and every k<=d, the skip k realised by each single source in turn (CallerSkipFrame, Caller(k), CallerWithSkipFrameCount(2+k), global CallerSkipFrameCount=2+k, an earlier hook calling CallerSkipFrame) and by a seeded random split over all sources, with other hooks absent/present (struct hook, HookFunc, LevelHook); sibling sweep: parents with 0..7 hooks added one call at a time, child by With().Caller()/CallerWithSkipFrameCount with/without a later Hook, then one or two sibling loggers derived from the parent, the grandparent or the child (caller hook with another count, plain hook, frame-skipping hook, two hooks in one call) and used on their own writer - the child's caller field must be unchanged; deep sweep (deep.go): wrapper depths 126..1000 through that many distinct generated helper functions and 32766..65538 through a recursive helper, the skip k at 127/128/129/255/256/257/300/1000 (and 32767/32768/32769/65535/65536/65537 for the recursion) realised by CallerSkipFrame(k), Caller(k), CallerSkipFrame(a).Caller(b) splits, CallerWithSkipFrameCount(2+k), the global, one or two earlier hooks calling CallerSkipFrame and mixtures, always landing on a frame of the run (k <= depth+1); derivation sweep (derive.go): caller reporting switched on by With().Caller() / CallerWithSkipFrameCount(2+k) (also next to Event.Caller, and Event.Caller alone under the global skip), then the logger derived further by every single step that keeps the hooks - Output (plain, SyncWriter, MultiLevelWriter), Level, Sample, With()...Logger() (empty, Str, Timestamp, Stack, Ctx), UpdateContext, a struct copy, a copy through a pointer, WithContext/Ctx, log.Output, log.Level, log.Sample, log.With().Logger(), log.Ctx (the package-level ones after log.Logger = l) - by pairs of them and by all in a row, with and without a Hook in between, each on statements of every shape rotating through the table: the caller field must still be there and name the user's frame; Fatal entries in their own process; non-trivial = k>0 or other hooks present; distinct by (statement, d, parameters)"
	c.OpenShards("From Verif Require Import Base.Prelude Misc.CallerTypes Gen.CallChains Misc.Caller Harness.C19H.\nFrom Coq Require Import String.\nOpen Scope string_scope.\nOpen Scope list_scope.\nOpen Scope Z_scope.",
		"c19_case * option (list (option N))", "mismatches c19_run c19_eqb", 1000)

	// ---- enumerate the cases
	var cases []caseT
	var fatal []caseT
	add := func(cs caseT, l leafT) {
		cs.Leaf = l.Idx
		if cs.D > 8 && !cs.Rec {
			cs.Keep = expectedFrames(l, cs)
		}
		if l.Fatal {
			cs.ID = len(fatal)
			fatal = append(fatal, cs)
		} else {
			cs.ID = len(cases)
			cases = append(cases, cs)
		}
	}
	maxD := 4
	rot := 0
	passes := 1
	if c.Thorough() {
		passes = 3 // every (statement, d, k) with each of the three other-hook configurations and more levels
	}
	for pass := 0; pass < passes; pass++ {
		rot = pass
		for _, l := range leaves {
			r := c.R.Fork()
			for d := 0; d <= maxD; d++ {
				for k := 0; k <= d; k++ {
					if l.Fatal && !(d == 2 && (k == 0 || k == 2)) && !c.Thorough() {
						continue
					}
					rot++
					base := caseT{D: d, G: 2, K: k, Caller: "none", Lvl: c19levels[rot%len(c19levels)], Err: rot%2 == 0}
					others := func(cs *caseT, withAdds int) {
						// other hooks: absent on even rotations, present otherwise; withAdds goes to one hook BEFORE the caller hook
						switch (rot + d + k) % 3 {
						case 0:
						case 1:
							cs.Pre, cs.Post = []int{0}, []int{0}
						default:
							cs.Pre, cs.Post = []int{0, 0}, []int{0, 0, 0}
						}
						if withAdds != 0 {
							cs.Pre = append(cs.Pre, withAdds)
						}
					}
					switch l.Kind {
					case shCaller: // only the global can move it
						cs := base
						cs.G = 2 + k
						others(&cs, 0)
						add(cs, l)
						cs2 := cs // Event.Caller and Context.Caller together: two fields, same frame
						cs2.Caller = "ctx"
						add(cs2, l)
					case shSkipCaller:
						cs := base
						cs.A = k
						others(&cs, 0)
						add(cs, l)
						if k > 0 {
							cs2 := base
							cs2.A = r.Intn(k + 1)
							cs2.G = 2 + k - cs2.A
							others(&cs2, 0)
							add(cs2, l)
						}
					case shCallerArg:
						cs := base
						cs.B = k
						others(&cs, 0)
						add(cs, l)
						if k > 0 {
							cs2 := base
							cs2.B = r.Intn(k + 1)
							cs2.G = 2 + k - cs2.B
							others(&cs2, 0)
							add(cs2, l)
						}
					case shSkipCallerArg:
						for a := 0; a <= k; a++ {
							if a != 0 && a != k && a != 1+r.Intn(k) && !c.Thorough() {
								continue
							}
							cs := base
							cs.A, cs.B = a, k-a
							others(&cs, 0)
							add(cs, l)
						}
						if k > 1 {
							cs := base
							cs.A = r.Intn(k)
							cs.B = r.Intn(k - cs.A)
							cs.G = 2 + k - cs.A - cs.B
							others(&cs, 0)
							add(cs, l)
						}
					case shPlain, shTerminal:
						cs := base
						cs.Caller, cs.G = "ctx", 2+k
						others(&cs, 0)
						add(cs, l)
						cs2 := base
						cs2.Caller, cs2.N = "count", 2+k
						if rot%4 == 0 {
							cs2.G = 3 + r.Intn(3) // CallerWithSkipFrameCount overrides the global
						}
						others(&cs2, 0)
						add(cs2, l)
						if k > 0 { // an earlier hook calls CallerSkipFrame
							cs3 := base
							m := 1 + r.Intn(k)
							if r.Bool() {
								cs3.Caller, cs3.G = "ctx", 2+k-m
							} else {
								cs3.Caller, cs3.N = "count", 2+k-m
							}
							others(&cs3, m)
							add(cs3, l)
						}
					case shSkip:
						cs := base
						cs.Caller, cs.A = "ctx", k
						others(&cs, 0)
						add(cs, l)
						cs2 := base
						cs2.Caller, cs2.N, cs2.A = "count", 2, k
						others(&cs2, 0)
						add(cs2, l)
						if k > 0 {
							cs3 := base
							cs3.A = r.Intn(k + 1)
							rest := k - cs3.A
							m := 0
							if rest > 0 {
								m = r.Intn(rest + 1)
							}
							rest -= m
							if r.Bool() {
								cs3.Caller, cs3.G = "ctx", 2+rest
							} else {
								cs3.Caller, cs3.N = "count", 2+rest
							}
							others(&cs3, m)
							add(cs3, l)
						}
					}
				}
			}
		}

	}
	// ---- sibling sweep: the logger under test is one of several children of the same ancestors.
	// Parents with 0..7 hooks added one call at a time (every fill state of a hook slice that grows
	// by doubling), the child made by With().Caller() or CallerWithSkipFrameCount, with and
	// without a later Hook; then one or two siblings derived from the same parent, from the
	// grandparent or from the child itself (another caller hook with a different count, a plain
	// hook, a hook that skips a frame, two hooks in one call) and used once on their own writer.
	// The child's caller field must still be its user's call site.
	nSib := 0
	{
		byKind := map[leafKind][]leafT{}
		for _, l := range leaves {
			if !l.Fatal {
				byKind[l.Kind] = append(byKind[l.Kind], l)
			}
		}
		sibKinds := []sibT{{Kind: "count", N: 3}, {Kind: "ctx"}, {Kind: "hook", N: 0}, {Kind: "hook", N: 1}, {Kind: "hooks2", N: 1}, {Kind: "count", N: 2}}
		n := 0
		for p := 0; p <= 7; p++ {
			for _, sk := range sibKinds {
				for _, rel := range []int{0, -1, 1} { // sibling of the caller step's parent / grandparent / of the child itself
					for _, first := range []string{"ctx", "count"} {
						for _, post := range []int{0, 1} {
							from := p + rel
							if from < 0 {
								continue
							}
							n++
							d := 2
							k := n % 3
							for _, kind := range []leafKind{shPlain, shTerminal, shSkip, shCaller} {
								ls := byKind[kind]
								if len(ls) == 0 {
									continue
								}
								l := ls[(n*7+int(kind))%len(ls)]
								cs := caseT{D: d, G: 2, K: k, Caller: first, Lvl: c19levels[n%len(c19levels)], Err: n%2 == 0, Pre: make([]int, p)}
								if post == 1 {
									cs.Post = []int{0}
								}
								s1 := sk
								s1.From = from
								cs.Sib = []sibT{s1}
								if n%4 == 0 { // a second sibling from the same ancestor
									s2 := sibKinds[(n/4)%len(sibKinds)]
									s2.From = from
									cs.Sib = append(cs.Sib, s2)
								}
								switch {
								case kind == shSkip:
									cs.A = k
									if first == "count" {
										cs.N = 2
									}
								case first == "ctx" || kind == shCaller:
									cs.G = 2 + k
									if first == "count" {
										cs.N = 2 + k
									}
								default:
									cs.N = 2 + k
								}
								add(cs, l)
								nSib++
							}
						}
					}
				}
			}
		}
	}
	c.Res.ExtraCoverage["sibling_sweep_cases"] = nSib
	c.Res.ExtraCoverage["derivation_sweep_cases"] = deriveSweep(c, leaves, add)
	nDeep, nRec := deepSweep(c, leaves, add)
	c.Res.ExtraCoverage["deep_chain_cases"] = nDeep
	c.Res.ExtraCoverage["deep_recursion_cases"] = nRec
	c.Res.ExtraCoverage["deep_chain_max_depth"] = maxChain
	if c.Replay != "" {
		var rp struct {
			Case struct {
				Plan      caseT  `json:"plan"`
				Statement string `json:"statement"`
			} `json:"case"`
		}
		rpath := c.Replay
		if _, err := os.Stat(rpath); err != nil && !filepath.IsAbs(rpath) {
			rpath = filepath.Join(verifDir, rpath)
		}
		b, err := os.ReadFile(rpath)
		must(err)
		must(json.Unmarshal(b, &rp))
		cases, fatal = nil, nil
		found := false
		for _, l := range leaves {
			if l.Code == rp.Case.Statement {
				add(rp.Case.Plan, l)
				found = true
				break
			}
		}
		if !found {
			fmt.Fprintf(os.Stderr, "C19: replay: statement %q is not in the generated program\n", rp.Case.Statement)
			os.Exit(3)
		}
	}

	// ---- run
	runProg := func(cs []caseT, args ...string) ([]resultT, error) {
		var in bytes.Buffer
		enc := json.NewEncoder(&in)
		for _, x := range cs {
			enc.Encode(x)
		}
		cmd := exec.Command(bin, args...)
		cmd.Stdin = &in
		cmd.Env = env
		var stderr bytes.Buffer
		cmd.Stderr = &stderr
		outb, err := cmd.Output()
		var rs []resultT
		sc := bufio.NewScanner(bytes.NewReader(outb))
		sc.Buffer(make([]byte, 1<<20), 1<<20)
		for sc.Scan() {
			var r resultT
			if e := json.Unmarshal(sc.Bytes(), &r); e != nil {
				return rs, fmt.Errorf("bad output line %q: %v", sc.Text(), e)
			}
			rs = append(rs, r)
		}
		if err != nil {
			return rs, fmt.Errorf("%v: %s", err, stderr.String())
		}
		return rs, nil
	}
	results, err := runProg(cases)
	if err != nil || len(results) != len(cases) {
		fmt.Fprintf(os.Stderr, "C19: the generated program produced %d results for %d cases: %v\n", len(results), len(cases), err)
		os.Exit(3)
	}
	handle := func(cs caseT, r resultT, fatalRun bool) {
		l := leaves[cs.Leaf]
		exp := expectedFrames(l, cs)
		if r.Want == nil && r.WantAt != nil {
			// a deep chain: the program reported the recorded lines of the frames asked for and of those named by a caller field
			r.Want = make([]string, cs.D+2)
			for k, v := range r.WantAt {
				var i int
				if _, err := fmt.Sscanf(k, "%d", &i); err == nil && i >= 0 && i < len(r.Want) {
					r.Want[i] = v
				}
			}
		}
		stmtLine := lineOf[l.Idx]
		jc := map[string]interface{}{"statement": l.Code, "source": fmt.Sprintf("%s:%d", filepath.Join(pdir, "main.go"), stmtLine),
			"wrapper_depth": cs.D, "k": cs.K, "a": cs.A, "b": cs.B, "CallerSkipFrameCount": cs.G, "logger_caller": cs.Caller, "n": cs.N,
			"hooks_before": cs.Pre, "hooks_after": cs.Post, "siblings_derived_later": cs.Sib, "derivation_after_caller": cs.Deriv, "level": cs.Lvl, "err": cs.Err, "own_process": fatalRun,
			"plan": cs, "standalone": standalone(l, cs),
			"how_to_replay": "bin/check C19 --replay <this file>; or by hand: build " + pdir + " (its go.mod points at the repository under test) and feed `plan` as one JSON line on stdin"}
		// wantAt: the recorded file:line of user frame e ("" : outside this run's frames, nothing promised)
		wantAt := func(e int) string {
			if e < 0 || e > cs.D+1 {
				return ""
			}
			if !cs.Rec {
				if e < len(r.Want) {
					return r.Want[e]
				}
				return ""
			}
			if len(r.Want) != 4 {
				return ""
			}
			switch {
			case e <= 1:
				return r.Want[e]
			case e <= cs.D:
				return r.Want[2]
			}
			return r.Want[3]
		}
		// observed user-frame indices
		idx := func(s string) (int, bool) {
			for i, w := range r.Want {
				if w != "" && w == s {
					return i, true
				}
			}
			return -1, false
		}
		var obs []string
		for _, s := range r.Callers {
			if i, ok := idx(s); ok {
				obs = append(obs, fmt.Sprintf("Some %d%%N", i))
			} else {
				obs = append(obs, "None")
			}
		}
		root := l.Fin
		if l.Kind == shTerminal {
			root = l.Entry
		}
		// ---- monitor: the property itself
		if r.Events != 1 {
			c.Violate(Violation{Key: "event-count:" + l.Entry, Monitor: "one-event", Desc: fmt.Sprintf("statement `%s` wrote %d events, want 1", l.Code, r.Events), Case: jc, Observed: r.Raw})
		} else if len(r.Callers) != len(exp) {
			c.Violate(Violation{Key: "caller-field-count:" + root, Monitor: "caller-names-user-frame",
				Desc: fmt.Sprintf("statement `%s`%s: %d caller fields, want %d", l.Code, sibNote(cs), len(r.Callers), len(exp)), Case: jc, Observed: r.Raw, Expected: len(exp)})
		} else {
			for i, e := range exp {
				if wantAt(e) == "" {
					continue // outside the wrappers of this run: nothing promised
				}
				if r.Callers[i] != wantAt(e) {
					where := root
					if l.Kind <= shSkipCallerArg && i == 0 {
						where = "Event.Caller"
					}
					got := "a frame outside the user's chain"
					if j, ok := idx(r.Callers[i]); ok {
						got = fmt.Sprintf("user frame %d", j)
						if cs.Rec && j == 2 {
							got = fmt.Sprintf("one of the user frames 2..%d (the recursive call)", cs.D)
						} else if cs.Rec && j == 3 {
							got = fmt.Sprintf("user frame %d", cs.D+1)
						}
					}
					c.Violate(Violation{Key: "wrong-caller-frame:" + where, Monitor: "caller-names-user-frame",
						Desc: fmt.Sprintf("`%s` (wrapper depth %d, CallerSkipFrameCount=%d, a=%d, b=%d, logger caller=%s n=%d, earlier hooks add %d%s): caller field %d is %s = %s, want user frame %d = %s",
							l.Code, cs.D, cs.G, cs.A, cs.B, cs.Caller, cs.N, sum(cs.Pre), sibNote(cs), i, r.Callers[i], got, e, wantAt(e)),
						Case: jc, Observed: r.Callers, Expected: wantAt(e)})
				}
			}
		}
		// ---- model case
		term := fmt.Sprintf("((%s, %s, %d%%nat, %s), Some %s)", CoqZ(int64(cs.G)), coqHooks(cs, flag), cs.D, coqStmt(l, cs), CoqList(obs))
		if len(r.Want) <= 10 {
			jc["want"] = r.Want
		} else {
			// a deep chain: only the recorded lines that matter (user frame -> file:line)
			w := map[string]string{}
			for _, e := range append([]int{0, 1, cs.D, cs.D + 1}, exp...) {
				if e >= 0 && e < len(r.Want) {
					w[fmt.Sprint(e)] = r.Want[e]
				}
			}
			for _, s := range r.Callers {
				if j, ok := idx(s); ok {
					w[fmt.Sprint(j)] = s
				}
			}
			jc["want_by_user_frame"] = w
		}
		if cs.Rec {
			jc["want_rec"] = "[statement, f(p) line = user frame 1, recursive call line = user frames 2..d, caller of the recursion = user frame d+1]"
		}
		jc["callers"] = r.Callers
		jc["expected_frames"] = exp
		if !fallback && !cs.Rec {
			c.AddCase(term, jc) // (recursion frames share a source line: the observed index is not determined; monitored only)
		}
		key := fmt.Sprintf("%d|%d|%d|%d|%d|%s|%d|%v|%v|%v|%v|%v", l.Idx, cs.D, cs.A, cs.B, cs.G, cs.Caller, cs.N, cs.Pre, cs.Post, cs.Sib, cs.Rec, cs.Deriv)
		c.Count(key, cs.K > 0 || len(cs.Pre)+len(cs.Post) > 0)
		c.Hist("shape", shapeNames[l.Kind])
		if cs.D <= 4 {
			c.Hist("depth_k", fmt.Sprintf("d%d k%d", cs.D, cs.K))
		} else {
			c.Hist("deep_depth", fmt.Sprintf("d%d", cs.D))
			c.Hist("deep_k", fmt.Sprintf("k%d", cs.K))
		}
		c.Hist("other_hooks", fmt.Sprintf("%d", len(cs.Pre)+len(cs.Post)))
		c.Hist("logger_caller", cs.Caller)
		c.Hist("siblings", fmt.Sprint(len(cs.Sib)))
		for _, step := range cs.Deriv {
			c.Hist("derivation_after_caller", step)
		}
		if strings.HasPrefix(l.Entry, "log.") {
			c.Hist("package", "log")
		} else {
			c.Hist("package", "zerolog")
		}
		if cs.K > 0 {
			c.Sample(jc)
		}
	}
	for i, cs := range cases {
		if results[i].ID != cs.ID {
			fmt.Fprintf(os.Stderr, "C19: result %d has id %d\n", i, results[i].ID)
			os.Exit(3)
		}
		handle(cs, results[i], false)
	}
	nf := 0
	for _, cs := range fatal {
		rs, _ := runProg([]caseT{cs}, "-fatal") // exit status 1 is what Fatal does
		if len(rs) != 1 {
			l := leaves[cs.Leaf]
			c.Violate(Violation{Key: "event-count:" + l.Entry, Monitor: "one-event", Desc: fmt.Sprintf("statement `%s` (own process) wrote %d events, want 1", l.Code, len(rs)),
				Case: map[string]interface{}{"statement": l.Code, "wrapper_depth": cs.D}})
			continue
		}
		handle(cs, rs[0], true)
		nf++
	}
	c.Res.ExtraCoverage["source_lines"] = len(leaves)
	c.Res.ExtraCoverage["fatal_cases_own_process"] = nf
	c.Res.ExtraCoverage["table"] = map[string]int{"paths": len(tab.Paths), "entries": len(tab.Entries), "finalizers": len(tab.Finalizers), "terminals": len(tab.Terminals)}
	c.Res.ExtraCoverage["program"] = filepath.Join(pdir, "main.go")
	c.Res.ExtraCoverage["compiler_settings"] = "default (inlining and optimisation on)"
	c.Res.Exhaustive = false
	c.Note("CallerWithSkipFrameCount(-1): context.go documents -1 as 'use the global'; the code tests for math.MinInt32 - outside the property, see Example C19_ex_minus_one_names_zerolog")
}

func must(err error) {
	if err != nil {
		panic(err)
	}
}
