package chains

import (
	"fmt"
	"go/ast"
	"go/constant"
	"go/token"
	"go/types"
	"sort"
	"strings"
)

// hop: one way to continue a chain from inside a function body
type hop struct {
	call  *ast.CallExpr
	t     *target
	st    state
	vars  map[types.Object]symval
	loopX ast.Expr // the range expression when the call is inside a range loop
}

// walker walks one function body in continuation-passing style: every path through the
// recognised control structures is followed separately, with its own state and variable values.
type walker struct {
	x      *extractor
	f      *fn
	isRoot bool
	hops   []hop
	err    error
}

type vmap = map[types.Object]symval

func (w *walker) env(vars vmap) *frameEnv { return &frameEnv{f: w.f, vars: vars, isRoot: w.isRoot} }

func (w *walker) fail(n ast.Node, format string, a ...interface{}) {
	if w.err == nil {
		w.err = fmt.Errorf("%s: in %s: %s", w.x.pos(n.Pos()), w.f.name, fmt.Sprintf(format, a...))
	}
}

// relevant: a call that continues towards runtime.Caller
func (w *walker) relevant(call *ast.CallExpr) *target {
	t := w.x.resolve(w.f.pi, call)
	if t == nil {
		return nil
	}
	if t.runtimeCaller {
		return t
	}
	var keep []*fn
	for _, g := range t.fns {
		if w.x.reaches(g) {
			keep = append(keep, g)
		}
	}
	if len(keep) == 0 {
		return nil
	}
	return &target{fns: keep, dynamic: t.dynamic}
}

func (w *walker) containsRelevant(n ast.Node) bool {
	if n == nil {
		return false
	}
	found := false
	ast.Inspect(n, func(m ast.Node) bool {
		if found || m == nil {
			return false
		}
		if c, ok := m.(*ast.CallExpr); ok && w.relevant(c) != nil {
			found = true
		}
		return !found
	})
	return found
}

func containsReturn(n ast.Node) bool {
	if n == nil {
		return false
	}
	found := false
	ast.Inspect(n, func(m ast.Node) bool {
		if _, ok := m.(*ast.FuncLit); ok {
			return false
		}
		if _, ok := m.(*ast.ReturnStmt); ok {
			found = true
		}
		return !found
	})
	return found
}

// skipFrameCall: is call `<event>.CallerSkipFrame(k)`? returns the literal k
func (x *extractor) skipFrameCall(f *fn, vars vmap, call *ast.CallExpr) (int64, bool, error) {
	sel, ok := call.Fun.(*ast.SelectorExpr)
	if !ok || sel.Sel.Name != "CallerSkipFrame" {
		return 0, false, nil
	}
	s := f.pi.info.Selections[sel]
	if s == nil {
		return 0, false, nil
	}
	if n, _ := recvTypeName(s.Recv()); n != "Event" {
		return 0, false, nil
	}
	if len(call.Args) != 1 {
		return 0, true, fmt.Errorf("%s: CallerSkipFrame with %d arguments", x.pos(call.Pos()), len(call.Args))
	}
	sv := x.evalInt(&frameEnv{f: f, vars: vars}, call.Args[0])
	if !sv.ok || len(sv.atoms) != 1 || sv.atoms[0].Kind != "lit" {
		return 0, true, fmt.Errorf("%s: in %s: the argument of CallerSkipFrame is not an integer literal", x.pos(call.Pos()), f.name)
	}
	return sv.atoms[0].Val, true, nil
}

func returnsEvent(f *fn) bool {
	sig := f.obj.Type().(*types.Signature)
	if sig.Results().Len() != 1 {
		return false
	}
	n, ptr := recvTypeName(sig.Results().At(0).Type())
	return ptr && n == "Event"
}

// entrySf: CallerSkipFrame literals applied inside g and the event-returning functions it calls
// (static calls only, flow-insensitive: every occurrence counts).
func (x *extractor) entrySf(g *fn, seen map[*fn]bool) ([]int64, error) {
	if seen[g] {
		return nil, nil
	}
	seen[g] = true
	var out []int64
	var err error
	ast.Inspect(g.decl.Body, func(n ast.Node) bool {
		if err != nil {
			return false
		}
		call, ok := n.(*ast.CallExpr)
		if !ok {
			return true
		}
		if k, is, e := x.skipFrameCall(g, vmap{}, call); is {
			if e != nil {
				err = e
				return false
			}
			out = append(out, k)
			return true
		}
		if t := x.resolve(g.pi, call); t != nil && !t.runtimeCaller && !t.dynamic {
			for _, h := range t.fns {
				if returnsEvent(h) {
					more, e := x.entrySf(h, seen)
					if e != nil {
						err = e
						return false
					}
					out = append(out, more...)
				}
			}
		}
		return true
	})
	return out, err
}

// expr evaluates the sub-expressions of e in Go's order. Every relevant call becomes a hop taken with the
// state reached so far; Event.CallerSkipFrame calls and event-returning callees add to st.sf.
func (w *walker) expr(e ast.Node, st *state, vars vmap, loopX ast.Expr) {
	if e == nil || w.err != nil {
		return
	}
	switch v := e.(type) {
	case *ast.FuncLit:
		if w.containsRelevant(v.Body) {
			w.fail(v, "a function literal lies on a path to runtime.Caller (unrecognised shape)")
		}
		return
	case *ast.CallExpr:
		// function/receiver expression first, then the arguments, then the call itself
		w.expr(v.Fun, st, vars, loopX)
		for _, a := range v.Args {
			w.expr(a, st, vars, loopX)
		}
		if k, is, err := w.x.skipFrameCall(w.f, vars, v); is {
			if err != nil {
				w.err = err
				return
			}
			st.sf = append(st.sf, k)
			return
		}
		if t := w.relevant(v); t != nil {
			w.hops = append(w.hops, hop{call: v, t: t, st: st.clone(), vars: cloneVars(vars), loopX: loopX})
			return
		}
		if t := w.x.resolve(w.f.pi, v); t != nil && !t.dynamic {
			for _, g := range t.fns {
				if returnsEvent(g) {
					more, err := w.x.entrySf(g, map[*fn]bool{})
					if err != nil {
						w.err = err
						return
					}
					st.sf = append(st.sf, more...)
				}
			}
		}
		return
	case *ast.SelectorExpr:
		w.expr(v.X, st, vars, loopX)
		return
	case *ast.Ident, *ast.BasicLit:
		return
	}
	// generic: direct sub-expressions in source order
	ast.Inspect(e, func(n ast.Node) bool {
		if n == nil || n == e {
			return true
		}
		if ex, ok := n.(ast.Expr); ok {
			w.expr(ex, st, vars, loopX)
			return false
		}
		return true
	})
}

// condOf: a structured condition, or a guard (nil test / e.Enabled()), or neither
func (w *walker) condOf(e ast.Expr) (c *Cond, guard bool) {
	pi := w.f.pi
	switch v := e.(type) {
	case *ast.ParenExpr:
		return w.condOf(v.X)
	case *ast.BinaryExpr:
		if v.Op == token.EQL || v.Op == token.NEQ {
			if id, ok := v.Y.(*ast.Ident); ok && id.Name == "nil" {
				return nil, true
			}
			if id, ok := v.X.(*ast.Ident); ok && id.Name == "nil" {
				return nil, true
			}
		}
		if v.Op == token.GTR {
			if call, ok := v.X.(*ast.CallExpr); ok && len(call.Args) == 1 {
				if f, ok := call.Fun.(*ast.Ident); ok && f.Name == "len" {
					if _, isB := pi.info.Uses[f].(*types.Builtin); isB {
						if a, ok := call.Args[0].(*ast.Ident); ok {
							if ob, ok := pi.info.Uses[a].(*types.Var); ok && isParamOf(w.f, ob) {
								if tv, ok := pi.info.Types[v.Y]; ok && tv.Value != nil && constant.Sign(tv.Value) == 0 {
									return &Cond{Kind: "arglen", Name: a.Name, Holds: true}, false
								}
							}
						}
					}
				}
			}
		}
	case *ast.CallExpr:
		if sel, ok := v.Fun.(*ast.SelectorExpr); ok && sel.Sel.Name == "Enabled" && len(v.Args) == 0 {
			if s := pi.info.Selections[sel]; s != nil {
				if n, _ := recvTypeName(s.Recv()); n == "Event" {
					return nil, true
				}
			}
		}
	}
	return nil, false
}

func (w *walker) assign(vars vmap, lhs ast.Expr, rhs ast.Expr, define bool) {
	id, ok := lhs.(*ast.Ident)
	if !ok || id.Name == "_" {
		return
	}
	pi := w.f.pi
	ob := pi.info.Uses[id]
	if define && pi.info.Defs[id] != nil {
		ob = pi.info.Defs[id]
	}
	if ob == nil {
		return
	}
	if b, ok := ob.Type().Underlying().(*types.Basic); !ok || b.Info()&types.IsInteger == 0 {
		return
	}
	vars[ob] = w.x.evalInt(w.env(vars), rhs) // may be !ok: an error only if used in a skip expression
}

type cont func(st state, vars vmap)

// seq walks list[i:] and calls k for every path on which control reaches the end of the list.
func (w *walker) seq(list []ast.Stmt, i int, st state, vars vmap, loopX ast.Expr, k cont) {
	if w.err != nil {
		return
	}
	if i >= len(list) {
		k(st, vars)
		return
	}
	next := func(st state, vars vmap) { w.seq(list, i+1, st, vars, loopX, k) }
	s := list[i]
	switch v := s.(type) {
	case *ast.BlockStmt:
		w.seq(v.List, 0, st, vars, loopX, next)
		return
	case *ast.ExprStmt:
		w.expr(v.X, &st, vars, loopX)
	case *ast.IncDecStmt:
		if id, ok := v.X.(*ast.Ident); ok {
			if ob := w.f.pi.info.Uses[id]; ob != nil {
				vars[ob] = symval{why: fmt.Sprintf("%s: %s changed by ++/--", w.x.pos(v.Pos()), id.Name)}
			}
		}
	case *ast.AssignStmt:
		for _, r := range v.Rhs {
			w.expr(r, &st, vars, loopX)
		}
		if len(v.Lhs) == len(v.Rhs) && (v.Tok == token.DEFINE || v.Tok == token.ASSIGN) {
			for j := range v.Lhs {
				w.assign(vars, v.Lhs[j], v.Rhs[j], v.Tok == token.DEFINE)
			}
		} else {
			for _, l := range v.Lhs {
				if id, ok := l.(*ast.Ident); ok {
					if ob := w.f.pi.info.Uses[id]; ob != nil {
						vars[ob] = symval{why: fmt.Sprintf("%s: %s assigned by an unsupported statement", w.x.pos(v.Pos()), id.Name)}
					}
				}
			}
		}
	case *ast.ReturnStmt:
		for _, r := range v.Results {
			w.expr(r, &st, vars, loopX)
		}
		return // control leaves the function
	case *ast.IfStmt:
		body := func(st state, vars vmap) {
			w.expr(v.Cond, &st, vars, loopX)
			c, guard := w.condOf(v.Cond)
			inside := w.containsRelevant(v.Body) || w.containsRelevant(v.Else)
			leaves := containsReturn(v.Body) || containsReturn(v.Else)
			if !inside && !leaves {
				// side computation: any integer variable assigned in an arm becomes unknown afterwards
				// unless the condition is structured (then we fork below)
				if c == nil {
					for _, ob := range assignedIn(w.f.pi, v.Body, v.Else) {
						vars[ob] = symval{why: fmt.Sprintf("%s: value depends on a condition that is not modelled", w.x.pos(v.Pos()))}
					}
					next(st, vars)
					return
				}
			}
			if c == nil && !guard {
				if inside {
					w.fail(v, "the next call towards runtime.Caller is under a condition that is not modelled")
					return
				}
				// an early return under an unmodelled condition: an error only if a relevant call follows
				for j := i + 1; j < len(list); j++ {
					if w.containsRelevant(list[j]) {
						w.fail(v, "early return under a condition that is not modelled, before a call towards runtime.Caller")
						return
					}
				}
				next(st, vars)
				return
			}
			sThen, sElse := st.clone(), st.clone()
			if c != nil {
				sThen.conds = append(sThen.conds, *c)
				nc := *c
				nc.Holds = !nc.Holds
				sElse.conds = append(sElse.conds, nc)
			}
			if guard && !inside {
				// `if x == nil { return }`-like: only the arm that does not leave continues; both arms are
				// walked, the one that returns simply never reaches `next`
			}
			w.seq(v.Body.List, 0, sThen, cloneVars(vars), loopX, next)
			if v.Else != nil {
				w.seq([]ast.Stmt{v.Else}, 0, sElse, cloneVars(vars), loopX, next)
			} else {
				next(sElse, cloneVars(vars))
			}
		}
		if v.Init != nil {
			w.seq([]ast.Stmt{v.Init}, 0, st, vars, loopX, body)
		} else {
			body(st, vars)
		}
		return
	case *ast.SwitchStmt:
		if !w.containsRelevant(v.Body) {
			if containsReturn(v.Body) {
				for j := i + 1; j < len(list); j++ {
					if w.containsRelevant(list[j]) {
						w.fail(v, "switch with a return before a call towards runtime.Caller")
						return
					}
				}
			}
			for _, ob := range assignedIn(w.f.pi, v.Body, nil) {
				vars[ob] = symval{why: fmt.Sprintf("%s: value depends on a switch that is not modelled", w.x.pos(v.Pos()))}
			}
			break
		}
		if v.Init != nil || v.Tag == nil {
			w.fail(v, "switch with init statement or without tag on a path to runtime.Caller")
			return
		}
		sel, ok := v.Tag.(*ast.SelectorExpr)
		var fname string
		if ok {
			fname, ok = w.x.fieldName(w.f.pi, sel)
		}
		if !ok {
			w.fail(v, "switch tag on a path to runtime.Caller is not a field")
			return
		}
		var pos *Cond
		var deflt *ast.CaseClause
		var clauses []*ast.CaseClause
		for _, cs := range v.Body.List {
			cc := cs.(*ast.CaseClause)
			if cc.List == nil {
				deflt = cc
				continue
			}
			if len(cc.List) != 1 || pos != nil {
				w.fail(cc, "only `switch f { case CONST: ...; default: ... }` is modelled")
				return
			}
			sv := w.x.evalInt(w.env(vars), cc.List[0])
			if !sv.ok || len(sv.atoms) != 1 || sv.atoms[0].Kind != "const" {
				w.fail(cc, "case value is not a package constant")
				return
			}
			pos = &Cond{Kind: "fieldis", Name: fname, Const: sv.atoms[0].Name, Val: sv.atoms[0].Val, Holds: true}
			clauses = append(clauses, cc)
		}
		if pos == nil {
			w.fail(v, "switch without a constant case")
			return
		}
		s1 := st.clone()
		s1.conds = append(s1.conds, *pos)
		w.seq(clauses[0].Body, 0, s1, cloneVars(vars), loopX, next)
		s2 := st.clone()
		neg := *pos
		neg.Holds = false
		s2.conds = append(s2.conds, neg)
		if deflt != nil {
			w.seq(deflt.Body, 0, s2, cloneVars(vars), loopX, next)
		} else {
			next(s2, cloneVars(vars))
		}
		return
	case *ast.RangeStmt:
		w.expr(v.X, &st, vars, loopX)
		// the body is visited once; what it does to the state is not carried past the loop
		w.seq(v.Body.List, 0, st.clone(), cloneVars(vars), v.X, func(state, vmap) {})
		for _, ob := range assignedIn(w.f.pi, v.Body, nil) {
			vars[ob] = symval{why: fmt.Sprintf("%s: assigned in a loop", w.x.pos(v.Pos()))}
		}
	case *ast.DeclStmt:
		if gd, ok := v.Decl.(*ast.GenDecl); ok {
			for _, sp := range gd.Specs {
				if vs, ok := sp.(*ast.ValueSpec); ok {
					for j, id := range vs.Names {
						if j < len(vs.Values) {
							w.expr(vs.Values[j], &st, vars, loopX)
							w.assign(vars, id, vs.Values[j], true)
						}
					}
				}
			}
		}
	default:
		// for, defer, go, select, type switch, labeled, ...: fine as long as nothing relevant is inside
		if w.containsRelevant(s) {
			w.fail(s, "statement shape %T on a path to runtime.Caller is not recognised", s)
			return
		}
		for _, ob := range assignedIn(w.f.pi, s, nil) {
			vars[ob] = symval{why: fmt.Sprintf("%s: assigned inside %T", w.x.pos(s.Pos()), s)}
		}
	}
	next(st, vars)
}

// assignedIn: integer variables assigned anywhere inside the nodes
func assignedIn(pi *pkgInfo, a ast.Node, b ast.Node) []types.Object {
	var out []types.Object
	for _, n := range []ast.Node{a, b} {
		if n == nil || isNilNode(n) {
			continue
		}
		ast.Inspect(n, func(m ast.Node) bool {
			switch v := m.(type) {
			case *ast.AssignStmt:
				for _, l := range v.Lhs {
					if id, ok := l.(*ast.Ident); ok {
						if ob := pi.info.Uses[id]; ob != nil {
							out = append(out, ob)
						}
					}
				}
			case *ast.IncDecStmt:
				if id, ok := v.X.(*ast.Ident); ok {
					if ob := pi.info.Uses[id]; ob != nil {
						out = append(out, ob)
					}
				}
			}
			return true
		})
	}
	return out
}

func isNilNode(n ast.Node) bool {
	switch v := n.(type) {
	case *ast.BlockStmt:
		return v == nil
	case ast.Stmt:
		return v == nil
	}
	return false
}

// ---------------------------------------------------------------- path enumeration

// explore follows every chain from f (entered with the given state) to runtime.Caller.
// args: symbolic values of f's parameters (nil for the root: its parameters are user arguments).
func (x *extractor) explore(root string, f *fn, st state, args vmap, isRoot bool, onStack map[*fn]bool) error {
	if onStack[f] {
		return fmt.Errorf("recursion through %s on a path to runtime.Caller", f.name)
	}
	onStack[f] = true
	defer delete(onStack, f)
	w := &walker{x: x, f: f, isRoot: isRoot}
	vars := vmap{}
	for k, v := range args {
		vars[k] = v
	}
	st.frames = append(st.frames, f.name)
	w.seq(f.decl.Body.List, 0, st, vars, nil, func(state, vmap) {})
	if w.err != nil {
		return w.err
	}
	for _, h := range w.hops {
		hs := h.st.clone()
		hs.sites = append(hs.sites, x.pos(h.call.Pos()))
		for _, c := range hs.conds {
			if c.Kind != "arglen" && c.Kind != "fieldis" {
				return fmt.Errorf("%s: unmodelled condition %s before a call towards runtime.Caller", x.pos(h.call.Pos()), c.Name)
			}
		}
		if h.t.runtimeCaller {
			if len(h.call.Args) != 1 {
				return fmt.Errorf("%s: runtime.Caller with %d arguments", x.pos(h.call.Pos()), len(h.call.Args))
			}
			sv := x.evalInt(&frameEnv{f: f, vars: h.vars, isRoot: isRoot}, h.call.Args[0])
			if !sv.ok {
				return fmt.Errorf("the argument of runtime.Caller is not understood: %s", sv.why)
			}
			x.tab.Paths = append(x.tab.Paths, Path{Root: root, Frames: hs.frames, Sites: hs.sites, ViaHook: hs.viaHook,
				Conds: hs.conds, Skip: sv.atoms, SfDelta: hs.sf})
			continue
		}
		if h.t.dynamic {
			// only the hook loop is a recognised dynamic call: `for _, h := range <event>.ch { h.Run(...) }`
			okLoop := false
			if sel, ok := h.loopX.(*ast.SelectorExpr); ok {
				if fnm, ok := x.fieldName(f.pi, sel); ok && fnm == "Event.ch" {
					okLoop = true
				}
			}
			if !okLoop {
				return fmt.Errorf("%s: in %s: interface call towards runtime.Caller outside the hook loop over Event.ch", x.pos(h.call.Pos()), f.name)
			}
			hs.viaHook = true
		}
		for _, g := range h.t.fns {
			// bind g's parameters to the symbolic values of the arguments
			sig := g.obj.Type().(*types.Signature)
			gargs := vmap{}
			env := &frameEnv{f: f, vars: h.vars, isRoot: isRoot}
			for i := 0; i < sig.Params().Len() && i < len(h.call.Args); i++ {
				p := sig.Params().At(i)
				if sig.Variadic() && i == sig.Params().Len()-1 {
					break
				}
				if b, ok := p.Type().Underlying().(*types.Basic); ok && b.Info()&types.IsInteger != 0 {
					gargs[p] = x.evalInt(env, h.call.Args[i])
				}
			}
			if err := x.explore(root, g, hs.clone(), gargs, false, onStack); err != nil {
				return err
			}
		}
	}
	return nil
}

// ---------------------------------------------------------------- API surface

func typeString(pi *pkgInfo, e ast.Expr) string {
	switch v := e.(type) {
	case *ast.Ident:
		return v.Name
	case *ast.StarExpr:
		return "*" + typeString(pi, v.X)
	case *ast.SelectorExpr:
		return typeString(pi, v.X) + "." + v.Sel.Name
	case *ast.ArrayType:
		if v.Len == nil {
			return "[]" + typeString(pi, v.Elt)
		}
	case *ast.Ellipsis:
		return "..." + typeString(pi, v.Elt)
	case *ast.InterfaceType:
		if v.Methods == nil || len(v.Methods.List) == 0 {
			return "interface{}"
		}
	case *ast.FuncType:
		var ps, rs []string
		if v.Params != nil {
			for _, p := range v.Params.List {
				n := len(p.Names)
				if n == 0 {
					n = 1
				}
				for i := 0; i < n; i++ {
					ps = append(ps, typeString(pi, p.Type))
				}
			}
		}
		if v.Results != nil {
			for _, p := range v.Results.List {
				rs = append(rs, typeString(pi, p.Type))
			}
		}
		s := "func(" + strings.Join(ps, ", ") + ")"
		if len(rs) == 1 {
			s += " " + rs[0]
		} else if len(rs) > 1 {
			s += " (" + strings.Join(rs, ", ") + ")"
		}
		return s
	}
	return "?"
}

func (x *extractor) describe(f *fn) Func {
	d := Func{Name: f.name, Pkg: f.pi.name}
	if f.decl.Recv != nil && len(f.decl.Recv.List) == 1 {
		d.Recv = typeString(f.pi, f.decl.Recv.List[0].Type)
	}
	for _, p := range f.decl.Type.Params.List {
		n := len(p.Names)
		if n == 0 {
			n = 1
		}
		for i := 0; i < n; i++ {
			d.Params = append(d.Params, typeString(f.pi, p.Type))
		}
		if _, ok := p.Type.(*ast.Ellipsis); ok {
			d.Variadic = true
		}
	}
	return d
}

// createsEvent: does g reach the unexported constructor newEvent of package zerolog (static calls)?
func (x *extractor) createsEvent(g *fn, seen map[*fn]bool) bool {
	if seen[g] {
		return false
	}
	seen[g] = true
	if g.pi == x.zl && g.name == "newEvent" {
		return true
	}
	res := false
	ast.Inspect(g.decl.Body, func(n ast.Node) bool {
		if res {
			return false
		}
		if call, ok := n.(*ast.CallExpr); ok {
			if t := x.resolve(g.pi, call); t != nil && !t.runtimeCaller && !t.dynamic {
				for _, h := range t.fns {
					if x.createsEvent(h, seen) {
						res = true
					}
				}
			}
		}
		return !res
	})
	return res
}

func (x *extractor) sortedFuncs() []*fn {
	var fs []*fn
	for _, f := range x.funcs {
		fs = append(fs, f)
	}
	sort.Slice(fs, func(i, j int) bool {
		if fs[i].pi != fs[j].pi {
			return fs[i].pi == x.zl
		}
		return fs[i].decl.Pos() < fs[j].decl.Pos()
	})
	return fs
}

func (x *extractor) hookCtors() error {
	// newCallerHook must be the identity on its parameter: return callerHook{callerSkipFrameCount: p}
	var nch *fn
	for _, f := range x.funcs {
		if f.pi == x.zl && f.name == "newCallerHook" {
			nch = f
		}
	}
	if nch == nil {
		return fmt.Errorf("function newCallerHook not found (unrecognised shape of the caller hook)")
	}
	okShape := false
	if len(nch.decl.Body.List) == 1 {
		if rs, ok := nch.decl.Body.List[0].(*ast.ReturnStmt); ok && len(rs.Results) == 1 {
			if cl, ok := rs.Results[0].(*ast.CompositeLit); ok && len(cl.Elts) == 1 {
				if kv, ok := cl.Elts[0].(*ast.KeyValueExpr); ok {
					k, _ := kv.Key.(*ast.Ident)
					v, _ := kv.Value.(*ast.Ident)
					if k != nil && v != nil && k.Name == "callerSkipFrameCount" && len(nch.decl.Type.Params.List) == 1 &&
						len(nch.decl.Type.Params.List[0].Names) == 1 && nch.decl.Type.Params.List[0].Names[0].Name == v.Name {
						okShape = true
					}
				}
			}
		}
	}
	if !okShape {
		return fmt.Errorf("%s: newCallerHook is not `return callerHook{callerSkipFrameCount: p}`", x.pos(nch.decl.Pos()))
	}
	// argKind: what is passed to newCallerHook
	argKind := func(f *fn, e ast.Expr) (string, error) {
		id, ok := e.(*ast.Ident)
		if !ok {
			return "", fmt.Errorf("%s: argument of newCallerHook not understood", x.pos(e.Pos()))
		}
		switch ob := f.pi.info.Uses[id].(type) {
		case *types.Const:
			v, ok := x.constValue(f.pi, ob)
			if !ok {
				return "", fmt.Errorf("%s: constant %s has no known value", x.pos(e.Pos()), id.Name)
			}
			x.tab.Consts[id.Name] = v
			x.tab.ConstSites[id.Name] = x.pos(ob.Pos())
			return "flag:" + id.Name, nil
		case *types.Var:
			if isParamOf(f, ob) {
				return "param", nil
			}
		}
		return "", fmt.Errorf("%s: argument of newCallerHook not understood", x.pos(e.Pos()))
	}
	hookArg := func(f *fn, e ast.Expr) (string, error) {
		switch v := e.(type) {
		case *ast.CallExpr:
			if t := x.resolve(f.pi, v); t != nil && len(t.fns) == 1 && t.fns[0] == nch && len(v.Args) == 1 {
				return argKind(f, v.Args[0])
			}
		case *ast.Ident:
			if ob, ok := f.pi.info.Uses[v].(*types.Var); ok && ob.Parent() == ob.Pkg().Scope() {
				// package variable: find its initialiser
				for _, file := range x.zl.files {
					for _, d := range file.Decls {
						gd, ok := d.(*ast.GenDecl)
						if !ok || gd.Tok != token.VAR {
							continue
						}
						for _, sp := range gd.Specs {
							vs := sp.(*ast.ValueSpec)
							for i, id := range vs.Names {
								if x.zl.info.Defs[id] == types.Object(ob) && i < len(vs.Values) {
									if call, ok := vs.Values[i].(*ast.CallExpr); ok && len(call.Args) == 1 {
										if t := x.resolve(x.zl, call); t != nil && len(t.fns) == 1 && t.fns[0] == nch {
											// evaluated at package level: parameters do not exist there
											return argKind(&fn{obj: nch.obj, decl: nch.decl, pi: x.zl, name: "package init"}, call.Args[0])
										}
									}
								}
							}
						}
					}
				}
			}
		}
		return "", fmt.Errorf("%s: hook passed to Logger.Hook is not a caller hook built by newCallerHook", x.pos(e.Pos()))
	}
	for _, f := range x.sortedFuncs() {
		if f.pi != x.zl || !strings.HasPrefix(f.name, "Context.") || !f.obj.Exported() {
			continue
		}
		// look for <x>.Hook(arg) where arg is a caller hook
		var found []ast.Expr
		ast.Inspect(f.decl.Body, func(n ast.Node) bool {
			call, ok := n.(*ast.CallExpr)
			if !ok {
				return true
			}
			if t := x.resolve(f.pi, call); t != nil && len(t.fns) == 1 && t.fns[0].name == "Logger.Hook" {
				found = append(found, call.Args...)
			}
			return true
		})
		for _, a := range found {
			tv, ok := f.pi.info.Types[a]
			isCallerHook := false
			if ok && tv.Type != nil {
				if n, _ := recvTypeName(tv.Type); n == "callerHook" {
					isCallerHook = true
				}
			}
			if !isCallerHook {
				continue
			}
			k, err := hookArg(f, a)
			if err != nil {
				return err
			}
			hc := HookCtor{Name: f.name, Site: x.pos(a.Pos())}
			if strings.HasPrefix(k, "flag:") {
				hc.Field = k
			} else {
				hc.Field = "param"
			}
			x.tab.HookCtors = append(x.tab.HookCtors, hc)
		}
	}
	return nil
}

func (x *extractor) newEventReset() {
	for _, f := range x.funcs {
		if f.pi != x.zl || f.name != "newEvent" {
			continue
		}
		ast.Inspect(f.decl.Body, func(n ast.Node) bool {
			as, ok := n.(*ast.AssignStmt)
			if !ok || as.Tok != token.ASSIGN || len(as.Lhs) != 1 || len(as.Rhs) != 1 {
				return true
			}
			sel, ok := as.Lhs[0].(*ast.SelectorExpr)
			if !ok {
				return true
			}
			// (the pooled event comes out of a sync.Pool, a stubbed import: its type may be unknown to go/types,
			// so the field is also accepted by name - newEvent handles exactly one event)
			if fnm, ok := x.fieldName(f.pi, sel); (ok && fnm == "Event.skipFrame") || (!ok && sel.Sel.Name == "skipFrame") {
				if tv, ok := f.pi.info.Types[as.Rhs[0]]; ok && tv.Value != nil && constant.Sign(tv.Value) == 0 {
					x.tab.NewEventResetsSkipFrame = true
					x.tab.NewEventSite = x.pos(as.Pos())
				}
			}
			return true
		})
	}
}
