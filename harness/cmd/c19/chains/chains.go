// Package chains extracts, from the working tree of rs/zerolog, everything the
// C19 model ("caller field names the user's call site") needs to know about
// the code: the skip constants, and for every function a user can call while
// caller reporting is on, the static chain of zerolog functions between that
// call and runtime.Caller together with the symbolic argument of runtime.Caller.
//
// Standard library only (go/parser, go/ast, go/types with a stub importer).
// The extractor recognises a fixed set of statement shapes (listed at Shapes
// below); anything else on a path to runtime.Caller is an error - it never
// guesses.
//
// Shapes.
//   - calls are resolved with go/types: static functions and methods by their
//     object, an interface method call (the hook loop `hook.Run`) to the
//     UNEXPORTED types of the package that implement the interface (exported
//     adaptors such as HookFunc/LevelHook only forward to hooks supplied by the
//     user, which are "other hooks" in the property, not part of the table);
//   - on the way to the next call of a chain: assignments `x := e` / `x = e` of
//     integer expressions, `if c {..} [else {..}]`, `switch tag { case k: .. default: .. }`,
//     `for`/`range` (body visited once), return/expression statements;
//     func literals, defer and go on a path are rejected;
//   - conditions that select a path: `len(p) > 0` for a variadic parameter p,
//     a switch on a receiver field against a package constant; nil tests and
//     `e.Enabled()` are guards (an emitted event passed them) and are dropped;
//     any other condition around the next call is rejected;
//   - integer expressions: literals, +, parentheses, parameters, locals,
//     package constants and variables, receiver/parameter fields `x.f`, `p[i]`
//     for a variadic parameter of the root.
package chains

import (
	"fmt"
	"go/ast"
	"go/build"
	"go/constant"
	"go/parser"
	"go/token"
	"go/types"
	"os"
	"path/filepath"
	"sort"
	"strconv"
	"strings"
)

const ZerologPath = "github.com/rs/zerolog"

// Atom is one summand of a skip expression.
type Atom struct {
	Kind string // lit | const | var | arg | field
	Name string // const/var: identifier; arg: parameter name; field: Type.field
	Val  int64  // lit: value; const: value; var: initial value; arg: index
}

// Cond is a structured path condition.
type Cond struct {
	Kind  string // arglen | fieldis
	Name  string // arglen: parameter; fieldis: Type.field
	Const string // fieldis: constant name
	Val   int64  // fieldis: constant value
	Holds bool   // arglen: len(p) > 0 is Holds; fieldis: field == const is Holds
}

// Path is one static chain from a function the user calls to runtime.Caller.
type Path struct {
	Root    string   // "Event.Caller", "Event.Msg", "Logger.Print", "log.Printf", ...
	Frames  []string // zerolog functions on the stack, outermost first; the last one calls runtime.Caller
	Sites   []string // file:line of the call made by each frame (to the next frame / to runtime.Caller)
	ViaHook bool     // the chain goes through the hook loop (interface call on an element of Event.ch)
	Conds   []Cond
	Skip    []Atom  // the argument of runtime.Caller as a sum
	SfDelta []int64 // arguments of Event.CallerSkipFrame executed by zerolog code on this path before runtime.Caller
}

// Func describes a function of the API surface (for the driver's program generator).
type Func struct {
	Name     string   // "Logger.Info", "log.Info", "Event.Msg", ...
	Pkg      string   // "zerolog" | "log"
	Recv     string   // "", "Logger", "*Logger", "*Event"
	Params   []string // Go types as written in the source, package-local names unqualified
	Variadic bool
	SfDelta  []int64 // entries only: CallerSkipFrame arguments the entry applies to the event it returns
}

// HookCtor: a Context method that installs the caller hook.
type HookCtor struct {
	Name  string // "Context.Caller", "Context.CallerWithSkipFrameCount"
	Field string // "flag" (the useGlobalSkipFrameCount constant) | "param" (its int parameter)
	Site  string
}

type Table struct {
	Consts                  map[string]int64  // CallerSkipFrameCount (initial value), contextCallerSkipFrameCount, flag constants
	ConstSites              map[string]string // where they were read
	NewEventResetsSkipFrame bool
	NewEventSite            string
	Paths                   []Path
	Entries                 []Func // exported functions returning *Event that create a new event
	Finalizers              []Func // exported *Event methods whose chain goes through the hook loop
	Terminals               []Func // exported non-Event roots (Print family, Write, package log Print*)
	Direct                  []Func // exported *Event methods calling runtime.Caller without the hook loop (Event.Caller)
	HookCtors               []HookCtor
	Files                   []string
	NotRoots                []string
}

// ---------------------------------------------------------------- loading

type pkgInfo struct {
	name  string // "zerolog" / "log"
	dir   string
	fset  *token.FileSet
	files []*ast.File
	info  *types.Info
	pkg   *types.Package
}

type stubImporter struct{ known map[string]*types.Package }

func (s stubImporter) Import(path string) (*types.Package, error) {
	if p, ok := s.known[path]; ok {
		return p, nil
	}
	name := path[strings.LastIndex(path, "/")+1:]
	p := types.NewPackage(path, name)
	p.MarkComplete()
	s.known[path] = p
	return p, nil
}

func loadPkg(fset *token.FileSet, dir, importPath string, imp stubImporter) (*pkgInfo, error) {
	ents, err := os.ReadDir(dir)
	if err != nil {
		return nil, err
	}
	bctx := build.Default
	bctx.CgoEnabled = false
	bctx.BuildTags = nil
	pi := &pkgInfo{dir: dir, fset: fset}
	for _, e := range ents {
		n := e.Name()
		if e.IsDir() || !strings.HasSuffix(n, ".go") || strings.HasSuffix(n, "_test.go") {
			continue
		}
		ok, err := bctx.MatchFile(dir, n)
		if err != nil {
			return nil, fmt.Errorf("%s/%s: %v", dir, n, err)
		}
		if !ok {
			continue
		}
		f, err := parser.ParseFile(fset, filepath.Join(dir, n), nil, parser.ParseComments)
		if err != nil {
			return nil, err
		}
		pi.files = append(pi.files, f)
	}
	if len(pi.files) == 0 {
		return nil, fmt.Errorf("no Go files in %s", dir)
	}
	pi.name = pi.files[0].Name.Name
	pi.info = &types.Info{
		Types:      map[ast.Expr]types.TypeAndValue{},
		Defs:       map[*ast.Ident]types.Object{},
		Uses:       map[*ast.Ident]types.Object{},
		Selections: map[*ast.SelectorExpr]*types.Selection{},
	}
	conf := types.Config{Importer: imp, Error: func(error) {}, FakeImportC: true, DisableUnusedImportCheck: true}
	pkg, _ := conf.Check(importPath, fset, pi.files, pi.info) // errors from the stubbed imports are expected
	if pkg == nil {
		return nil, fmt.Errorf("type-checking %s produced no package", dir)
	}
	pi.pkg = pkg
	return pi, nil
}

// ---------------------------------------------------------------- extractor

type fn struct {
	obj  *types.Func
	decl *ast.FuncDecl
	pi   *pkgInfo
	name string // display name: "Event.Msg", "log.Print", "newEvent"
}

type extractor struct {
	fset  *token.FileSet
	repo  string
	pkgs  []*pkgInfo
	zl    *pkgInfo
	funcs map[*types.Func]*fn
	reach map[*types.Func]int // 0 unknown, 1 in progress, 2 no, 3 yes: runtime.Caller reachable
	tab   *Table
}

func (x *extractor) pos(p token.Pos) string {
	ps := x.fset.Position(p)
	rel, err := filepath.Rel(x.repo, ps.Filename)
	if err != nil {
		rel = ps.Filename
	}
	return fmt.Sprintf("%s:%d", rel, ps.Line)
}

func recvTypeName(t types.Type) (string, bool) {
	ptr := false
	if p, ok := t.(*types.Pointer); ok {
		t = p.Elem()
		ptr = true
	}
	if n, ok := t.(*types.Named); ok {
		return n.Obj().Name(), ptr
	}
	return t.String(), ptr
}

func (x *extractor) displayName(o *types.Func, pi *pkgInfo) string {
	sig := o.Type().(*types.Signature)
	if r := sig.Recv(); r != nil {
		n, _ := recvTypeName(r.Type())
		return n + "." + o.Name()
	}
	if pi != x.zl {
		return pi.name + "." + o.Name()
	}
	return o.Name()
}

func (x *extractor) index() {
	x.funcs = map[*types.Func]*fn{}
	for _, pi := range x.pkgs {
		for _, f := range pi.files {
			for _, d := range f.Decls {
				fd, ok := d.(*ast.FuncDecl)
				if !ok || fd.Body == nil {
					continue
				}
				o, ok := pi.info.Defs[fd.Name].(*types.Func)
				if !ok {
					continue
				}
				x.funcs[o] = &fn{obj: o, decl: fd, pi: pi, name: x.displayName(o, pi)}
			}
		}
	}
}

// callee resolution ------------------------------------------------------

type target struct {
	runtimeCaller bool
	fns           []*fn // static: one; interface dispatch: the candidates
	dynamic       bool  // interface dispatch
	hookLoop      bool  // dynamic call whose receiver ranges over Event.ch
}

func (x *extractor) isRuntimeCaller(pi *pkgInfo, call *ast.CallExpr) bool {
	sel, ok := call.Fun.(*ast.SelectorExpr)
	if !ok || sel.Sel.Name != "Caller" {
		return false
	}
	id, ok := sel.X.(*ast.Ident)
	if !ok {
		return false
	}
	pn, ok := pi.info.Uses[id].(*types.PkgName)
	return ok && pn.Imported().Path() == "runtime"
}

// implementers: unexported named types of the zerolog package that implement iface
func (x *extractor) implementers(iface *types.Interface, method string) []*fn {
	var out []*fn
	scope := x.zl.pkg.Scope()
	names := scope.Names()
	sort.Strings(names)
	for _, n := range names {
		tn, ok := scope.Lookup(n).(*types.TypeName)
		if !ok || tn.Exported() {
			continue
		}
		named, ok := tn.Type().(*types.Named)
		if !ok {
			continue
		}
		if _, isIface := named.Underlying().(*types.Interface); isIface {
			continue
		}
		if !types.Implements(named, iface) && !types.Implements(types.NewPointer(named), iface) {
			continue
		}
		o, _, _ := types.LookupFieldOrMethod(types.NewPointer(named), true, x.zl.pkg, method)
		if f, ok := o.(*types.Func); ok {
			if d := x.funcs[f]; d != nil {
				out = append(out, d)
			}
		}
	}
	return out
}

func (x *extractor) resolve(pi *pkgInfo, call *ast.CallExpr) *target {
	if x.isRuntimeCaller(pi, call) {
		return &target{runtimeCaller: true}
	}
	switch f := call.Fun.(type) {
	case *ast.Ident:
		if o, ok := pi.info.Uses[f].(*types.Func); ok {
			if d := x.funcs[o]; d != nil {
				return &target{fns: []*fn{d}}
			}
		}
	case *ast.SelectorExpr:
		if sel := pi.info.Selections[f]; sel != nil {
			o, ok := sel.Obj().(*types.Func)
			if !ok {
				return nil
			}
			if iface, ok := sel.Recv().Underlying().(*types.Interface); ok {
				t := &target{dynamic: true, fns: x.implementers(iface, o.Name())}
				return t
			}
			if d := x.funcs[o]; d != nil {
				return &target{fns: []*fn{d}}
			}
			return nil
		}
		if o, ok := pi.info.Uses[f.Sel].(*types.Func); ok { // pkg.Func
			if d := x.funcs[o]; d != nil {
				return &target{fns: []*fn{d}}
			}
		}
	}
	return nil
}

// reaches: can runtime.Caller be reached from f through the resolved call graph?
func (x *extractor) reaches(f *fn) bool {
	switch x.reach[f.obj] {
	case 1, 2:
		return false
	case 3:
		return true
	}
	x.reach[f.obj] = 1
	res := false
	ast.Inspect(f.decl.Body, func(n ast.Node) bool {
		if res {
			return false
		}
		call, ok := n.(*ast.CallExpr)
		if !ok {
			return true
		}
		t := x.resolve(f.pi, call)
		if t == nil {
			return true
		}
		if t.runtimeCaller {
			res = true
			return false
		}
		for _, g := range t.fns {
			if x.reaches(g) {
				res = true
				return false
			}
		}
		return true
	})
	if res {
		x.reach[f.obj] = 3
	} else {
		x.reach[f.obj] = 2
	}
	return res
}

// ---------------------------------------------------------------- symbolic walk

type symval struct {
	atoms []Atom
	ok    bool
	why   string
}

type frameEnv struct {
	f      *fn
	vars   map[types.Object]symval // locals and parameters with a known integer value
	isRoot bool
}

type state struct {
	frames  []string
	sites   []string
	viaHook bool
	conds   []Cond
	sf      []int64
}

func (s state) clone() state {
	c := state{viaHook: s.viaHook}
	c.frames = append([]string{}, s.frames...)
	c.sites = append([]string{}, s.sites...)
	c.conds = append([]Cond{}, s.conds...)
	c.sf = append([]int64{}, s.sf...)
	return c
}

func cloneVars(m map[types.Object]symval) map[types.Object]symval {
	c := make(map[types.Object]symval, len(m))
	for k, v := range m {
		c[k] = v
	}
	return c
}

var stdConsts = map[string]int64{"math.MinInt32": -2147483648, "math.MaxInt32": 2147483647, "math.MinInt16": -32768, "math.MaxInt16": 32767, "math.MinInt8": -128, "math.MaxInt8": 127}

func (x *extractor) constValue(pi *pkgInfo, c *types.Const) (int64, bool) {
	if v := c.Val(); v != nil && v.Kind() == constant.Int {
		if i, ok := constant.Int64Val(v); ok {
			return i, true
		}
	}
	// the initialiser mentions a stubbed import (math.MinInt32): read it syntactically
	for _, p := range x.pkgs {
		for _, f := range p.files {
			for _, d := range f.Decls {
				gd, ok := d.(*ast.GenDecl)
				if !ok || gd.Tok != token.CONST {
					continue
				}
				for _, sp := range gd.Specs {
					vs := sp.(*ast.ValueSpec)
					for i, id := range vs.Names {
						if p.info.Defs[id] == types.Object(c) && i < len(vs.Values) {
							if sel, ok := vs.Values[i].(*ast.SelectorExpr); ok {
								if pk, ok := sel.X.(*ast.Ident); ok {
									if pn, ok := p.info.Uses[pk].(*types.PkgName); ok {
										if v, ok := stdConsts[pn.Imported().Path()+"."+sel.Sel.Name]; ok {
											return v, true
										}
									}
								}
							}
						}
					}
				}
			}
		}
	}
	return 0, false
}

// package-level `var X = <int literal>`
func (x *extractor) varInit(v *types.Var) (int64, string, bool) {
	for _, p := range x.pkgs {
		for _, f := range p.files {
			for _, d := range f.Decls {
				gd, ok := d.(*ast.GenDecl)
				if !ok || gd.Tok != token.VAR {
					continue
				}
				for _, sp := range gd.Specs {
					vs := sp.(*ast.ValueSpec)
					for i, id := range vs.Names {
						if p.info.Defs[id] == types.Object(v) && i < len(vs.Values) {
							if tv, ok := p.info.Types[vs.Values[i]]; ok && tv.Value != nil && tv.Value.Kind() == constant.Int {
								if n, ok := constant.Int64Val(tv.Value); ok {
									return n, x.pos(id.Pos()), true
								}
							}
						}
					}
				}
			}
		}
	}
	return 0, "", false
}

func (x *extractor) fieldName(pi *pkgInfo, sel *ast.SelectorExpr) (string, bool) {
	s := pi.info.Selections[sel]
	if s == nil || s.Kind() != types.FieldVal {
		return "", false
	}
	n, _ := recvTypeName(s.Recv())
	return n + "." + sel.Sel.Name, true
}

func (x *extractor) evalInt(env *frameEnv, e ast.Expr) symval {
	pi := env.f.pi
	bad := func(format string, a ...interface{}) symval {
		return symval{why: fmt.Sprintf("%s: %s", x.pos(e.Pos()), fmt.Sprintf(format, a...))}
	}
	switch v := e.(type) {
	case *ast.ParenExpr:
		return x.evalInt(env, v.X)
	case *ast.BasicLit:
		if v.Kind == token.INT {
			n, err := strconv.ParseInt(v.Value, 0, 64)
			if err == nil {
				return symval{atoms: []Atom{{Kind: "lit", Val: n}}, ok: true}
			}
		}
		return bad("literal %s is not an integer", v.Value)
	case *ast.UnaryExpr:
		if v.Op == token.SUB {
			if tv, ok := pi.info.Types[e]; ok && tv.Value != nil && tv.Value.Kind() == constant.Int {
				n, _ := constant.Int64Val(tv.Value)
				return symval{atoms: []Atom{{Kind: "lit", Val: n}}, ok: true}
			}
		}
		return bad("unsupported unary expression")
	case *ast.BinaryExpr:
		if v.Op != token.ADD {
			return bad("unsupported operator %s in a skip expression", v.Op)
		}
		a, b := x.evalInt(env, v.X), x.evalInt(env, v.Y)
		if !a.ok {
			return a
		}
		if !b.ok {
			return b
		}
		return symval{atoms: append(append([]Atom{}, a.atoms...), b.atoms...), ok: true}
	case *ast.Ident:
		o := pi.info.Uses[v]
		switch ob := o.(type) {
		case *types.Const:
			n, ok := x.constValue(pi, ob)
			if !ok {
				return bad("constant %s has no known integer value", v.Name)
			}
			x.tab.Consts[v.Name] = n
			x.tab.ConstSites[v.Name] = x.pos(ob.Pos())
			return symval{atoms: []Atom{{Kind: "const", Name: v.Name, Val: n}}, ok: true}
		case *types.Var:
			if sv, ok := env.vars[ob]; ok {
				if !sv.ok && sv.why == "" {
					sv.why = fmt.Sprintf("%s: %s has no symbolic value", x.pos(e.Pos()), v.Name)
				}
				return sv
			}
			if ob.Parent() == ob.Pkg().Scope() { // package-level variable
				n, site, ok := x.varInit(ob)
				if !ok {
					return bad("package variable %s has no integer literal initialiser", v.Name)
				}
				x.tab.Consts[v.Name] = n
				x.tab.ConstSites[v.Name] = site
				return symval{atoms: []Atom{{Kind: "var", Name: v.Name, Val: n}}, ok: true}
			}
			if env.isRoot && isParamOf(env.f, ob) {
				return symval{atoms: []Atom{{Kind: "arg", Name: v.Name, Val: -1}}, ok: true}
			}
			return bad("variable %s has no symbolic value", v.Name)
		}
		return bad("identifier %s not understood", v.Name)
	case *ast.SelectorExpr:
		if fnm, ok := x.fieldName(pi, v); ok {
			return symval{atoms: []Atom{{Kind: "field", Name: fnm}}, ok: true}
		}
		return bad("selector not understood")
	case *ast.IndexExpr:
		id, ok := v.X.(*ast.Ident)
		if ok && env.isRoot {
			if ob, ok := pi.info.Uses[id].(*types.Var); ok && isParamOf(env.f, ob) {
				if tv, ok := pi.info.Types[v.Index]; ok && tv.Value != nil {
					n, _ := constant.Int64Val(tv.Value)
					return symval{atoms: []Atom{{Kind: "arg", Name: id.Name, Val: n}}, ok: true}
				}
			}
		}
		return bad("index expression not understood")
	}
	return bad("expression not understood")
}

func isParamOf(f *fn, v *types.Var) bool {
	sig := f.obj.Type().(*types.Signature)
	for i := 0; i < sig.Params().Len(); i++ {
		if sig.Params().At(i) == v {
			return true
		}
	}
	return false
}
