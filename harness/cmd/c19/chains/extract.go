package chains

import (
	"fmt"
	"go/token"
	"go/types"
	"path/filepath"
	"sort"
	"strings"
)

// Extract reads <repo> (package zerolog) and <repo>/log and builds the table.
func Extract(repo string) (*Table, error) {
	repo, _ = filepath.Abs(repo)
	fset := token.NewFileSet()
	imp := stubImporter{known: map[string]*types.Package{}}
	zl, err := loadPkg(fset, repo, ZerologPath, imp)
	if err != nil {
		return nil, err
	}
	imp.known[ZerologPath] = zl.pkg
	lg, err := loadPkg(fset, filepath.Join(repo, "log"), ZerologPath+"/log", imp)
	if err != nil {
		return nil, err
	}
	x := &extractor{fset: fset, repo: repo, pkgs: []*pkgInfo{zl, lg}, zl: zl, reach: map[*types.Func]int{},
		tab: &Table{Consts: map[string]int64{}, ConstSites: map[string]string{}}}
	x.index()
	for _, pi := range x.pkgs {
		for _, f := range pi.files {
			rel, _ := filepath.Rel(repo, fset.Position(f.Pos()).Filename)
			x.tab.Files = append(x.tab.Files, rel)
		}
	}
	sort.Strings(x.tab.Files)

	rootRecv := func(f *fn) (ok bool, isEvent bool) {
		sig := f.obj.Type().(*types.Signature)
		if sig.Recv() == nil {
			return true, false
		}
		n, _ := recvTypeName(sig.Recv().Type())
		switch n {
		case "Event":
			return true, true
		case "Logger":
			return true, false
		}
		return false, false
	}
	var notRoots []string
	for _, f := range x.sortedFuncs() {
		if !f.obj.Exported() {
			continue
		}
		ok, isEvent := rootRecv(f)
		if x.reaches(f) {
			if !ok {
				notRoots = append(notRoots, f.name)
				continue
			}
			before := len(x.tab.Paths)
			if err := x.explore(f.name, f, state{}, nil, true, map[*fn]bool{}); err != nil {
				return nil, err
			}
			if len(x.tab.Paths) == before {
				return nil, fmt.Errorf("%s reaches runtime.Caller in the call graph but no chain was found", f.name)
			}
			via := x.tab.Paths[before].ViaHook
			for _, p := range x.tab.Paths[before:] {
				if p.ViaHook != via {
					return nil, fmt.Errorf("%s reaches runtime.Caller both through the hook loop and directly", f.name)
				}
			}
			d := x.describe(f)
			switch {
			case isEvent && via:
				x.tab.Finalizers = append(x.tab.Finalizers, d)
			case isEvent:
				x.tab.Direct = append(x.tab.Direct, d)
			case via:
				x.tab.Terminals = append(x.tab.Terminals, d)
			default:
				return nil, fmt.Errorf("%s calls runtime.Caller without an event and outside the hook loop (unrecognised shape)", f.name)
			}
			continue
		}
		if ok && !isEvent && returnsEvent(f) && x.createsEvent(f, map[*fn]bool{}) {
			sig := f.obj.Type().(*types.Signature)
			if f.pi == x.zl && sig.Recv() == nil {
				continue // package-level constructors of zerolog itself (Dict) are not logging entry points
			}
			d := x.describe(f)
			sf, err := x.entrySf(f, map[*fn]bool{})
			if err != nil {
				return nil, err
			}
			d.SfDelta = sf
			x.tab.Entries = append(x.tab.Entries, d)
		}
	}
	x.tab.NotRoots = notRoots
	if err := x.hookCtors(); err != nil {
		return nil, err
	}
	x.newEventReset()
	if len(x.tab.Paths) == 0 {
		return nil, fmt.Errorf("no call of runtime.Caller found")
	}
	// every path ends in a frame that reads Event.skipFrame? not required here: the Coq side checks the arithmetic.
	return x.tab, nil
}

// ---------------------------------------------------------------- Coq

func coqStr(s string) string { return "\"" + strings.ReplaceAll(s, "\"", "\"\"") + "\"" }

func coqZ(n int64) string {
	if n < 0 {
		return fmt.Sprintf("(%d)", n)
	}
	return fmt.Sprintf("%d", n)
}

func coqBool(b bool) string {
	if b {
		return "true"
	}
	return "false"
}

func coqZs(xs []int64) string {
	ss := make([]string, len(xs))
	for i, v := range xs {
		ss[i] = coqZ(v)
	}
	return "[" + strings.Join(ss, "; ") + "]"
}

func coqStrs(xs []string) string {
	ss := make([]string, len(xs))
	for i, v := range xs {
		ss[i] = coqStr(v)
	}
	return "[" + strings.Join(ss, "; ") + "]"
}

func (a Atom) Coq() string {
	switch a.Kind {
	case "lit":
		return "ALit " + coqZ(a.Val)
	case "const":
		return "AConst " + coqStr(a.Name) + " " + coqZ(a.Val)
	case "var":
		return "AVar " + coqStr(a.Name) + " " + coqZ(a.Val)
	case "arg":
		return "AArg " + coqStr(a.Name) + " " + coqZ(a.Val)
	default:
		return "AField " + coqStr(a.Name)
	}
}

func (c Cond) Coq() string {
	if c.Kind == "arglen" {
		return "CArgLen " + coqStr(c.Name) + " " + coqBool(c.Holds)
	}
	return "CFieldIs " + coqStr(c.Name) + " " + coqStr(c.Const) + " " + coqZ(c.Val) + " " + coqBool(c.Holds)
}

func (p Path) Coq() string {
	as := make([]string, len(p.Skip))
	for i, a := range p.Skip {
		as[i] = a.Coq()
	}
	cs := make([]string, len(p.Conds))
	for i, c := range p.Conds {
		cs[i] = c.Coq()
	}
	return fmt.Sprintf("{| p_root := %s; p_frames := %s; p_via_hook := %s;\n     p_conds := [%s];\n     p_skip := [%s]; p_sfdelta := %s |}",
		coqStr(p.Root), coqStrs(p.Frames), coqBool(p.ViaHook), strings.Join(cs, "; "), strings.Join(as, "; "), coqZs(p.SfDelta))
}

func names(fs []Func) []string {
	out := make([]string, len(fs))
	for i, f := range fs {
		out[i] = f.Name
	}
	return out
}

// Coq renders the table as coq/Gen/CallChains.v.
func (t *Table) Coq() string {
	var b strings.Builder
	b.WriteString("(* GENERATED by harness/cmd/c19gen (package verifharness/cmd/c19/chains) from the working tree of\n")
	b.WriteString("   rs/zerolog - do not edit, never commit.  Static call chains from every function a user can call to\n")
	b.WriteString("   runtime.Caller, the symbolic argument of runtime.Caller, the CallerSkipFrame literals on the way.\n")
	b.WriteString("   Read: " + strings.Join(t.Files, " ") + "\n")
	b.WriteString("   Functions that reach runtime.Caller but are not entry points of the table (receiver is neither Event nor\n")
	b.WriteString("   Logger; hook adaptors forward to user hooks, TestWriter reports its own caller): " + strings.Join(t.NotRoots, ", ") + " *)\n")
	b.WriteString("From Coq Require Import List ZArith String.\nFrom Verif Require Import Misc.CallerTypes.\nImport ListNotations.\nOpen Scope string_scope.\nOpen Scope Z_scope.\n\n")
	ks := make([]string, 0, len(t.Consts))
	for k := range t.Consts {
		ks = append(ks, k)
	}
	sort.Strings(ks)
	b.WriteString("(* constants met in the skip expressions / hook constructors: (name, value) *)\n")
	b.WriteString("Definition cc_consts : list (string * Z) := [\n")
	for i, k := range ks {
		sep := ";"
		if i == len(ks)-1 {
			sep = ""
		}
		fmt.Fprintf(&b, "  (%s, %s)%s  (* %s *)\n", coqStr(k), coqZ(t.Consts[k]), sep, t.ConstSites[k])
	}
	b.WriteString("].\n\n")
	fmt.Fprintf(&b, "(* newEvent assigns 0 to Event.skipFrame: %s *)\nDefinition cc_newEvent_resets_skipFrame : bool := %s.\n\n", t.NewEventSite, coqBool(t.NewEventResetsSkipFrame))
	b.WriteString("Definition cc_paths : list path := [\n")
	for i, p := range t.Paths {
		sites := make([]string, len(p.Sites))
		copy(sites, p.Sites)
		fmt.Fprintf(&b, "  (* calls at %s *)\n  %s", strings.Join(sites, " -> "), p.Coq())
		if i < len(t.Paths)-1 {
			b.WriteString(";")
		}
		b.WriteString("\n")
	}
	b.WriteString("].\n\n")
	b.WriteString("(* exported functions returning a new *Event, with the CallerSkipFrame literals they apply to it *)\n")
	b.WriteString("Definition cc_entries : list (string * list Z) := [\n")
	for i, e := range t.Entries {
		sep := ";"
		if i == len(t.Entries)-1 {
			sep = ""
		}
		fmt.Fprintf(&b, "  (%s, %s)%s\n", coqStr(e.Name), coqZs(e.SfDelta), sep)
	}
	b.WriteString("].\n\n")
	fmt.Fprintf(&b, "(* *Event methods that reach runtime.Caller directly *)\nDefinition cc_direct : list string := %s.\n", coqStrs(names(t.Direct)))
	fmt.Fprintf(&b, "(* *Event methods that reach runtime.Caller through the hook loop *)\nDefinition cc_finalizers : list string := %s.\n", coqStrs(names(t.Finalizers)))
	fmt.Fprintf(&b, "(* other exported functions that create an event and run the hook loop themselves *)\nDefinition cc_terminals : list string := %s.\n\n", coqStrs(names(t.Terminals)))
	b.WriteString("(* Context methods installing the caller hook: (name, what callerHook.callerSkipFrameCount is set to) *)\n")
	b.WriteString("Definition cc_hook_ctors : list (string * hookfield) := [\n")
	for i, h := range t.HookCtors {
		sep := ";"
		if i == len(t.HookCtors)-1 {
			sep = ""
		}
		f := "HFParam"
		if strings.HasPrefix(h.Field, "flag:") {
			n := strings.TrimPrefix(h.Field, "flag:")
			f = "HFConst " + coqStr(n) + " " + coqZ(t.Consts[n])
		}
		fmt.Fprintf(&b, "  (%s, %s)%s  (* %s *)\n", coqStr(h.Name), f, sep, h.Site)
	}
	b.WriteString("].\n")
	return b.String()
}
