package main

// C19 - deep wrappers and large skips.
//
// "CallerSkipFrame(k), Caller(k) and CallerWithSkipFrameCount(2+k) each move the
// reported site exactly k frames up the call stack, so helper wrappers of any depth
// can report their own caller": nothing bounds k or the depth.  The main enumeration
// stops at depth 4; this sweep runs the statements under wrapper chains of 126..1000
// distinct generated helper functions (one source line each: every frame is told
// apart) and, beyond, under a recursive helper of 32766..65538 levels (the recursive
// frames share one source line; the skip is aimed at the frames that do not: the
// caller of the recursion, the innermost level).  The skip k sits at and around the
// values where a narrower accumulator would wrap (int8: 127/128/129, uint8:
// 255/256/257, int16: 32767.., uint16: 65535..) plus 300 and 1000, and is realised
// by every source in turn - CallerSkipFrame(k), Caller(k) (the control: it never
// goes through Event.skipFrame), CallerSkipFrame(a).Caller(b) splits,
// CallerWithSkipFrameCount(2+k), the global CallerSkipFrameCount, one or two earlier
// hooks calling CallerSkipFrame, and mixtures.  The skip always lands on a frame of
// the run (k <= depth+1): the property says nothing about a skip that leaves the
// stack.

import (
	. "verifharness/hlib"
)

func deepSweep(c *Ctx, leaves []leafT, add func(caseT, leafT)) (nDeep, nRec int) {
	byKind := map[leafKind][]leafT{}
	for _, l := range leaves {
		if !l.Fatal {
			byKind[l.Kind] = append(byKind[l.Kind], l)
		}
	}
	n := 0
	// emit: the case on one statement of the kind (two in the thorough tier), rotating through the table
	emit := func(kind leafKind, cs caseT) {
		ls := byKind[kind]
		if len(ls) == 0 {
			return
		}
		reps := 1
		if c.Thorough() {
			reps = 3
		}
		for i := 0; i < reps; i++ {
			n++
			cs.Lvl = c19levels[n%len(c19levels)]
			cs.Err = n%2 == 0
			add(cs, ls[(n*7+int(kind))%len(ls)])
			if cs.Rec {
				nRec++
			} else {
				nDeep++
			}
		}
	}
	shapes := func(d, k int, rec bool) {
		base := caseT{D: d, G: 2, K: k, Caller: "none", Rec: rec}
		with := func(f func(cs *caseT)) caseT { cs := base; f(&cs); return cs }
		// ---- Event.Caller family
		emit(shSkipCaller, with(func(cs *caseT) { cs.A = k }))
		emit(shSkipCaller, with(func(cs *caseT) { cs.A, cs.G = k-1, 3 }))
		emit(shSkipCaller, with(func(cs *caseT) { cs.A, cs.Caller = k, "ctx" })) // both fields, same frame
		emit(shCallerArg, with(func(cs *caseT) { cs.B = k }))
		emit(shCallerArg, with(func(cs *caseT) { cs.B, cs.G = k-2, 4 }))
		emit(shSkipCallerArg, with(func(cs *caseT) { cs.A, cs.B = k-1, 1 }))
		emit(shSkipCallerArg, with(func(cs *caseT) { cs.A, cs.B = 1, k-1 }))
		emit(shSkipCallerArg, with(func(cs *caseT) { cs.A, cs.B = k/2, k-k/2 }))
		emit(shCaller, with(func(cs *caseT) { cs.G = 2 + k }))
		emit(shCaller, with(func(cs *caseT) { cs.G, cs.Caller = 2+k, "ctx" }))
		// ---- caller hook family (Context.Caller / CallerWithSkipFrameCount), incl. the Print family and Write
		for _, kind := range []leafKind{shPlain, shTerminal} {
			emit(kind, with(func(cs *caseT) { cs.Caller, cs.G = "ctx", 2+k }))
			emit(kind, with(func(cs *caseT) { cs.Caller, cs.N = "count", 2+k }))
			emit(kind, with(func(cs *caseT) { cs.Caller, cs.Pre = "ctx", []int{k} })) // an earlier hook skips k
			emit(kind, with(func(cs *caseT) { cs.Caller, cs.N, cs.Pre, cs.Post = "count", 2, []int{k / 2, 0, k - k/2}, []int{0} }))
			emit(kind, with(func(cs *caseT) { cs.Caller, cs.N, cs.Pre = "count", 2+k-100, []int{100} }))
		}
		emit(shSkip, with(func(cs *caseT) { cs.Caller, cs.A = "ctx", k }))
		emit(shSkip, with(func(cs *caseT) { cs.Caller, cs.N, cs.A = "count", 2, k }))
		emit(shSkip, with(func(cs *caseT) { cs.Caller, cs.A, cs.Pre = "ctx", k-1, []int{1} }))
		emit(shSkip, with(func(cs *caseT) {
			cs.Caller, cs.N, cs.A, cs.Pre, cs.Post = "count", 3, 64, []int{0, k - 64 - 1}, []int{0}
		}))
		emit(shSkip, with(func(cs *caseT) { cs.Caller, cs.A, cs.G = "ctx", k-3, 5 }))
	}
	// ---- chains of distinct helper functions
	for _, b := range []int{127, 128, 129, 255, 256, 257, 300, 1000} {
		seen := map[int]bool{}
		for _, d := range []int{b - 1, b, b + 2, maxChain} {
			if d > maxChain || d+1 < b || seen[d] {
				continue
			}
			seen[d] = true
			shapes(d, b, false)
		}
	}
	// ---- recursion
	for _, b := range []int{32767, 32768, 32769, 65535, 65536, 65537} {
		shapes(b-1, b, true) // lands on the caller of the recursion: a line of its own
		if c.Thorough() {
			shapes(b+1, b, true) // lands inside the recursion
		}
	}
	// the skip aimed at the innermost level of a deep recursion (user frame 1) and at the statement itself
	for _, d := range []int{200, 40000, 70000} {
		shapes1 := func(k int) {
			base := caseT{D: d, G: 2, K: k, Caller: "none", Rec: true}
			cs := base
			cs.A = k
			emit(shSkipCaller, cs)
			cs = base
			cs.Caller, cs.A = "ctx", k
			emit(shSkip, cs)
			cs = base
			cs.Caller, cs.N = "count", 2+k
			emit(shPlain, cs)
			emit(shTerminal, cs)
		}
		shapes1(0)
		shapes1(1)
		shapes1(d + 1)
	}
	return nDeep, nRec
}
